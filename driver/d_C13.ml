(* C13 driver: "ct v0,v1,v2,v3,..." -> the model's corner table, printed like the harness prints the
   implementation's:  nv=<n> c2v=<..> opp=<..> lmc=<..> par=<..> deg=<n> iso=<n>   (-1 = invalid index) *)
open M
open Zutil
let nat_cache = Array.init 4096 nat_of_int
let nat_ n = if n >= 0 && n < 4096 then nat_cache.(n) else nat_of_int n
let ints s = if s = "-" then [] else List.map int_of_string (String.split_on_char ',' s)
let rec faces_of = function
  | a :: b :: c :: r -> ((nat_ a, nat_ b), nat_ c) :: faces_of r
  | [] -> []
  | _ -> failwith "vertex list length not a multiple of 3"
let join f l = if l = [] then "-" else String.concat "," (List.map f l)
let sn n = string_of_int (int_of_nat n)
let so = function None -> "-1" | Some n -> sn n
let () = run_driver (function
  | ["ct"; vs] ->
    (match ct_create (faces_of (ints vs)) with
     | None -> "OUT-OF-FUEL"
     | Some t ->
       Printf.sprintf "nv=%d c2v=%s opp=%s lmc=%s par=%s deg=%s iso=%s"
         (List.length t.ct_vcorn) (join sn t.ct_c2v) (join so t.ct_opp) (join so t.ct_vcorn)
         (join sn t.ct_par) (sn t.ct_ndeg) (sn t.ct_niso))
  | k :: _ -> "UNKNOWN-KIND " ^ k
  | [] -> "EMPTY")
