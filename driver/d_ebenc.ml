(* EBENC driver:  "enc <rm> <faces>"  ->  the model's result, printed like harness/h_ebenc.cc prints the implementation's:
     ok nv= nf= ns= nsp= sy= ev= sb= pcc= rt= dv= do=   |  fail   (MODEL-OOB / MODEL-FUEL never expected)
   The corner table is rebuilt by the model of CornerTable::Create (Model/CornerTable.v) from the face list; the model
   encoder (Model/EbEncoder.v) runs on it; the model decoder (Model/Edgebreaker.v, eb_full) runs on the model encoder's
   output; rt = the proved checker eb_iso_b between the encoder's table and the table the model decoder built. *)
open M
open Zutil
let nat_cache = Array.init 8192 nat_of_int
let nat_ n = if n >= 0 && n < 8192 then nat_cache.(n) else nat_of_int n
let ints s = if s = "-" then [] else List.map int_of_string (String.split_on_char ',' s)
let rec faces_of = function
  | a :: b :: c :: r -> ((nat_ a, nat_ b), nat_ c) :: faces_of r
  | [] -> []
  | _ -> failwith "vertex list length not a multiple of 3"
let join f l = if l = [] then "-" else String.concat "," (List.map f l)
let snat n = string_of_int (int_of_nat n)
let () = run_driver (function
  | ["enc"; rm; faces] ->
    (match ct_create (faces_of (ints faces)) with
     | None -> "MODEL-FUEL(ct_create)"
     | Some t ->
       (match eb_encode_ct t with
        | EFail -> "fail"
        | EOob -> "MODEL-OOB"
        | EFuel -> "MODEL-FUEL"
        | EOk o ->
          let head = Printf.sprintf "ok nv=%s nf=%s ns=%s nsp=%s sy=%s ev=%s sb=%s pcc=%s"
            (string_of_z o.o_nverts) (string_of_z o.o_nfaces) (string_of_z o.o_nsyms) (string_of_z o.o_nsplit)
            (join string_of_z o.o_syms)
            (join (fun ((a, b), c) -> string_of_z a ^ ":" ^ string_of_z b ^ ":" ^ string_of_z c) o.o_events)
            (if o.o_bits = [] then "-" else String.concat "" (List.map (fun b -> if b then "1" else "0") o.o_bits))
            (join snat o.o_pcc) in
          (match eb_decode_of o (rm = "1") with
           | Ok (_, s) ->
             let nc = 3 * List.length o.o_pcc in
             let tab f = tabulate f (z_of_int 0) (nat_ nc) in
             let rt = eb_iso_b t.ct_c2v t.ct_opp o.o_pcc s.c2v s.copp in
             Printf.sprintf "%s rt=%s dv=%s do=%s" head (if rt then "1" else "0")
               (join string_of_z (tab s.c2v)) (join string_of_z (tab s.copp))
           | Reject -> head ^ " rt=0 MODEL-DECODER-REJECTS"
           | OOB -> head ^ " rt=0 MODEL-DECODER-OOB"
           | Fuel -> head ^ " rt=0 MODEL-DECODER-FUEL")))
  | k :: _ -> "UNKNOWN-KIND " ^ k
  | [] -> "EMPTY")
