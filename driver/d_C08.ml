open M
open Zutil
let z = z_of_string
let zlist s = if s = "-" then [] else List.map z (String.split_on_char ',' s)
let csv l = if l = [] then "-" else String.concat "," (List.map string_of_z l)
let nat n = nat_of_int (int_of_string n)
let dec_result = function
  | Ok (vals, rest) -> Printf.sprintf "ok %s %d" (csv vals) (List.length rest)
  | Fail -> "fail"
  | Oob -> "MODEL-OOB"
  | Unmod -> "MODEL-UNMODELLED"
let () = run_driver (function
  | ["prec"; b] -> string_of_z (rans_precision_bits (z b))
  | ["rbl"; nu; lvl] -> string_of_z (default_raw_bit_length (z nu) (if lvl = "u" then z "7" else z lvl))
  | ["es"; m; _auto; lvl; nc; bl; syms] ->
      let syms = zlist syms in
      let lvl = if lvl = "u" then z "7" else z lvl in
      (* bl: the raw bit length read off the implementation's bytes (policy, like the scheme); "-" when there is none *)
      (match (if bl = "-" then enc_symbols (z m) lvl (z nc) syms else enc_symbols_with (z m) (z bl) (z nc) syms) with
       | None -> "fail"
       | Some bs -> hex_of_bytes bs ^ " amok=" ^ (if _auto = "0" || auto_method_ok syms (z m) then "1" else "0"))
  | ["ds"; ver; n; nc; h] -> dec_result (dec_symbols (z ver) (nat n) (nat nc) [] (bytes_of_hex h))
  | ["rse"; n; freqs; syms] ->
      let p = rans_precision_bits (z n) in
      (match create_f64 p (zlist freqs) with
       | COk probs -> (match rans_encode_with p probs (zlist syms) with
                       | Some bs -> "c=1 " ^ hex_of_bytes bs
                       | None -> "MODEL-ENCODE-NONE")
       | CFalse -> "c=0"
       | CFuel -> "MODEL-CREATE-FUEL"
       | CUnmod -> "MODEL-CREATE-UNMODELLED")
  | ["rwa"; n; e; freqs; syms] ->
      let p = rans_precision_bits (z n) in
      let fr = zlist freqs in
      (match create_f64 p fr with
       | COk probs ->
         (match rans_encode_syms p (arr_of_list (with_cum probs (z "0"))) (zlist syms) (rans_write_init p) with
          | Some st ->
            let w = zlen (rans_block p st) in
            let used = (match rans_area_used p st with Some u -> string_of_z u | None -> "MODEL-NO-VARINT") in
            let ev = z e in
            let ((lo, hi), chk) = ebits_report p probs fr ev in
            let inside = int_of_z lo <= int_of_z ev && int_of_z ev <= int_of_z hi in
            let verdict = if inside && chk then "ok"
                          else Printf.sprintf "E-outside-[%s,%s]%s" (string_of_z lo) (string_of_z hi)
                                 (if chk then "" else "-AND-TOO-SMALL-FOR-THE-THEOREM") in
            Printf.sprintf "w=%s used=%s res=%s e=%s" (string_of_z w) used (string_of_z (rans_reserved ev)) verdict
          | None -> "MODEL-ENCODE-NONE")
       | CFalse -> "c=0"
       | CFuel -> "MODEL-CREATE-FUEL"
       | CUnmod -> "MODEL-CREATE-UNMODELLED")
  | ["rsc"; n; freqs] ->
      let p = rans_precision_bits (z n) in
      (match create_f64 p (zlist freqs) with
       | COk probs -> (match enc_table probs with Some bs -> "c=1 " ^ hex_of_bytes bs | None -> "MODEL-TABLE-NONE")
       | CFalse -> "c=0"
       | CFuel -> "MODEL-CREATE-FUEL"
       | CUnmod -> "MODEL-CREATE-UNMODELLED")
  | ["rsd"; n; ver; cnt; pre; h] ->
      dec_result (rans_decode_symbols (z ver) (rans_precision_bits (z n)) (nat cnt) (bytes_of_hex pre) (bytes_of_hex h))
  | k :: _ -> "UNKNOWN-KIND " ^ k
  | [] -> "EMPTY")
