(* Trusted glue between text and the extracted Coq datatypes (module M = the extraction of
   this property's model).  Uses only the constructors of positive/Z/nat and the ds_* helpers. *)
open M

let rec int_of_pos = function XH -> 1 | XO p -> 2 * int_of_pos p | XI p -> 2 * int_of_pos p + 1
let int_of_z = function Z0 -> 0 | Zpos p -> int_of_pos p | Zneg p -> - (int_of_pos p)
let rec pos_of_int n =
  if n = 1 then XH else if n land 1 = 0 then XO (pos_of_int (n lsr 1)) else XI (pos_of_int (n lsr 1))
let z_of_int n = if n = 0 then Z0 else if n > 0 then Zpos (pos_of_int n) else Zneg (pos_of_int (- n))
let rec nat_of_int n = if n <= 0 then O else S (nat_of_int (n - 1))
let rec int_of_nat = function O -> 0 | S n -> 1 + int_of_nat n

let digits = Array.init 10 z_of_int

(* arbitrary-size decimal text -> Z *)
let z_of_string (s : string) : z =
  let n = String.length s in
  if n = 0 then failwith "z_of_string: empty";
  let neg = s.[0] = '-' in
  let start = if neg then 1 else 0 in
  if n - start <= 17 then z_of_int (int_of_string s) else begin
    let acc = ref ds_zero in
    for i = start to n - 1 do
      let c = Char.code s.[i] - 48 in
      if c < 0 || c > 9 then failwith ("z_of_string: " ^ s);
      acc := ds_push_digit !acc digits.(c)
    done;
    if neg then ds_neg !acc else !acc
  end

let rec pos_bits = function XH -> 1 | XO p -> 1 + pos_bits p | XI p -> 1 + pos_bits p
let string_of_z (z : z) : string =
  let small = match z with Z0 -> true | Zpos p | Zneg p -> pos_bits p <= 60 in
  if small then string_of_int (int_of_z z) else begin
    let neg = ds_is_neg z in
    let z = ref (if neg then ds_neg z else z) in
    let b = Buffer.create 24 in
    while not (ds_is_zero !z) do
      let (q, r) = ds_pop_digit !z in
      Buffer.add_char b (Char.chr (48 + int_of_z r));
      z := q
    done;
    let s = Buffer.contents b in
    let n = String.length s in
    let r = String.init n (fun i -> s.[n - 1 - i]) in
    (if neg then "-" else "") ^ r
  end

let bytez = Array.init 256 z_of_int
let hexval c = match c with
  | '0'..'9' -> Char.code c - 48 | 'a'..'f' -> Char.code c - 87 | 'A'..'F' -> Char.code c - 55
  | _ -> failwith "hex"
(* "-" denotes the empty byte string *)
let bytes_of_hex (s : string) : z list =
  if s = "-" then [] else begin
    let n = String.length s / 2 in
    let rec go i acc = if i < 0 then acc else
      go (i - 1) (bytez.(hexval s.[2*i] * 16 + hexval s.[2*i+1]) :: acc) in
    go (n - 1) []
  end
let hex_of_bytes (l : z list) : string =
  if l = [] then "-" else begin
    let b = Buffer.create 64 in
    List.iter (fun z -> Buffer.add_string b (Printf.sprintf "%02x" (int_of_z z land 255))) l;
    Buffer.contents b
  end
let rec length_int l = List.length l

(* line protocol: "<kind> <arg>... | <result>" ; the driver recomputes <result> *)
let split_case (line : string) : string list =
  let left = match String.index_opt line '|' with
    | Some i -> String.sub line 0 i | None -> line in
  List.filter (fun s -> s <> "") (String.split_on_char ' ' (String.trim left))

let run_driver (f : string list -> string) =
  let out = Buffer.create (1 lsl 16) in
  (try
    while true do
      let line = input_line stdin in
      if String.length line > 0 && (line.[0] = '#' || line.[0] = '!') then begin
        Buffer.add_string out line; Buffer.add_char out '\n' end
      else begin
        let toks = split_case line in
        let res = (try f toks with e -> "DRIVER-EXCEPTION " ^ Printexc.to_string e) in
        Buffer.add_string out (String.concat " " toks); Buffer.add_string out " | ";
        Buffer.add_string out res; Buffer.add_char out '\n'
      end;
      if Buffer.length out > (1 lsl 20) then begin print_string (Buffer.contents out); Buffer.clear out end
    done
  with End_of_file -> ());
  print_string (Buffer.contents out)
