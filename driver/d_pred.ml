(* PRED driver: the mesh prediction schemes of coq/Model/Predict.v on the cases of harness/h_pred.cc.
   The corner table is rebuilt by the model of CornerTable::Create (Model/CornerTable.v) from the face list. *)
open M
open Zutil
let nat_cache = Array.init 4096 nat_of_int
let nat_ n = if n >= 0 && n < 4096 then nat_cache.(n) else nat_of_int n
let split c s = if s = "-" then [] else String.split_on_char c s
let ints s = List.map int_of_string (split ',' s)
let zs s = List.map z_of_string (split ',' s)
let rec faces_of = function
  | a :: b :: c :: r -> ((nat_ a, nat_ b), nat_ c) :: faces_of r
  | [] -> []
  | _ -> failwith "vertex list length not a multiple of 3"
let rec rows nc = function
  | [] -> []
  | l -> let rec take k l acc = if k = 0 then (List.rev acc, l) else
             (match l with x :: r -> take (k - 1) r (x :: acc) | [] -> failwith "row") in
         let (r, rest) = take nc l [] in r :: rows nc rest
let rec v3s = function
  | a :: b :: c :: r -> ((a, b), c) :: v3s r
  | [] -> []
  | _ -> failwith "positions"
let flat rs = let l = List.concat rs in if l = [] then "-" else String.concat "," (List.map string_of_z l)
let bits s = if s = "-" then [] else List.init (String.length s) (fun i -> s.[i] = '1')
let mesh faces d2c v2d =
  match ct_create (faces_of (ints faces)) with
  | None -> failwith "OUT-OF-FUEL"
  | Some t -> { md_c2v = t.ct_c2v; md_opp = t.ct_opp; md_d2c = List.map nat_ (ints d2c); md_v2d = zs v2d }
let enc_res = function
  | None -> "fail"
  | Some (corr, bs) -> Printf.sprintf "ok %s %s" (flat corr) (hex_of_bytes bs)
let dec_res = function
  | None -> "fail"
  | Some (data, rest) -> Printf.sprintf "ok %s %d" (flat data) (List.length rest)
let rec pairs = function
  | a :: b :: r -> (a, b) :: pairs r
  | [] -> []
  | _ -> failwith "pairs"
let flat2 ps = if ps = [] then "-" else String.concat "," (List.map (fun (a, b) -> string_of_z a ^ "," ^ string_of_z b) ps)
let enc_res2 = function
  | None -> "fail"
  | Some (corr, bs) -> Printf.sprintf "ok %s %s" (flat2 corr) (hex_of_bytes bs)
let dec_res2 = function
  | None -> "fail"
  | Some (data, rest) -> Printf.sprintf "ok %s %d" (flat2 data) (List.length rest)
let ver = z_of_int 514
let () = run_driver (function
  | ["par"; nc; f; d2c; v2d; data] ->
    let nc = int_of_string nc in
    enc_res (par_encode (mesh f d2c v2d) (nat_ nc) (rows nc (zs data)))
  | ["dpar"; nc; f; d2c; v2d; corr; h] ->
    let nc = int_of_string nc in
    dec_res (par_decode (mesh f d2c v2d) (nat_ nc) (rows nc (zs corr)) (bytes_of_hex h))
  | ["mp"; nc; f; d2c; v2d; data; pol] ->
    let nc = int_of_string nc in
    let md = mesh f d2c v2d in
    let data = rows nc (zs data) in
    let streams = List.map bits (String.split_on_char ';' pol) in
    enc_res (mp_encode md (nat_ nc) data (mp_choice md data streams))
  | ["dmp"; nc; f; d2c; v2d; corr; h] ->
    let nc = int_of_string nc in
    dec_res (mp_decode ver (mesh f d2c v2d) (nat_ nc) (rows nc (zs corr)) (bytes_of_hex h))
  | ["tc"; f; d2c; v2d; pos; data; pol] ->
    let md = mesh f d2c v2d in
    let data = rows 2 (zs data) in
    let pos = v3s (zs pos) in
    enc_res (tc_encode md pos data (tc_choice md pos data (bits pol)))
  | ["dtc"; f; d2c; v2d; pos; corr; h] ->
    dec_res (tc_decode ver (mesh f d2c v2d) (v3s (zs pos)) (rows 2 (zs corr)) (bytes_of_hex h))
  | ["gn"; q; f; d2c; v2d; pos; data; pol] ->
    let fl = Array.of_list (bits pol) in
    enc_res2 (gn_encode (z_of_string q) (mesh f d2c v2d) (v3s (zs pos)) (pairs (zs data))
                (fun i -> let i = int_of_nat i in i < Array.length fl && fl.(i)))
  | ["dgn"; f; d2c; v2d; pos; corr; h] ->
    dec_res2 (gn_decode ver (mesh f d2c v2d) (v3s (zs pos)) (pairs (zs corr)) (bytes_of_hex h))
  | k :: _ -> "UNKNOWN-KIND " ^ k
  | [] -> "EMPTY")
