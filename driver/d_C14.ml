(* C14 driver: recomputes the right-hand side of every case line with the extracted model
   (Model/Dedup.v, Model/Cleanup.v).  Line protocol: see harness/h_C14.cc. *)
open M
open Zutil
let z = z_of_string
let nat s = nat_of_int (int_of_string s)
let csv s = if s = "-" then [] else String.split_on_char ',' s
let vals_of s : z list list = List.map bytes_of_hex (csv s)
let nats_of s : nat list = List.map nat (csv s)
let rec faces_of = function
  | a :: b :: c :: r -> ((a, b), c) :: faces_of r
  | [] -> []
  | _ -> failwith "faces: not a multiple of 3"
let bool_of s = (s = "1")

let str_vals (v : z list list) = if v = [] then "-" else String.concat "," (List.map hex_of_bytes v)
let str_nats (l : nat list) = if l = [] then "-" else String.concat "," (List.map (fun n -> string_of_int (int_of_nat n)) l)
let str_faces (fs : face list) =
  if fs = [] then "-" else
  String.concat "," (List.map (fun ((a, b), c) ->
    Printf.sprintf "%d,%d,%d" (int_of_nat a) (int_of_nat b) (int_of_nat c)) fs)
let str_map (a : attr) = if a.a_ident then "-" else str_nats a.a_map
let str_attr (a : attr) =
  Printf.sprintf "%s %s %s %s %s" (string_of_z a.a_ncomp) (string_of_z a.a_dtype) (if a.a_ident then "1" else "0")
    (str_vals a.a_vals) (str_map a)
let str_geo (g : geo) =
  String.concat " " ([string_of_int (int_of_nat g.g_np); string_of_int (List.length g.g_atts)]
                     @ List.map str_attr g.g_atts @ [str_faces g.g_faces])

(* parsers return the value and the remaining tokens *)
let parse_attr = function
  | nc :: dt :: id :: vs :: mp :: rest ->
    ({ a_ncomp = z nc; a_dtype = z dt; a_vals = vals_of vs; a_ident = bool_of id; a_map = nats_of mp }, rest)
  | _ -> failwith "attr: too few tokens"
let rec parse_n f n toks = if n = 0 then ([], toks) else
  let (x, r) = f toks in let (xs, r') = parse_n f (n - 1) r in (x :: xs, r')
let parse_geo = function
  | np :: na :: rest ->
    let (atts, r) = parse_n parse_attr (int_of_string na) rest in
    (match r with
     | fs :: r' -> ({ g_np = nat np; g_atts = atts; g_faces = faces_of (nats_of fs) }, r')
     | [] -> failwith "geo: faces missing")
  | _ -> failwith "geo: too few tokens"
let parse_in = function
  | nc :: dt :: vs :: rest -> ({ in_ncomp = z nc; in_dtype = z dt; in_vals = vals_of vs }, rest)
  | _ -> failwith "input attribute: too few tokens"
let done_ (x, rest) = if rest <> [] then failwith "trailing tokens" else x

let () = run_driver (function
  | "dv" :: toks ->
    let a = done_ (parse_attr toks) in
    let (a', ret) = dedup_values a in
    Printf.sprintf "%s %s %s %s" (string_of_z ret) (if a'.a_ident then "1" else "0") (str_vals a'.a_vals) (str_map a')
  | "dav" :: toks ->
    let g = done_ (parse_geo toks) in
    let (g', ok) = dedup_attribute_values g in
    (if ok then "1 " else "0 ") ^ str_geo g'
  | "dpi" :: toks -> str_geo (dedup_point_ids (done_ (parse_geo toks)))
  | "cl" :: opts :: pos :: toks ->
    let g = done_ (parse_geo toks) in
    if String.length opts <> 4 then failwith "cl: options";
    let o = { o_degenerate = opts.[0] = '1'; o_duplicate = opts.[1] = '1'; o_unused = opts.[2] = '1'; o_manifold = opts.[3] = '1' } in
    let p = if pos = "-1" then None else Some (nat pos) in
    (match cleanup p o g with None -> "fail" | Some g' -> "ok " ^ str_geo g')
  | "soup" :: nf :: na :: toks ->
    let ins = done_ (parse_n parse_in (int_of_string na) toks) in
    (match soup_build (nat nf) ins with None -> "null" | Some g -> str_geo g)
  | "pcb" :: np :: dd :: na :: toks ->
    let ins = done_ (parse_n parse_in (int_of_string na) toks) in
    str_geo (pc_build (nat np) ins (bool_of dd))
  | ["strip"; mode; fs; op] ->
    (* MeshStripifier on the faces (point ids) with the library's opposite-corner table as input *)
    if op = "null" then "fail" else begin
      let faces = faces_of (nats_of fs) in
      let opp = List.map (fun t -> if t = "-1" then None else Some (nat t)) (csv op) in
      (* the only hypothesis of C14_strips_restart_preserve / C14_strips_degenerate_preserve (the library's
         opposite-corner table is a symmetric pairing of existing corners), evaluated on the table the library built
         for this case; and the proved consequence that every stored strip crosses only seam-free edges *)
      let hyp = (if opp_wf_b faces opp then "" else " WF-HYPOTHESIS-FAILED") ^
                (if strips_walks_ok faces opp then "" else " WALK-HYPOTHESIS-FAILED") in
      (if mode = "r" then
        (match strips_restart faces opp with
         | None -> "fail"
         | Some l -> if l = [] then "-" else
             String.concat "," (List.map (function None -> "R" | Some n -> string_of_int (int_of_nat n)) l))
      else
        (match strips_degenerate faces opp with None -> "fail" | Some l -> str_nats l)) ^ hyp
    end
  | k :: _ -> "UNKNOWN-KIND " ^ k
  | [] -> "EMPTY")
