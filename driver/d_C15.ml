(* C15 driver: recomputes the right-hand side of every case line with the extracted model
   (Model/PlyModel.v, Model/StlModel.v, Model/ObjModel.v).  Line protocol: see harness/h_C15.cc. *)
open M
open Zutil
let z = z_of_string
let nat s = nat_of_int (int_of_string s)
let csv s = if s = "-" then [] else String.split_on_char ',' s
let vals_of s : z list list = List.map bytes_of_hex (csv s)
let nats_of s : nat list = List.map nat (csv s)
let rec faces_of = function
  | a :: b :: c :: r -> ((a, b), c) :: faces_of r
  | [] -> []
  | _ -> failwith "faces: not a multiple of 3"

let str_vals (v : z list list) = if v = [] then "-" else String.concat "," (List.map hex_of_bytes v)
let str_nats (l : nat list) = if l = [] then "-" else String.concat "," (List.map (fun n -> string_of_int (int_of_nat n)) l)
let str_faces (fs : face list) =
  if fs = [] then "-" else
  String.concat "," (List.map (fun ((a, b), c) ->
    Printf.sprintf "%d,%d,%d" (int_of_nat a) (int_of_nat b) (int_of_nat c)) fs)
let str_map (a : attr) = if a.a_ident then "-" else str_nats a.a_map
let str_attr (a : attr) =
  Printf.sprintf "%s %s %s %s %s" (string_of_z a.a_ncomp) (string_of_z a.a_dtype) (if a.a_ident then "1" else "0")
    (str_vals a.a_vals) (str_map a)
let str_geo (g : geo) =
  String.concat " " ([string_of_int (int_of_nat g.g_np); string_of_int (List.length g.g_atts)]
                     @ List.map str_attr g.g_atts @ [str_faces g.g_faces])

(* ATT := ncomp/dtype/ident/vals/map  |  - *)
let att_of s : attr option =
  if s = "-" then None else
  match String.split_on_char '/' s with
  | [nc; dt; id; vs; mp] ->
    Some { a_ncomp = z nc; a_dtype = z dt; a_vals = vals_of vs; a_ident = (id = "1"); a_map = nats_of mp }
  | _ -> failwith ("attribute " ^ s)
let att_req s = match att_of s with Some a -> a | None -> failwith "attribute required"
let infaces s = if s = "pc" then None else Some (faces_of (nats_of s))

let res_geo = function
  | Ok g -> "ok " ^ str_geo g
  | Reject -> "reject"
  | Oob -> "oob"
  | Unmod -> "unmod"

let bytes_of_string (s : string) : z list = List.init (String.length s) (fun i -> bytez.(Char.code s.[i]))

(* LINES := ';'-separated  v:t,t,t | vt:t,t | vn:t,t,t | f:c,c,c | # *)
let lines_of s : oline list =
  if s = "-" then [] else
  List.map (fun l ->
    if l = "#" then OSkip else
    match String.index_opt l ':' with
    | None -> failwith ("line " ^ l)
    | Some i ->
      let kind = String.sub l 0 i and rest = String.sub l (i + 1) (String.length l - i - 1) in
      let toks = List.map bytes_of_string (if rest = "" then [] else String.split_on_char ',' rest) in
      (match kind with
       | "v" -> OV toks | "vt" -> OVT toks | "vn" -> OVN toks | "f" -> OF toks
       | _ -> failwith ("line kind " ^ kind))) (String.split_on_char ';' s)

let () = run_driver (function
  | ["plyw"; np; pos; nrm; col; tex; fs] ->
    let m = { pi_np = nat np; pi_pos = att_req pos; pi_nrm = att_of nrm; pi_col = att_of col; pi_tex = att_of tex;
              pi_faces = infaces fs } in
    (match ply_write m with Some b -> hex_of_bytes b | None -> "fail")
  | ["plyr"; mesh; h] -> res_geo (ply_decode (mesh = "1") (bytes_of_hex h))
  | ["stlw"; pos; fs; nrms] ->
    let m = { si_pos = att_req pos; si_faces = faces_of (nats_of fs) } in
    (match stl_write (vals_of nrms) m with Some b -> hex_of_bytes b | None -> "fail")
  | ["stlr"; h] ->
    (match stl_read (bytes_of_hex h) with
     | Ok (Some g) -> "ok " ^ str_geo g
     | Ok None -> "null"
     | Reject -> "reject"
     | Oob -> "oob"
     | Unmod -> "short")
  | ["objw"; np; pos; tex; nrm; fs; tbl] ->
    (* fmt: the implementation's own number tokens, keyed by the float's 4 bytes *)
    let t = Hashtbl.create 64 in
    List.iter (fun e -> match String.index_opt e '=' with
      | Some i -> Hashtbl.replace t (String.sub e 0 i) (String.sub e (i + 1) (String.length e - i - 1))
      | None -> failwith ("fmt entry " ^ e)) (csv tbl);
    let fmt (b : z list) : z list =
      match Hashtbl.find_opt t (hex_of_bytes b) with
      | Some tok -> bytes_of_string tok
      | None -> bytes_of_string "<no-token>" in
    let m = { oi_np = nat np; oi_pos = att_req pos; oi_tex = att_of tex; oi_nrm = att_of nrm; oi_faces = infaces fs } in
    (match obj_write fmt m with Some ls -> hex_of_bytes (render_obj ls) | None -> "fail")
  | ["objr"; mesh; ls; tbl] ->
    let t = Hashtbl.create 64 in
    List.iter (fun e -> match String.rindex_opt e '=' with
      | Some i -> Hashtbl.replace t (String.sub e 0 i) (String.sub e (i + 1) (String.length e - i - 1))
      | None -> failwith ("parse entry " ^ e)) (csv tbl);
    let parse (tok : z list) : z list option =
      let s = String.init (List.length tok) (fun i -> Char.chr (int_of_z (List.nth tok i))) in
      match Hashtbl.find_opt t s with
      | Some "F" -> None
      | Some h -> Some (bytes_of_hex h)
      | None -> failwith ("no parse entry for token " ^ s) in
    res_geo (obj_decode parse (mesh = "1") (lines_of ls))
  | k :: _ -> "UNKNOWN-KIND " ^ k
  | [] -> "EMPTY")
