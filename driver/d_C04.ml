(* Driver for C04 / C12: runs the extracted model of Model/Quantize.v on the harness' cases. *)
open M
open Zutil
let z = z_of_string
let zs = string_of_z
let fb s = f32_of_bits (z s)
let ilist s = if s = "-" then [] else List.map z (String.split_on_char ',' s)
let flist s = List.map f32_of_bits (ilist s)
let join l = if l = [] then "-" else String.concat "," (List.map zs l)
let rec chunk n l =
  if l = [] then [] else begin
    let rec take k l acc = if k = 0 then (List.rev acc, l) else
      match l with [] -> (List.rev acc, []) | x :: t -> take (k - 1) t (x :: acc) in
    let (a, b) = take n l [] in a :: chunk n b
  end
let qp_str p = Printf.sprintf "%s %s %s" (zs (qp_bits p)) (join (List.map bits_of_f32 (qp_min p))) (zs (bits_of_f32 (qp_range p)))
let mkp q mins range = { qp_bits = z q; qp_min = flist mins; qp_range = fb range }
let sorted_rows (rows : z list list) : string =
  let ir = List.map (List.map int_of_z) rows in
  let s = List.sort_uniq compare ir in
  if s = [] then "-" else String.concat "," (List.map string_of_int (List.concat s))
let () = run_driver (function
  | ["qf"; range; maxq; v] ->
      (match quantize_float (quantizer_init (fb range) (z maxq)) (fb v) with Ok k -> zs k | Fail -> "fail" | UB -> "ub")
  | ["qfd"; delta; v] ->
      (match quantize_float (quantizer_init_delta (fb delta)) (fb v) with Ok k -> zs k | Fail -> "fail" | UB -> "ub")
  | ["df"; range; maxq; k] ->
      (match dequantizer_init (fb range) (z maxq) with
       | Ok d -> zs (obs_bits (dequantize_float d (z k))) | Fail -> "fail" | UB -> "ub")
  | ["cp"; q; nc; vals] ->
      (match compute_parameters (chunk (int_of_string nc) (flist vals)) (z q) with
       | Ok p -> "ok " ^ qp_str p | Fail -> "fail" | UB -> "ub")
  | ["tf"; mode; q; nc; mins; range; ids; vals] ->
      let n = int_of_string nc in
      let rows = chunk n (flist vals) in
      let pr = if mode = "auto" then compute_parameters rows (z q) else set_parameters (z q) (flist mins) (fb range) in
      (match pr with
       | Fail -> "fail" | UB -> "ub"
       | Ok p ->
         let wr = if ids = "-" then generate_portable p rows
                  else generate_portable_ids p rows (List.map (fun s -> nat_of_int (int_of_string s)) (String.split_on_char ',' ids)) in
         (match wr with
          | Fail -> "transform-failed" | UB -> "ub"
          | Ok words ->
            (match encode_parameters p with
             | None -> "encode-parameters-failed"
             | Some bs ->
               (match decode_parameters (nat_of_int n) (bs @ [z_of_int 0x5A]) with
                | None -> "decode-parameters-failed " ^ hex_of_bytes bs
                | Some (p2, rest) ->
                  (match inverse_transform p2 words with
                   | Ok back ->
                     Printf.sprintf "%s %s %s %d %s %s" (qp_str p) (hex_of_bytes bs) (qp_str p2) (List.length rest)
                       (join (List.concat words)) (join (List.concat (List.map obs_row back)))
                   | _ -> "inverse-failed")))))
  | ["dp"; nc; h] ->
      (match decode_parameters (nat_of_int (int_of_string nc)) (bytes_of_hex h) with
       | None -> "fail"
       | Some (p, rest) ->
         Printf.sprintf "ok %s %s %s %d" (zs (qp_bits p)) (String.concat " " (List.map (fun m -> zs (bits_of_f32 m)) (qp_min p)))
           (zs (bits_of_f32 (qp_range p))) (List.length rest))
  | ["e2e"; which; q; mins; range; nc; words] ->
      let rows = chunk (int_of_string nc) (ilist words) in
      let p = mkp q mins range in
      (match (if which = "kd" then kd_inverse_transform p rows else inverse_transform p rows) with
       | Ok back -> join (List.concat (List.map obs_row back)) | Fail -> "fail" | UB -> "ub")
  | ["e2q"; q; mins; range; nc; vals] ->
      let rows = chunk (int_of_string nc) (flist vals) in
      (match generate_portable (mkp q mins range) rows with
       | Ok words -> sorted_rows words | Fail -> "fail" | UB -> "ub")
  | ["rq"; o; r; q; x] ->   (* single value: decode(encode x), used by C12 *)
      (match requant_f (fb o) (fb r) (z q) (fb x) with Ok v -> zs (obs_bits v) | Fail -> "fail" | UB -> "ub")
  | k :: _ -> "UNKNOWN-KIND " ^ k
  | [] -> "EMPTY")
