(* C16 driver: recomputes every case of harness/h_C16.cc with the extracted model
   (coq/Model/Wrap.v, coq/Model/Octahedron.v). *)
open M
open Zutil
let z = z_of_string
let s = string_of_z
let b2s b = if b then "1" else "0"
let pt2s (a, b) = s a ^ " " ^ s b

(* tool box state per q, via the model's SetQuantizationBits *)
let boxes : (string, obox option) Hashtbl.t = Hashtbl.create 64
let box q = match Hashtbl.find_opt boxes q with
  | Some b -> b
  | None -> let b = set_quantization_bits (z q) in Hashtbl.add boxes q b; b
let with_box q f = match box q with None -> "NO-BOX" | Some b -> f b
let box2s b = Printf.sprintf "ok %s %s %s %s" (s b.ob_q) (s b.ob_mqv) (s b.ob_maxv) (s b.ob_center)
let box3s b = Printf.sprintf "ok %s %s %s" (s b.ob_q) (s b.ob_mqv) (s b.ob_center)
let bounds2s = function
  | None -> "fail"
  | Some b -> Printf.sprintf "ok %s %s %s" (s b.wb_max_dif) (s b.wb_min_corr) (s b.wb_max_corr)
let with_bounds mn mx f = match wrap_init (z mn) (z mx) with None -> "NO-BOUNDS" | Some b -> f b

let () = run_driver (function
  (* ---- wrap ---- *)
  | ["weinit"; mn; mx] -> bounds2s (wrap_init (z mn) (z mx))
  | ["wdinit"; mn; mx] -> bounds2s (wrap_dec_init (z mn) (z mx))
  | ["wclamp"; mn; mx; p] -> with_bounds mn mx (fun b -> s (wrap_clamp b (z p)))
  | ["wenc"; mn; mx; o; p] -> with_bounds mn mx (fun b ->
      if wrap_enc_no_ub b (z o) (z p) then s (wrap_enc b (z o) (z p)) else "UB-IN-MODEL")
  | ["wdec"; mn; mx; p; c] -> with_bounds mn mx (fun b -> s (wrap_dec b (z p) (z c)))
  | ["wrt"; mn; mx; o; p] -> with_bounds mn mx (fun b ->
      if wrap_enc_no_ub b (z o) (z p) then
        let c = wrap_enc b (z o) (z p) in s c ^ " " ^ s (wrap_dec b (z p) c)
      else "UB-IN-MODEL")
  (* ---- tool box ---- *)
  | ["sqb"; q] -> (match set_quantization_bits (z q) with None -> "fail" | Some b -> box2s b)
  | ["smq"; m] -> (match oct_canon_dec_init (z m) with None -> "fail" | Some b -> box3s b)
  | ["smqn"; m] -> (match set_max_quantized_value (z m) with None -> "fail" | Some b -> box3s b)
  | ["isd"; q; a; b] -> with_box q (fun bx -> b2s (is_in_diamond bx (z a) (z b)))
  | ["invd"; q; a; b] -> with_box q (fun bx -> pt2s (invert_diamond bx (z a, z b)))
  | ["modmax"; q; x] -> with_box q (fun bx -> s (mod_max bx (z x)))
  | ["mkpos"; q; x] -> with_box q (fun bx -> s (make_positive bx (z x)))
  | ["canon"; q; a; b] -> with_box q (fun bx ->
      if all_in_i32 (canonicalize_trace bx (z a, z b)) then pt2s (canonicalize bx (z a, z b)) else "UB-IN-MODEL")
  | ["rotc"; a; b] -> s (rotation_count (z a, z b))
  | ["rotp"; a; b; k] -> pt2s (rotate_point (z a, z b) (z k))
  | ["isbl"; a; b] -> b2s (is_in_bottom_left (z a, z b))
  (* ---- canonicalized transform ---- *)
  | ["oce"; q; os; ot; ps; pt] -> with_box q (fun bx ->
      let o = (z os, z ot) and p = (z ps, z pt) in
      if oct_canon_enc_no_ub bx o p then pt2s (oct_canon_enc bx o p) else "UB-IN-MODEL")
  | ["ocd"; q; ps; pt; cs; ct] -> with_box q (fun bx ->
      let p = (z ps, z pt) and c = (z cs, z ct) in
      if oct_canon_dec_no_ub bx p c then pt2s (oct_canon_dec bx p c) else "UB-IN-MODEL")
  | ["ocr"; q; os; ot; ps; pt] -> with_box q (fun bx ->
      let o = (z os, z ot) and p = (z ps, z pt) in
      if oct_canon_enc_no_ub bx o p then begin
        let c = oct_canon_enc bx o p in
        if oct_canon_dec_no_ub bx p c then pt2s c ^ " " ^ pt2s (oct_canon_dec bx p c) else "UB-IN-MODEL"
      end else "UB-IN-MODEL")
  (* ---- non-canonicalized transform ---- *)
  | ["one"; q; os; ot; ps; pt] -> with_box q (fun bx -> pt2s (oct_enc bx (z os, z ot) (z ps, z pt)))
  | ["ond"; q; ps; pt; cs; ct] -> with_box q (fun bx -> pt2s (oct_dec bx (z ps, z pt) (z cs, z ct)))
  | ["onr"; q; os; ot; ps; pt] -> with_box q (fun bx ->
      let o = (z os, z ot) and p = (z ps, z pt) in
      let c = oct_enc bx o p in pt2s c ^ " " ^ pt2s (oct_dec bx p c))
  | k :: _ -> "UNKNOWN-KIND " ^ k
  | [] -> "EMPTY")
