(* C11 driver: metadata trees as text.
     node  := '{' [entry {',' entry}] ';' [sub {',' sub}] '}'
     entry := hexname '=' hexvalue          ("-" = empty byte string)
     sub   := hexname ':' node
     geom  := '<' [att {',' att}] '>' node
     att   := decimal-unique-id ':' node
   Trees arrive in the order the C++ containers iterate (std::map order); the driver checks that
   this is the order the model calls sorted (NOT-SORTED otherwise) and feeds them to the model
   unchanged. *)
open M
open Zutil

exception Parse of string
let parse_geom (s : string) : gmeta =
  let n = String.length s in
  let pos = ref 0 in
  let peek () = if !pos < n then s.[!pos] else '\000' in
  let eat c = if peek () = c then incr pos else raise (Parse (Printf.sprintf "expected %c at %d" c !pos)) in
  let hexstr () =
    let st = !pos in
    if peek () = '-' then (incr pos; [])
    else begin
      while (match peek () with '0'..'9' | 'a'..'f' -> true | _ -> false) do incr pos done;
      bytes_of_hex (String.sub s st (!pos - st))
    end in
  let rec node () =
    eat '{';
    let es = ref [] in
    if peek () <> ';' then begin
      let go = ref true in
      while !go do
        let k = hexstr () in eat '='; let v = hexstr () in
        es := (k, v) :: !es;
        if peek () = ',' then incr pos else go := false
      done
    end;
    eat ';';
    let ss = ref [] in
    if peek () <> '}' then begin
      let go = ref true in
      while !go do
        let k = hexstr () in eat ':'; let c = node () in
        ss := (k, c) :: !ss;
        if peek () = ',' then incr pos else go := false
      done
    end;
    eat '}';
    Node (List.rev !es, List.rev !ss) in
  eat '<';
  let atts = ref [] in
  if peek () <> '>' then begin
    let go = ref true in
    while !go do
      let st = !pos in
      while (match peek () with '0'..'9' -> true | _ -> false) do incr pos done;
      let id = z_of_string (String.sub s st (!pos - st)) in
      eat ':'; let c = node () in
      atts := (id, c) :: !atts;
      if peek () = ',' then incr pos else go := false
    done
  end;
  eat '>';
  let root = node () in
  if !pos <> n then raise (Parse "trailing text");
  { gm_atts = List.rev !atts; gm_root = root }

let print_geom (g : gmeta) : string =
  let b = Buffer.create 256 in
  let rec node (Node (es, ss)) =
    Buffer.add_char b '{';
    List.iteri (fun i (k, v) -> if i > 0 then Buffer.add_char b ',';
      Buffer.add_string b (hex_of_bytes k); Buffer.add_char b '='; Buffer.add_string b (hex_of_bytes v)) es;
    Buffer.add_char b ';';
    List.iteri (fun i (k, c) -> if i > 0 then Buffer.add_char b ',';
      Buffer.add_string b (hex_of_bytes k); Buffer.add_char b ':'; node c) ss;
    Buffer.add_char b '}' in
  Buffer.add_char b '<';
  List.iteri (fun i (id, c) -> if i > 0 then Buffer.add_char b ',';
    Buffer.add_string b (string_of_z id); Buffer.add_char b ':'; node c) g.gm_atts;
  Buffer.add_char b '>';
  node g.gm_root;
  Buffer.contents b

let sorted_geom g = List.for_all (fun (_, t) -> node_sorted t) g.gm_atts && node_sorted g.gm_root

let enc_result = function None -> "fail" | Some bs -> hex_of_bytes bs
let show_dec = function
  | Ok (g, rest) -> Printf.sprintf "ok %s %d" (print_geom g) (List.length rest)
  | Fail -> "fail"
  | OutOfFuel -> "MODEL-OUT-OF-FUEL"
let lift_node = function
  | Ok (t, rest) -> Ok ({ gm_atts = []; gm_root = t }, rest) | Fail -> Fail | OutOfFuel -> OutOfFuel
(* both decoder models run on every case; they must agree *)
let both a b = let sa = show_dec a in let sb = show_dec b in
  if sa = sb then sa else "MODELS-DISAGREE stack=[" ^ sa ^ "] rec=[" ^ sb ^ "]"

let () = run_driver (function
  | ["menc"; t] -> let g = parse_geom t in
      if not (sorted_geom g) then "NOT-SORTED" else enc_result (enc_geometry g)
  | ["nenc"; t] -> let g = parse_geom t in
      if not (sorted_geom g) then "NOT-SORTED" else enc_result (enc_node g.gm_root)
  | ["mdec"; h] -> let bs = bytes_of_hex h in both (dec_geometry_stack bs) (dec_geometry_rec bs)
  | ["ndec"; h] -> let bs = bytes_of_hex h in both (lift_node (dec_node_stack bs)) (lift_node (dec_node_rec bs))
  | k :: _ -> "UNKNOWN-KIND " ^ k
  | [] -> "EMPTY")
