open M
open Zutil
let z = z_of_string
let nat s = nat_of_int (int_of_string s)
let split c s = if s = "-" then [] else String.split_on_char c s
let zs s = List.map z (split ',' s)
let bits_of s = if s = "-" || s = "e" then [] else List.init (String.length s) (fun i -> s.[i] = '1')
let text_of_bits bs = if bs = [] then "-" else String.concat "" (List.map (fun b -> if b then "1" else "0") bs)
(* seams: "-" = no attribute data; otherwise one item per attribute data separated by ';', "e" = no bit *)
let seams_of s = if s = "-" then [] else List.map bits_of (String.split_on_char ';' s)
let text_of_seams l =
  if l = [] then "-" else String.concat ";" (List.map (fun b -> if b = [] then "e" else text_of_bits b) l)
let zlist_text l = if l = [] then "-" else String.concat "," (List.map string_of_z l)
let events_of s =
  List.map (fun e -> match String.split_on_char ':' e with
    | [a; b; c] -> ((z a, z b), z c) | _ -> failwith "event") (split ',' s)
let text_of_events evs =
  if evs = [] then "-" else
  String.concat "," (List.map (fun ((a, b), c) -> string_of_z a ^ ":" ^ string_of_z b ^ ":" ^ string_of_z c) evs)
let pairs_of s =
  List.map (fun e -> match String.split_on_char ':' e with
    | [a; b] -> (z a, z b) | _ -> failwith "pair") (split ',' s)
let enc_result = function None -> "fail" | Some bs -> hex_of_bytes bs
let hdr m nv nf na ns np =
  { ch_method = z_of_int m; ch_nv = z nv; ch_nf = z nf; ch_nattr = z na; ch_nsym = z ns; ch_nsplit = z np }
let rec repeat_nat k n = if k <= 0 then [] else n :: repeat_nat (k - 1) n
let hdr_text h =
  Printf.sprintf "m=%s nv=%s nf=%s na=%s mv=%s" (string_of_z h.ch_method) (string_of_z h.ch_nv) (string_of_z h.ch_nf)
    (string_of_z h.ch_nattr) (string_of_z (conn_max_vertices h.ch_nv h.ch_nsplit))
let lists_text ls = String.concat ";" (List.map (fun l -> if l = [] then "e" else zlist_text l) ls)
(* steps: vc.vn.vp  or  vc.vn.vp.dest.source *)
let step_of s = match String.split_on_char '.' s with
  | [a; b; c] -> { vs_merge = None; vs_c = z a; vs_n = z b; vs_p = z c }
  | [a; b; c; d; e] -> { vs_merge = Some (z d, z e); vs_c = z a; vs_n = z b; vs_p = z c }
  | _ -> failwith "step"
let minus1 = z "-1"

let () = run_driver (function
  | ["enc_std"; mf; nv; nf; na; ns; np; syms; evs; start; seams] ->
    (match enc_trav_std (z mf) (zs syms) (bits_of start) (seams_of seams) with
     | None -> "fail-trav"
     | Some trav -> enc_result (enc_conn (hdr 0 nv nf na ns np) (events_of evs) trav))
  | ["enc_val"; nv; nf; na; ns; np; methods; pairs; evs; start; seams] ->
    (match enc_trav_val (zs methods) (pairs_of pairs) (bits_of start) (seams_of seams) with
     | None -> "fail-trav"
     | Some trav -> enc_result (enc_conn (hdr 2 nv nf na ns np) (events_of evs) trav))
  | ["dec"; ns; nb; nseam; h] ->
    (match dec_conn (bytes_of_hex h) with
     | VReject -> "rej"
     | VIgnoredFailure -> "ign"
     | VOk (((h, evs), TStd d), rest) ->
       let na = int_of_z h.ch_nattr in
       let ((sy, sb), se) = drain_std (nat ns) (nat nb) (repeat_nat na (nat nseam)) d in
       Printf.sprintf "ok %s ev=%s sy=%s sb=%s se=%s rest=%d" (hdr_text h) (text_of_events evs) (zlist_text sy)
         (text_of_bits sb) (text_of_seams se) (List.length rest)
     | VOk (((h, evs), TVal d), rest) ->
       let na = int_of_z h.ch_nattr in
       let sb = fst (read_n ransbit_next (nat nb) d.vd_start) in
       let se = read_seams (repeat_nat na (nat nseam)) d.vd_seams in
       Printf.sprintf "ok %s ev=%s sb=%s se=%s ctx=%s rest=%d" (hdr_text h) (text_of_events evs)
         (text_of_bits sb) (text_of_seams se) (lists_text d.vd_lists) (List.length rest))
  | ["vrun"; steps; h] ->
    (match dec_conn (bytes_of_hex h) with
     | VOk (((h, _), TVal d), _) ->
       let mv = int_of_z (conn_max_vertices h.ch_nv h.ch_nsplit) in
       let vals = List.init mv (fun _ -> ds_zero) in
       let stl = List.map step_of (split ',' steps) in
       let ((sy, cx), cf) =
         vd_run val_env_step (nat_of_int (List.length stl)) (vals, stl) minus1 minus1 d.vd_lists d.vd_counters in
       Printf.sprintf "sy=%s cx=%s left=%s" (zlist_text sy) (zlist_text cx) (zlist_text cf)
     | VOk _ -> "not-valence"
     | VReject -> "rej"
     | VIgnoredFailure -> "ign")
  | k :: _ -> "UNKNOWN-KIND " ^ k
  | [] -> "EMPTY")
