(* C09 driver: parses the fans the harness read off the library's tables and prints what the Coq model
   (Model/Fans.v) computes.  Text formats are documented at the top of harness/h_C09.cc. *)
open M
open Zutil
let z = z_of_string
let split c s = String.split_on_char c s
let zlist s = if s = "-" then [] else List.map z (split ',' s)
let bits s = if s = "-" then [] else List.init (String.length s) (fun i -> s.[i] = '1')
let bit b = if b then "1" else "0"
let csv l = if l = [] then "-" else String.concat "," (List.map string_of_z l)

(* transpose: per-attribute id lists -> per-corner id lists *)
let corner_atts (atts : z list list) (k : int) : z list = List.map (fun ids -> List.nth ids k) atts

let parse_fan (s : string) : vfan option =
  if s = "x" then None else
  match split '/' s with
  | oc :: pids :: flags :: atts ->
    let pids = zlist pids in
    let atts = List.map zlist atts in
    let corners = List.mapi (fun k p -> { c_pid = p; c_att = corner_atts atts k }) pids in
    (match corners with
     | first :: rest -> Some { v_open = (oc = "o"); v_first = first; v_rest = rest; v_onseam = bits flags }
     | [] -> failwith "fan without corners")
  | _ -> failwith ("bad fan " ^ s)

let parse_verts s = if s = "-" then [] else List.map parse_fan (split ';' s)

let parse_afan (s : string) : afan option =
  if s = "x" then None else
  match split '/' s with
  | [oc; es] -> Some { a_open = (oc = "o"); a_edges = bits es }
  | _ -> failwith ("bad afan " ^ s)

let parse_face s = match split ',' s with
  | [a; b; c] -> ((z a, z b), z c)
  | _ -> failwith ("bad face " ^ s)

let pair (a, b) = string_of_z a ^ " " ^ string_of_z b

let () = run_driver (function
  | ["eb"; multi; used; verts] ->
    let m = { m_multi = (multi = "1"); m_used = bits used; m_verts = parse_verts verts } in
    Printf.sprintf "%s %s ok" (string_of_z (enc_count m)) (string_of_z (dec_points m))
  | ["rv"; verts] ->
    let vs = if verts = "-" then [] else List.map parse_afan (split ';' verts) in
    (match recompute_table vs Z0 with
     | None -> "fail"
     | Some (t, n) ->
       let one = function None -> "x" | Some (flag, ids) -> bit flag ^ "/" ^ csv ids in
       Printf.sprintf "%s %s %s" (string_of_z n) (bit (no_interior_seams vs))
         (if t = [] then "-" else String.concat ";" (List.map one t)))
  | ["fc"; faces] ->
    let fs = if faces = "-" then [] else List.map parse_face (split ';' faces) in
    Printf.sprintf "%s %s ok" (string_of_z (eb_reported_faces fs)) (string_of_z (eb_decoded_faces (eb_written_faces fs)))
  | ["seq"; np; nf] ->
    pair (seq_mesh_reported (z np) (z nf)) ^ " " ^ pair (seq_mesh_decoded (seq_mesh_header (z np) (z nf)))
  | ["pc"; np] -> pair (pc_reported (z np)) ^ " " ^ pair (pc_decoded (pc_header (z np)))
  | ["api"; track; p; f] -> pair (api_reported (track = "1") (z p, z f))
  | k :: _ -> "UNKNOWN-KIND " ^ k
  | [] -> "EMPTY")
