(* EB driver:  "core <maxv> <nf> <rm> <syms> <events> <bits>"  /  "full <nev> <nf> <nsplit> <syms> <events> <bits>"
   -> the model's result, printed like harness/h_eb.cc prints the implementation's:
   rej | acc n=<returned> nv=<table vertices> c2v=.. opp=.. vc=.. hole=.. init=..   (MODEL-OOB / MODEL-FUEL never expected) *)
open M
open Zutil
let z = z_of_string
let ints s = if s = "-" then [] else List.map z (String.split_on_char ',' s)
let evs s = if s = "-" then [] else
  List.map (fun e -> match String.split_on_char ':' e with
    | [a; b; c] -> ((z a, z b), z c) | _ -> failwith "event") (String.split_on_char ',' s)
let bits s = if s = "-" then [] else List.init (String.length s) (fun i -> s.[i] = '1')
let join f l = if l = [] then "-" else String.concat "," (List.map f l)
let show nc maxv = function
  | Ok (n, s) ->
    let tab f k = tabulate f (z_of_int 0) (nat_of_int k) in
    let h = String.concat "" (List.map (fun b -> if b then "1" else "0") (tab s.hole maxv)) in
    Printf.sprintf "acc n=%s nv=%s c2v=%s opp=%s vc=%s hole=%s init=%s"
      (string_of_z n) (string_of_z s.nv) (join string_of_z (tab s.c2v nc)) (join string_of_z (tab s.copp nc))
      (join string_of_z (tab s.vc (int_of_z s.nv))) (if h = "" then "-" else h)
      (join (fun (b, c) -> (if b then "1:" else "0:") ^ string_of_z c) (List.rev s.inits))
  | Reject -> "rej"
  | OOB -> "MODEL-OOB"
  | Fuel -> "MODEL-FUEL"
let () = run_driver (function
  | ["core"; maxv; nf; rm; sy; ev; bi] ->
    let nc = 3 * int_of_string nf in
    show nc (int_of_string maxv)
      (eb_core (z_of_int nc) (z maxv) (z nf) (rm = "1") (ints sy) (evs ev) (bits_of_list (bits bi)))
  | ["full"; nev; nf; nsplit; sy; ev; bi] ->
    let nc = 3 * int_of_string nf in
    show nc (int_of_string nev + int_of_string nsplit)
      (eb_full (z nev) (z nf) (z nsplit) true (ints sy) (evs ev) (bits_of_list (bits bi)))
  | ["fulla"; nev; nf; nsplit; sy; ev; bi] ->
    (* attribute connectivity data present: remove_invalid_vertices = false; np / seams are implementation-only statistics *)
    let nc = 3 * int_of_string nf in
    show nc (int_of_string nev + int_of_string nsplit)
      (eb_full (z nev) (z nf) (z nsplit) false (ints sy) (evs ev) (bits_of_list (bits bi)))
  | ["apc"; nc; maxv; opp; vc; hole; atts] ->
    (* AssignPointsToCorners, deduplication path: corner table + attribute corner tables -> num_points, faces *)
    let arr l = Array.of_list l in
    let fn a d = fun (i : z) -> let k = int_of_z i in if k >= 0 && k < Array.length a then a.(k) else d in
    let oppa = arr (ints opp) and vca = arr (ints vc) in
    let holea = arr (bits hole) in
    let m1 = z_of_int (-1) in
    let s0 = init_st [] in
    let s = { s0 with copp = fn oppa m1; vc = fn vca m1; nv = z_of_int (Array.length vca); hole = fn holea true } in
    let parse_att a = match String.split_on_char '/' a with
      | [sb; av] -> let sa = arr (bits sb) and va = arr (ints av) in (fn sa false, fn va m1)
      | _ -> failwith "att" in
    let al = List.map parse_att (String.split_on_char ';' atts) in
    (match assign_points_seam (z nc) (z maxv) s al with
     | Ok (np, fl) -> Printf.sprintf "np=%s faces=%s" (string_of_z np) (join string_of_z fl)
     | Reject -> "rej" | OOB -> "MODEL-OOB" | Fuel -> "MODEL-FUEL")
  | k :: _ -> "UNKNOWN-KIND " ^ k
  | [] -> "EMPTY")
