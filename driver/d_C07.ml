(* Driver for C07: runs the extracted model of Model/Normals.v (+ Model/Octahedron.v) on the harness' cases. *)
open M
open Zutil
let z = z_of_string
let zs = string_of_z
let ilist s = if s = "-" then [] else List.map z (String.split_on_char ',' s)
let join l = if l = [] then "-" else String.concat "," (List.map zs l)
let rec triples = function
  | a :: b :: c :: t -> vec3_of_bits a b c :: triples t
  | _ -> []
let rec pairs = function
  | a :: b :: t -> (a, b) :: pairs t
  | _ -> []
let boxes : (string, obox option) Hashtbl.t = Hashtbl.create 64
let box q = match Hashtbl.find_opt boxes q with
  | Some b -> b
  | None -> let b = set_quantization_bits (z q) in Hashtbl.add boxes q b; b
let with_box q f = match box q with None -> "NO-BOX" | Some b -> f b
let sorted_pairs (ps : (z * z) list) : string =
  let ir = List.map (fun (a, b) -> (int_of_z a, int_of_z b)) ps in
  let s = List.sort_uniq compare ir in
  if s = [] then "-" else String.concat "," (List.map (fun (a, b) -> string_of_int a ^ "," ^ string_of_int b) s)
let flat_pts ps = List.concat (List.map (fun (a, b) -> [a; b]) ps)
let () = run_driver (function
  | ["fv"; q; b0; b1; b2] ->
      (match normal_to_oct_bits (z q) (z b0) (z b1) (z b2) with
       | Ok (s, t) -> zs s ^ " " ^ zs t | Fail -> "fail" | UB -> "ub")
  | ["fi"; q; b0; b1; b2] ->     (* the integer vector handed to IntegerVectorToQuantizedOctahedralCoords *)
      with_box q (fun b -> match float_vector_to_int_vec b (vec3_of_bits (z b0) (z b1) (z b2)) with
       | Ok ((i0, i1), i2) -> Printf.sprintf "%s %s %s" (zs i0) (zs i1) (zs i2) | Fail -> "fail" | UB -> "ub")
  | ["uv"; q; s; t] ->
      (match oct_to_normal_bits (z q) (z s) (z t) with
       | Ok l -> String.concat " " (List.map zs l) | Fail -> "fail" | UB -> "ub")
  | ["iv"; q; i0; i1; i2] ->
      with_box q (fun b -> let (s, t) = int_vec_to_oct b ((z i0, z i1), z i2) in zs s ^ " " ^ zs t)
  | ["civ"; q; v0; v1; v2] ->
      with_box q (fun b -> let ((a, c), d) = canonicalize_int_vector b ((z v0, z v1), z v2) in
        Printf.sprintf "%s %s %s" (zs a) (zs c) (zs d))
  | ["tf"; q; ids; vals] ->
      let rows = triples (ilist vals) in
      let rows = if ids = "-" then rows else List.map (fun i -> List.nth rows (int_of_string i)) (String.split_on_char ',' ids) in
      (match oct_encode_parameters (z q) with
       | None -> "encode-parameters-failed"
       | Some bs ->
         (match oct_decode_parameters (bs @ [z_of_int 0x5A]) with
          | None -> "decode-parameters-failed"
          | Some (q2, rest) ->
            (match oct_generate_portable (z q) rows with
             | Fail -> "transform-failed " ^ hex_of_bytes bs ^ " " ^ zs q2 | UB -> "ub"
             | Ok pts ->
               (match oct_inverse_transform q2 pts with
                | Ok back -> Printf.sprintf "%s %s %d %s %s" (hex_of_bytes bs) (zs q2) (List.length rest)
                               (join (flat_pts pts)) (join (List.concat (List.map obs_vec3 back)))
                | _ -> "inverse-failed " ^ hex_of_bytes bs ^ " " ^ zs q2))))
  | ["dp"; h] ->
      (match oct_decode_parameters (bytes_of_hex h) with
       | None -> "fail"
       | Some (q, rest) -> Printf.sprintf "ok %s %d" (zs q) (List.length rest))
  | ["it"; q; words] ->          (* InverseTransformAttribute with arbitrary q and arbitrary (s,t) *)
      (match oct_inverse_transform (z q) (pairs (ilist words)) with
       | Ok back -> join (List.concat (List.map obs_vec3 back)) | Fail -> "fail" | UB -> "ub")
  | ["e2d"; q; words] ->         (* the real decoder's InverseTransform of the integers it decoded *)
      (match oct_inverse_transform (z q) (pairs (ilist words)) with
       | Ok back -> join (List.concat (List.map obs_vec3 back)) | Fail -> "fail" | UB -> "ub")
  | ["e2q"; q; vals] ->          (* set of (s,t) of the original normals *)
      (match oct_generate_portable (z q) (triples (ilist vals)) with
       | Ok pts -> sorted_pairs pts | Fail -> "fail" | UB -> "ub")
  | k :: _ -> "UNKNOWN-KIND " ^ k
  | [] -> "EMPTY")
