open M
open Zutil
let z = z_of_string
let nat s = nat_of_int (int_of_string s)
let dec_result = function
  | None -> "fail"
  | Some (v, rest) -> Printf.sprintf "ok %s %d" (string_of_z v) (List.length rest)
let enc_result = function None -> "fail" | Some bs -> hex_of_bytes bs
let split c s = if s = "-" then [] else String.split_on_char c s

(* items:  B:<hex>  |  K:<req>:<ws>:<n>/<v>,...   separated by ';' *)
let parse_item s =
  match String.split_on_char ':' s with
  | ["B"; h] -> IBytes (bytes_of_hex h)
  | ["K"; req; ws; puts] ->
    let ps = List.map (fun p -> match String.split_on_char '/' p with
      | [n; v] -> (z n, z v) | _ -> failwith "put") (split ',' puts) in
    IBlock (z req, ws = "1", ps)
  | _ -> failwith ("item " ^ s)
let parse_shape s =
  match String.split_on_char ':' s with
  | ["B"; n] -> SBytes (nat n)
  | ["K"; ws; ns] -> SBlock (ws = "1", List.map z (split ',' ns))
  | _ -> failwith ("shape " ^ s)
let got_text = function
  | GBytes bs -> "B:" ^ hex_of_bytes bs
  | GBlock (sz, vals) ->
    "K:" ^ (match sz with Some s -> string_of_z s | None -> "n") ^ ":" ^
    (if vals = [] then "-" else String.concat "," (List.map string_of_z vals))

(* ops: b0 b1 l<n>/<v> separated by ',' *)
let parse_op s =
  if s = "b0" then OBit false else if s = "b1" then OBit true
  else match String.split_on_char '/' (String.sub s 1 (String.length s - 1)) with
    | [n; v] -> OLsb (nat n, z v) | _ -> failwith ("op " ^ s)
let parse_rop s = if s = "b" then RBit else RLsb (nat (String.sub s 1 (String.length s - 1)))
let vals_text vs = if vs = [] then "-" else String.concat "," (List.map string_of_z vs)
let bits_text bs = String.concat "" (List.map (fun b -> if b then "1" else "0") bs)

(* generic: start, then values for rops, then `extra` single bits *)
let dec_generic start next rops extra bs =
  match start bs with
  | None -> "fail"
  | Some (st, rest) ->
    let (vals, st1) = read_ops next rops st in
    let (xb, _) = read_n next (nat_of_int extra) st1 in
    Printf.sprintf "ok %s x%s %d" (vals_text vals) (bits_text xb) (List.length rest)

let pclamp = clamp_probability
let pupd = update_probability

let () = run_driver (function
  | ["vu"; _w; v] -> enc_result (enc_varint_u (z v))
  | ["vs"; w; v] -> enc_result (enc_varint_s (z w) (z v))
  | ["dvu"; w; h] -> dec_result (dec_varint_u (z w) (bytes_of_hex h))
  | ["dvs"; w; h] -> dec_result (dec_varint_s (z w) (bytes_of_hex h))
  | ["le"; n; v] -> hex_of_bytes (enc_le (nat n) (z v))
  | ["dle"; n; h] -> dec_result (dec_le (nat n) (bytes_of_hex h))
  | ["bs"; its] -> enc_result (enc_items (List.map parse_item (split ';' its)))
  | ["dbs"; ver; shp; h] ->
    (match dec_items (z ver) (List.map parse_shape (split ';' shp)) (bytes_of_hex h) with
     | None -> "fail"
     | Some (gots, rest) ->
       Printf.sprintf "ok %s %d" (if gots = [] then "-" else String.concat ";" (List.map got_text gots)) (List.length rest))
  | ["ransbit"; ops] -> enc_result (ransbit_encode (flatten (List.map parse_op (split ',' ops))))
  | ["dransbit"; ver; rops; extra; h] ->
    dec_generic (ransbit_start (z ver)) ransbit_next (List.map parse_rop (split ',' rops)) (int_of_string extra) (bytes_of_hex h)
  | ["adaptive"; ops] -> enc_result (adaptive_encode pclamp pupd d_half (flatten (List.map parse_op (split ',' ops))))
  | ["dadaptive"; _ver; rops; extra; h] ->
    dec_generic (adaptive_start d_half) (adaptive_next pclamp pupd) (List.map parse_rop (split ',' rops)) (int_of_string extra) (bytes_of_hex h)
  | ["direct"; ops] -> enc_result (direct_encode (flatten (List.map parse_op (split ',' ops))))
  | ["ddirect"; _ver; rops; extra; h] ->
    (match direct_start (bytes_of_hex h) with
     | None -> "fail"
     | Some (st, rest) ->
       (* DecodeLeastSignificantBits32 may fail: the harness then prints F and stops reading values *)
       let rec go rops st acc =
         match rops with
         | [] -> (List.rev acc, st)
         | RBit :: r -> let (b, st1) = direct_next st in go r st1 ((if b then "1" else "0") :: acc)
         | RLsb n :: r ->
           (match direct_lsb n st with
            | None -> (List.rev ("F" :: acc), st)
            | Some (v, st1) -> go r st1 (string_of_z v :: acc)) in
       let rops = List.map parse_rop (split ',' rops) in
       let (vals, st1) = go rops st [] in
       let (xb, _) = read_n direct_next (nat_of_int (int_of_string extra)) st1 in
       Printf.sprintf "ok %s x%s %d" (if vals = [] then "-" else String.concat "," vals) (bits_text xb) (List.length rest))
  | ["folded"; ops] -> enc_result (folded_encode ransbit_encode (List.map parse_op (split ',' ops)))
  | ["dfolded"; ver; rops; extra; h] ->
    (match folded_start (ransbit_start (z ver)) (bytes_of_hex h) with
     | None -> "fail"
     | Some (sts, rest) ->
       (match folded_read ransbit_next (List.map parse_rop (split ',' rops)) sts with
        | None -> "MODEL-INTERNAL"
        | Some (vals, sts1) ->
          let rec xs k sts acc = if k = 0 then List.rev acc else
            (match folded_bit ransbit_next (nat_of_int 32) sts with
             | Some (b, s2) -> xs (k - 1) s2 (b :: acc) | None -> List.rev acc) in
          Printf.sprintf "ok %s x%s %d" (vals_text vals) (bits_text (xs (int_of_string extra) sts1 [])) (List.length rest)))
  | k :: _ -> "UNKNOWN-KIND " ^ k
  | [] -> "EMPTY")
