open M
open Zutil
let z = z_of_string
let dec_result = function
  | None -> "fail"
  | Some (v, rest) -> Printf.sprintf "ok %s %d" (string_of_z v) (List.length rest)
let enc_result = function None -> "fail" | Some bs -> hex_of_bytes bs
let () = run_driver (function
  | ["vu"; _w; v] -> enc_result (enc_varint_u (z v))
  | ["vs"; w; v] -> enc_result (enc_varint_s (z w) (z v))
  | ["dvu"; w; h] -> dec_result (dec_varint_u (z w) (bytes_of_hex h))
  | ["dvs"; w; h] -> dec_result (dec_varint_s (z w) (bytes_of_hex h))
  | ["le"; n; v] -> hex_of_bytes (enc_le (nat_of_int (int_of_string n)) (z v))
  | ["dle"; n; h] -> dec_result (dec_le (nat_of_int (int_of_string n)) (bytes_of_hex h))
  | k :: _ -> "UNKNOWN-KIND " ^ k
  | [] -> "EMPTY")
