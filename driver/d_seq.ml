open M
open Zutil
let z = z_of_string
let split c s = if s = "-" then [] else String.split_on_char c s
let rec chunks n l = if l = [] then [] else
  let rec take k l acc = if k = 0 then (List.rev acc, l) else match l with [] -> (List.rev acc, []) | x :: r -> take (k - 1) r (x :: acc) in
  let (a, b) = take n l [] in a :: chunks n b

(* attribute spec: type.dt.nc.norm.uid.kind.rowshex ; kind = G | I/pred/builtin/level | Q/q/pred/builtin/level/explicit | N/q/pred/builtin/level *)
type aspec = { desc : att_desc; kindtxt : string list; rows : z list list }
let parse_att (s : string) : aspec =
  match String.split_on_char '.' s with
  | [ty; dt; nc; nm; uid; kind; rows] ->
    let d = { ad_type = z ty; ad_dt = z dt; ad_nc = z nc; ad_norm = (nm = "1"); ad_uid = z uid } in
    let w = int_of_z (dt_len (z dt)) in
    let ncn = int_of_string nc in
    let bytes = bytes_of_hex rows in
    let comps = List.map (fun bs -> match dec_le (nat_of_int w) bs with Some (v, _) -> v | None -> failwith "row") (chunks w bytes) in
    { desc = d; kindtxt = String.split_on_char '/' kind; rows = chunks ncn comps }
  | _ -> failwith ("att " ^ s)
let needs_method a = match a.kindtxt with
  | "I" :: _ :: b :: _ -> b = "1" | "Q" :: _ :: _ :: b :: _ -> b = "1" | "N" :: _ :: _ :: b :: _ -> b = "1" | _ -> false
let mk_opts pred builtin level m =
  { io_pred = (if pred = "1" then PDelta else PNone); io_builtin = (builtin = "1"); io_method = z_of_int m; io_level = z level }
let to_attribute a m : attribute =
  let k = match a.kindtxt with
    | ["G"] -> KGeneric
    | ["I"; pred; builtin; level] -> KInteger (mk_opts pred builtin level m)
    | ["Q"; q; pred; builtin; level; ex] ->
      let e = if ex = "-" then None else
        (match String.split_on_char ':' ex with
         | [org; rg] -> Some (List.map z (String.split_on_char ',' org), z rg) | _ -> failwith "explicit") in
      KQuant (z q, e, mk_opts pred builtin level m)
    | ["N"; q; pred; builtin; level] -> KNormal (z q, mk_opts pred builtin level m)
    | _ -> failwith "kind" in
  { a_desc = a.desc; a_kind = k; a_rows = a.rows }
let parse_md h = if h = "-" then None else
  (match md_dec (bytes_of_hex h) with Some (g, _) -> Some g | None -> failwith "md")
let rec triples = function a :: b :: c :: r -> ((a, b), c) :: triples r | _ -> []

(* all assignments of {0,1} to n slots *)
let rec assigns n = if n = 0 then [[]] else List.concat_map (fun l -> [0 :: l; 1 :: l]) (assigns (n - 1))

let enc_case ~mesh toks =
  (* pcseq  np md natts att* implhex      |  meshseq np md conn faces natts att* implhex *)
  let np, md, conn, faces, rest = match mesh, toks with
    | false, np :: md :: rest -> np, md, "r", "-", rest
    | true, np :: md :: conn :: faces :: rest -> np, md, conn, faces, rest
    | _ -> failwith "enc_case" in
  let natts = int_of_string (List.hd rest) in
  let rest = List.tl rest in
  let atts = List.map parse_att (List.filteri (fun i _ -> i < natts) rest) in
  let implhex = List.nth rest natts in
  let mdv = parse_md md in
  let slots = List.length (List.filter needs_method atts) + (if conn = "c" then 1 else 0) in
  let fcs = triples (List.map z (split ',' faces)) in
  let run asg =
    let asg = ref asg in
    let next () = match !asg with m :: r -> asg := r; m | [] -> 0 in
    let cm = if conn = "c" then Some (z_of_int (next ())) else None in
    let al = List.map (fun a -> to_attribute a (if needs_method a then next () else 0)) atts in
    let r = if mesh then i_enc_mesh_seq (z np) mdv cm fcs al else i_enc_pc_seq (z np) mdv al in
    match r with None -> "fail" | Some bs -> hex_of_bytes bs in
  let results = List.map run (assigns slots) in
  (match List.find_opt (fun h -> h = implhex) results with
   | Some h -> h
   | None -> "NOMATCH " ^ (let h = List.hd results in if String.length h > 300 then String.sub h 0 300 else h))

(* every float32 NaN is printed as 0x7fc00000 (as the harness does): NaN payloads are not portable across arithmetic *)
let canon_nan (d : att_desc) (v : z) =
  if int_of_z d.ad_dt = 9 then
    (let i = int_of_z v in if i land 0x7f800000 = 0x7f800000 && i land 0x007fffff <> 0 then z_of_int 0x7fc00000 else v)
  else v
let rows_hex (d : att_desc) (rows : z list list) =
  let w = nat_of_int (int_of_z (dt_len d.ad_dt)) in
  hex_of_bytes (List.concat_map (fun row -> List.concat_map (fun v -> enc_le w (canon_nan d v)) row) rows)
let att_out (a : dec_att) =
  let d = a.da_desc in
  Printf.sprintf "%s.%s.%s.%d.%s.%s%s" (string_of_z d.ad_type) (string_of_z d.ad_dt) (string_of_z d.ad_nc)
    (if d.ad_norm then 1 else 0) (string_of_z d.ad_uid) (rows_hex d a.da_rows)
    (match a.da_oct with None -> "" | Some q -> ".O" ^ string_of_z q) ^
    (match a.da_tdata with
     | None -> ""
     | Some p -> ".T" ^ string_of_z p.qp_bits ^ String.concat "" (List.map (fun m -> "," ^ string_of_z (bits_of_f32 m)) p.qp_min)
                 ^ "," ^ string_of_z (bits_of_f32 p.qp_range))
let skip_fn s = let l = List.map z (split ',' s) in fun t -> List.exists (fun x -> ds_is_zero (ds_sub x t)) l
let md_out = function None -> "-" | Some g -> (match md_enc g with Some b -> hex_of_bytes b | None -> "MD-UNENCODABLE")

let () = run_driver (function
  | "pcseq" :: toks -> enc_case ~mesh:false toks
  | "meshseq" :: toks -> enc_case ~mesh:true toks
  | ["dpcseq"; sk; h] ->
    (match i_dec_pc_seq (skip_fn sk) (bytes_of_hex h) with
     | None -> "fail"
     | Some (g, rest) ->
       Printf.sprintf "ok %s %s %d%s %d" (string_of_z g.dp_npoints) (md_out g.dp_md) (List.length g.dp_atts)
         (String.concat "" (List.map (fun a -> " " ^ att_out a) g.dp_atts)) (List.length rest))
  | ["dmeshseq"; sk; h] ->
    (match i_dec_mesh_seq (skip_fn sk) (bytes_of_hex h) with
     | None -> "fail"
     | Some (g, rest) ->
       let fs = if g.dm_faces = [] then "-" else
         String.concat "," (List.concat_map (fun ((a, b), c) -> [string_of_z a; string_of_z b; string_of_z c]) g.dm_faces) in
       Printf.sprintf "ok %s %s %s %d%s %d" (string_of_z g.dm_npoints) (md_out g.dm_md) fs (List.length g.dm_atts)
         (String.concat "" (List.map (fun a -> " " ^ att_out a) g.dm_atts)) (List.length rest))
  | ["vgate"; ty; maj; mnr] -> if i_version_ok (z ty) (z maj) (z mnr) then "known" else "unknown"
  | k :: _ -> "UNKNOWN-KIND " ^ k
  | [] -> "EMPTY")
