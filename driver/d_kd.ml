(* kd-tree point cloud codec: model side of the correspondence (Model/KdTree.v) *)
open M
open Zutil
let z = z_of_string
let nat s = nat_of_int (int_of_string s)
let split c s = if s = "-" then [] else String.split_on_char c s
let enc_result = function None -> "fail" | Some bs -> hex_of_bytes bs

(* flat comma list -> rows of [dim] *)
let rec rows_of dim l =
  if l = [] then [] else begin
    let rec take k l acc = if k = 0 then (List.rev acc, l) else match l with
      | x :: r -> take (k - 1) r (x :: acc) | [] -> failwith "rows_of" in
    let (row, rest) = take dim l [] in row :: rows_of dim rest
  end
let pts_text pts =
  let flat = List.concat pts in
  if flat = [] then "-" else String.concat "," (List.map string_of_z flat)

(* component bit patterns <-> little-endian hex rows *)
let dt_width dt = match dt with 1 | 2 -> 1 | 3 | 4 -> 2 | 5 | 6 | 9 -> 4 | 7 | 8 | 10 -> 8 | 11 -> 1 | _ -> 0
let vals_of_hex w h =
  let bs = List.map int_of_z (bytes_of_hex h) in
  let rec go l = if l = [] then [] else begin
    let rec take k l sh acc = if k = 0 then (acc, l) else match l with
      | b :: r -> take (k - 1) r (sh + 8) (acc lor (b lsl sh)) | [] -> failwith "vals_of_hex" in
    let (v, rest) = take w l 0 0 in z_of_int v :: go rest end in
  go bs
let hex_of_vals w vs =
  if vs = [] then "-" else begin
    let b = Buffer.create 64 in
    List.iter (fun v -> let v = int_of_z v in
      for i = 0 to w - 1 do Buffer.add_string b (Printf.sprintf "%02x" ((v lsr (8 * i)) land 255)) done) vs;
    Buffer.contents b end

(* attribute: type.dt.nc.norm.uid.q.explicit.rowshex ; explicit = "-" or o1,o2,..:range (float bit patterns) *)
let parse_att s =
  match String.split_on_char '.' s with
  | [ty; dt; nc; nm; uid; q; ex; rows] ->
    let dti = int_of_string dt and nci = int_of_string nc in
    let d = { ad_type = z ty; ad_dt = z dt; ad_nc = z nc; ad_norm = (nm = "1"); ad_uid = z uid } in
    let expl = if ex = "-" then None else (match String.split_on_char ':' ex with
      | [o; r] -> Some (List.map z (split ',' o), z r) | _ -> failwith "explicit") in
    { k_desc = d; k_q = z q; k_explicit = expl; k_rows = rows_of nci (vals_of_hex (dt_width dti) rows) }
  | _ -> failwith ("att " ^ s)
let att_text (a : kd_dec_att) =
  let d = a.kda_desc in
  let w = dt_width (int_of_z d.ad_dt) in
  Printf.sprintf "%s.%s.%s.%d.%s.%s%s" (string_of_z d.ad_type) (string_of_z d.ad_dt) (string_of_z d.ad_nc)
    (if d.ad_norm then 1 else 0) (string_of_z d.ad_uid) (hex_of_vals w (List.concat a.kda_rows))
    (match a.kda_tdata with None -> "" | Some p ->
       ".T" ^ string_of_z p.qp_bits ^ String.concat "" (List.map (fun m -> "," ^ string_of_z (bits_of_f32 m)) p.qp_min)
       ^ "," ^ string_of_z (bits_of_f32 p.qp_range))

let () = run_driver (function
  | ["kt"; level; dim; bl; pts] ->
    let d = int_of_string dim in
    enc_result (kd_encode_points (z level) (nat dim) (z bl) (rows_of d (List.map z (split ',' pts))))
  | ["kdt"; level; dim; maxpts; h] ->
    (match kd_decode_points (z "515") (z level) (nat dim) (z maxpts) (bytes_of_hex h) with
     | None -> "fail"
     | Some (pts, rest) -> Printf.sprintf "ok %d %s %d" (List.length pts) (pts_text pts) (List.length rest))
  | "kpc" :: speed :: np :: _na :: atts ->
    enc_result (kd_enc_pc (z speed) (z np) (List.map parse_att atts))
  | ("kdpc" :: _ | "kdpcs" :: _) as toks ->
    let (skips, h) = (match toks with
      | ["kdpc"; h] -> ([], h)
      | ["kdpcs"; sk; h] -> (List.map z (split ',' sk), h)
      | _ -> failwith "kdpc") in
    (match kd_dec_pc_stream (fun t -> List.exists (fun s -> int_of_z s = int_of_z t) skips) (bytes_of_hex h) with
     | KFail -> "fail"
     | KUB -> "UB"
     | KOk (pc, rest) ->
       Printf.sprintf "ok %s %d%s %d" (string_of_z pc.kp_npoints) (List.length pc.kp_atts)
         (String.concat "" (List.map (fun a -> " " ^ att_text a) pc.kp_atts)) (List.length rest))
  | t -> failwith ("unknown case " ^ String.concat " " t))
