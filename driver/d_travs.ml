(* TRAVS driver: the attribute traversal of coq/Model/Traverser.v on the cases of harness/h_travs.cc.
   kinds
     pos <dfs|mpd> <faces> <c2p> <init> <order>                     position table rebuilt by the C13 model ct_create
     att <faces> <seam bits> <att c2v> <att lmc> <c2p> <init> <order>   attribute table = ct_create's Opposite cut at the seams
     tab <dfs|mpd> <c2v> <opp> <lmc> <c2p> <init> <order>           arrays given (the decoder's tables)
   <init>  = e (encoder: -1 per vertex of the table) | d<n> (decoder: n zeros)
   <order> = none (no corner order) | comma list | - (empty list)
   result  = inv=<tt_okb> ok d2c=.. v2d=.. pts=.. n=..  |  inv=.. false | inv=.. err | inv=.. fuel *)
open M
open Zutil
let nat_cache = Array.init 8192 nat_of_int
let nat_ n = if n >= 0 && n < 8192 then nat_cache.(n) else nat_of_int n
let split c s = if s = "-" then [] else String.split_on_char c s
let ints s = List.map int_of_string (split ',' s)
let rec faces_of = function
  | a :: b :: c :: r -> ((nat_ a, nat_ b), nat_ c) :: faces_of r
  | [] -> []
  | _ -> failwith "vertex list length not a multiple of 3"
let onats s = List.map (fun i -> if i < 0 then None else Some (nat_ i)) (ints s)
let nats s = List.map nat_ (ints s)
let bits s = if s = "-" then [] else List.init (String.length s) (fun i -> s.[i] = '1')
let order s = if s = "none" then None else Some (nats s)
let init t s =
  if s = "e" then enc_v2d0 (tt_num_vertices t)
  else dec_v2d0 (nat_ (int_of_string (String.sub s 1 (String.length s - 1))))
let jn f l = if l = [] then "-" else String.concat "," (List.map f l)
let show t r =
  let inv = if tt_okb t then "inv=1 " else "inv=0 " in
  inv ^ (match r with
    | RFalse -> "false"
    | RErr -> "err"
    | RFuel -> "fuel"
    | ROk s -> Printf.sprintf "ok d2c=%s v2d=%s pts=%s n=%d"
                 (jn (fun c -> string_of_int (int_of_nat c)) s.ts_d2c) (jn string_of_z s.ts_v2d)
                 (jn (fun c -> string_of_int (int_of_nat c)) s.ts_pts) (int_of_nat s.ts_num))
let run m t c2p ini ord =
  let f = if m = "mpd" then mpd_sequence else dfs_sequence in
  show t (f t (nats c2p) (init t ini) (order ord))
let ct faces = match ct_create (faces_of (ints faces)) with None -> failwith "OUT-OF-FUEL" | Some t -> t
let () = run_driver (function
  | ["pos"; m; f; c2p; ini; ord] -> run m (tt_of_ct (ct f)) c2p ini ord
  | ["att"; f; seam; ac2v; almc; c2p; ini; ord] ->
    run "dfs" (tt_of_att (ct f) (bits seam) (onats ac2v) (onats almc)) c2p ini ord
  | ["tab"; m; c2v; opp; lmc; c2p; ini; ord] ->
    run m { tt_c2v = onats c2v; tt_opp = onats opp; tt_lmc = onats lmc } c2p ini ord
  | k :: _ -> "UNKNOWN-KIND " ^ k
  | [] -> "EMPTY")
