"""KD — the kd-tree point-cloud codec (C01 for POINT_CLOUD_KD_TREE_ENCODING; kd-tree half of C12/C10).
Not a property id of its own: a check module for the model Model/KdTree.v and the theorems C01_kd_* of Properties_KD.v."""
import vcheck as V
LEVEL = "proof"
PROP_FILE = "Properties_KD.v"
RULE = ("(1) DynamicIntegerPointsKdTreeEncoder<N>/Decoder<N> instantiated directly for N = 0..6 on random point sets (1..200 points, "
        "1..17 dimensions, bit lengths 0..32; uniform / clustered / corner / few-distinct / all-identical clouds with duplicates): the model "
        "encoder must reproduce the stream byte for byte; every stream (with trailing junk, wrong level, wrong dimension, too small "
        "oit_max_points and 1-3 corrupted variants) goes through the real and the model decoder, which must agree on accept/reject, on the "
        "points in output order and on the number of unread bytes; search: decoded multiset == input multiset, exact consumption, also for a "
        "shuffled copy of the input.  (2) whole streams from ExpertEncoder with POINT_CLOUD_KD_TREE_ENCODING (speeds 0..10, 1..120 points incl. "
        "duplicated and identical points, 1..4 attributes: float32 quantized 1..16 bits incl. explicit origin/range, uint8/16/32 and int8/16/32 "
        "with 1..9 components): model stream == real stream; every stream plus 2-4 corrupted variants through Decoder::DecodePointCloudFromBuffer "
        "and the model decoder (accept/reject, every decoded value in decode order, unread bytes), also with SetSkipAttributeTransform for some "
        "attribute types (portable uint32 values, the stream's unique id, attached quantization parameters) and with extreme signed varints "
        "spliced into the trailing parameter block; the boundary of the signed-span guard (max - min = 2^31 - 1 must encode and round-trip, "
        "2^31 must make the encode fail); search: the decoded cloud is the input cloud under ONE permutation of the points for all "
        "attributes.  A case is distinct by its text")
NEEDS = ["Model/KdTree.vo", "Base/DriverSupport.vo"]

def corr_runs(ctx):
    return [dict(tag="h_kd", harness="kd", driver="kd", args=[ctx.tier, ctx.seed], needs_vo=NEEDS, timeout=3000)]

def run(ctx):
    V.standard_run(ctx, __import__(__name__))

def replay(ctx, path):
    return V.standard_replay(ctx, __import__(__name__), path)
