"""C20 — keyframe animations round-trip with frame order preserved."""
import vcheck as V
LEVEL = "proof"
PROP_FILE = "Properties_C20.v"
FAIL_PREFIXES = ["C20", "C04/C01", "C01"]
RULE = ("random keyframe animations (1..3000 frames, 0..3 tracks of 1..16 float components, timestamps set before or after the tracks, "
        "optional per-track quantization 5..20 bits, speeds 0..10) encoded by KeyframeAnimationEncoder: the model of the sequential "
        "point-cloud codec must reproduce the bytes; the real decoder's result is checked directly (frame count and order, timestamps "
        "and unquantized tracks bit-exact, quantized tracks within half a step + 4 ulp, every track under the id AddKeyframes returned)")
NEEDS = ["Model/SeqCodecInst.vo", "Base/DriverSupport.vo"]
def corr_runs(ctx):
    return [dict(tag="h_seq_anim", harness="seq", driver="seq", args=[ctx.tier, ctx.seed], needs_vo=NEEDS, env={"SEQ_MODE": "anim"}, timeout=1500)]
def run(ctx):
    V.standard_run(ctx, __import__(__name__))
def replay(ctx, path):
    return V.standard_replay(ctx, __import__(__name__), path)
