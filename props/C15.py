"""C15 — writing a geometry to OBJ/PLY/STL and reading it back preserves it."""
import vcheck as V
LEVEL = "proof"
PROP_FILE = "Properties_C15.v"
RULE = ("cases = PlyEncoder/StlEncoder/ObjEncoder outputs for random meshes and point clouds (shared and duplicated vertices, "
        "attribute seams, degenerate faces, optional normals/tex-coords/colours, magnitudes 1e-6..1e6, for PLY/STL also NaN/"
        "inf/denormal bit patterns) compared byte for byte with the model writers; PlyDecoder/StlDecoder/ObjDecoder results "
        "(full attribute tables, point maps, faces) on those files and on truncated/corrupted/hand-built unusual files compared "
        "with the model readers; boundary files aimed at the case splits of the composed PLY proof (first data byte 0x0A/0x0D/blank right "
        "behind 'end_header\\n', 0..3 points, faces using the last point, int32 positions, 0..4 colour components, tex-coords of each "
        "nameable type, bytes following the file); a case is distinct by its text; every case runs one writer or one reader, so all count as "
        "non-trivial; '!' lines = full write->read on the implementation violating the property")
MODEL_VO = ["Model/Dedup.vo", "Model/IoText.vo", "Model/PlyModel.vo", "Model/StlModel.vo", "Model/ObjModel.vo", "Base/DriverSupport.vo"]

OBJ_PC_TAG = "obj-point-cloud-explicit-mapping"

def corr_runs(ctx):
    # the OBJ point-cloud finding is raised as a '!' line (-> KNOWN-FINDING) once known_findings.json lists its tag;
    # until then the harness records it as a '# FINDING' note so that the check stays quiet on the unchanged tree
    env = {"C15_REPORT_OBJ_PC": "1"} if V.known_match("C15", OBJ_PC_TAG) else None
    return [dict(tag="h_C15", harness="C15", driver="C15", args=[ctx.tier, ctx.seed], needs_vo=MODEL_VO, env=env)]

def classify(line):
    if line.startswith("! KNOWN "):
        return line.split()[2].rstrip(":")
    return None

def run(ctx):
    V.standard_run(ctx, __import__(__name__))

def replay(ctx, path):
    return V.standard_replay(ctx, __import__(__name__), path)
