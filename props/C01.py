"""C01 — encode/decode round trip (sequential methods modelled and proved; Edgebreaker / kd-tree searched)."""
import vcheck as V
LEVEL = "proof"
PROP_FILE = "Properties_C01.v"
RULE = ("random point clouds / meshes / keyframe animations (0..400 points, 0..3 attributes of every data type, quantized or not, "
        "explicit quantization, prediction on/off, built-in compression on/off, speeds 0..10, metadata, raw/compressed connectivity) "
        "encoded by the real sequential encoders: the model encoder must reproduce the bytes (symbol-scheme choice read off the stream); "
        "every stream, with trailing junk and in 2-4 corrupted variants, goes through the real and the model decoder, which must agree on "
        "accept/reject and on every decoded value; distinct by case text")
FAIL_PREFIXES = ["C01", "C04/C01", "D10", "D11"]
NEEDS = ["Model/SeqCodecInst.vo", "Base/DriverSupport.vo"]

def corr_runs(ctx):
    return [dict(tag="h_seq", harness="seq", driver="seq", args=[ctx.tier, ctx.seed], needs_vo=NEEDS, timeout=3000)]

def classify(line):
    if line.startswith("! D11-empty-geometry-integer-attribute"):
        return "empty-geometry-integer-attribute-sequential"
    if line.startswith("! D10-compressed-connectivity-guard"):
        return "compressed-connectivity-rejected-by-face-count-guard"
    return None

def run(ctx):
    V.standard_run(ctx, __import__(__name__))

def replay(ctx, path):
    return V.standard_replay(ctx, __import__(__name__), path)
