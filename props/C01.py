"""C01 — encode/decode round trip (sequential methods modelled and proved; Edgebreaker / kd-tree searched)."""
import vcheck as V
LEVEL = "proof"
PROP_FILE = "Properties_C01.v"
RULE = ("(1) model correspondence: random point clouds / meshes / keyframe animations (0..400 points, 0..3 attributes of every data type, quantized or not, "
        "explicit quantization, prediction on/off, built-in compression on/off, speeds 0..10, metadata, raw/compressed connectivity) "
        "encoded by the real sequential encoders: the model encoder must reproduce the bytes (symbol-scheme choice read off the stream); "
        "every stream, with trailing junk and in 2-4 corrupted variants, goes through the real and the model decoder, which must agree on "
        "accept/reject and on every decoded value; distinct by case text. (2) all-methods search: grid-patch meshes with holes, seams, "
        "non-manifold / degenerate / duplicated / flipped faces, shared position values, 1..5 attributes, and point clouds, encoded with "
        "Edgebreaker standard/valence x speeds 0..10 x forced prediction schemes, kd-tree, sequential: unquantized values and triangles "
        "must be unchanged (canonical multiset, orientation kept; Edgebreaker may drop position-degenerate faces) and the decoded "
        "geometry must be identical to the sequential reference for the same quantization settings")
FAIL_PREFIXES = ["C01", "C04/C01", "D10", "D11"]
NEEDS = ["Model/SeqCodecInst.vo", "Base/DriverSupport.vo"]
# model layers of the other methods, checked as part of C01: the kd-tree codec (Properties_KD.v, h_kd) and the mesh prediction
# schemes of the Edgebreaker attribute layer (Properties_PRED.v, h_pred), and the serialisation of the Edgebreaker connectivity
# (symbols, split events, start faces, seams, header; Properties_TRAV.v, h_trav), and the Edgebreaker connectivity encoder state
# machine with the executable encoder->decoder round-trip check (Properties_EBENC.v, h_ebenc), and the attribute traversers that
# produce the maps the prediction schemes consume (Properties_TRAVS.v, h_travs)
SUBCHECKS = ["KD", "PRED", "TRAV", "EBENC", "TRAVS"]

def corr_runs(ctx):
    return [dict(tag="h_seq", harness="seq", driver="seq", args=[ctx.tier, ctx.seed], needs_vo=NEEDS, timeout=3000),
            # all methods (Edgebreaker standard/valence, kd-tree, sequential; forced prediction schemes): direct oracle +
            # cross-method identity against the sequential reference, on the implementation only
            dict(tag="h_c01", harness="c01", driver=None, args=[ctx.tier, ctx.seed], timeout=3000)]

def extra(ctx, lib):
    import os
    p = os.path.join(V.BUILD, "C01_h_c01.cases")
    for l in open(p):
        if l.startswith("# STATS"):
            ctx.cov["all_methods_search"] = l[2:].strip()
            try:
                kv = dict(x.split("=") for x in l.split()[2:5])
                ctx.cov["evaluations"] = ctx.cov.get("evaluations", 0) + int(kv["encodes"])
                ctx.cov["distinct_nontrivial"] = ctx.cov.get("distinct_nontrivial", 0) + int(kv["encodes"]) - int(kv["encode_failures"])
            except Exception:
                pass

def classify(line):
    if line.startswith("! D11-empty-geometry-integer-attribute"):
        return "empty-geometry-integer-attribute-sequential"
    if line.startswith("! D10-compressed-connectivity-guard"):
        return "compressed-connectivity-rejected-by-face-count-guard"
    return None

def run(ctx):
    V.standard_run(ctx, __import__(__name__))

def replay(ctx, path):
    return V.standard_replay(ctx, __import__(__name__), path)
