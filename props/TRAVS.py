"""TRAVS — C01, Edgebreaker attribute layer: the attribute traversal (DepthFirstTraverser / MaxPredictionDegreeTraverser +
MeshTraversalSequencer + MeshAttributeIndicesEncodingObserver) delivers the maps the mesh prediction schemes (PRED) assume;
merged into C01 by the registry owner."""
import os, re
import vcheck as V
LEVEL = "proof"
PROP_FILE = "Properties_TRAVS.v"
RULE = ("cases = (A) the real header templates DepthFirstTraverser / MaxPredictionDegreeTraverser<CornerTable, "
        "MeshAttributeIndicesEncodingObserver<CornerTable>> and DepthFirstTraverser<MeshAttributeCornerTable, …> inside "
        "MeshTraversalSequencer, instantiated as GenerateAttributesEncoder / CreateAttributesDecoder do, on tables built by "
        "CreateCornerTableFromPositionAttribute / FromAllAttributes and MeshAttributeCornerTable::InitFromAttribute from generated "
        "meshes (grids with holes, cylinders, tori, fans, closed surfaces, several components, dense random lists = non-manifold "
        "after repair, identified vertices, flipped/duplicated/degenerate faces, isolated vertices, attribute seams by face blocks "
        "and single corners, attributes without interior seams) with no corner order (the decoder's way), the Edgebreaker "
        "encoder's processed_connectivity_corners_, all faces shuffled with a random corner, and random start lists (repeats, "
        "subsets); encoder-style (-1) and decoder-style (zeros) initial vertex maps; no-order runs on tables with degenerate faces "
        "in a forked child (a crash = the model's out-of-range result); (B) IN SITU: the maps, num_values and point sequences the "
        "real Edgebreaker encoder (speed 0 = prediction-degree traversal for positions, 5, 7 = single connectivity) and the real "
        "decoder produced while coding the mesh, read out of their private members, the decoder's tables given as arrays. A case "
        "compares encoded_attribute_value_index_to_corner_map, vertex_to_encoded_attribute_value_index_map, num_values and the "
        "generated point id sequence with the model exactly, and the model side evaluates the hypotheses of the theorems (tt_okb) on "
        "the table (inv=1 expected). '!' lines: md_wf of PRED on the real maps, one entry per visited vertex, every point of a face "
        "exactly once when points and vertices correspond one to one, causality (first face of a traversal or the whole opposite "
        "face has smaller entries), PRED's mp_guard_ok (the crease flags the constrained multi-parallelogram encoder would push per context, counted by its own walk on the real maps, never exceed num_corners), encoder/decoder agreement under the corner correspondence d -> Next^(d%3)(order[d/3]) for "
        "corners, entries, vertex maps and the attribute values at the points of entry k, hangs. A case is distinct by its text; "
        "non-trivial when it produced more than one entry")

def corr_runs(ctx):
    return [dict(tag="h_travs", harness="travs", driver="travs", args=[ctx.tier, ctx.seed],
                 needs_vo=["Model/Traverser.vo", "Model/CornerTable.vo", "Base/DriverSupport.vo"], timeout=3000)]

def nontrivial(line):
    m = re.search(r" n=(\d+)\s*$", line)
    return bool(m) and int(m.group(1)) > 1

def extra(ctx, lib):
    p = os.path.join(V.BUILD, "%s_h_travs.cases" % ctx.prop)
    try:
        with open(p) as fh:
            for l in fh:
                if l.startswith("# counts"):
                    for k, v in re.findall(r"(\w+)=(\d+)", l):
                        ctx.cov["n_" + k] = int(v)
    except OSError:
        pass

def run(ctx):
    V.standard_run(ctx, __import__(__name__))

def replay(ctx, path):
    return V.standard_replay(ctx, __import__(__name__), path)
