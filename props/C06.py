"""C06 — encoding and decoding are deterministic functions of their inputs."""
import vcheck as V
LEVEL = "proof"
PROP_FILE = "Properties_C06.v"
FAIL_PREFIXES = ["C06"]
RULE = ("meshes and point clouds x (sequential / Edgebreaker standard+valence / kd-tree, speeds 0..10, quantization 8..14, built-in "
        "compression on/off): bytes of a fresh Encoder vs the same Encoder again vs one long-lived Encoder + EncoderBuffer::Clear(); "
        "digest of a fresh decode vs a long-lived Decoder/DecoderBuffer on the stream followed by 1..9 junk bytes (remaining_size must "
        "equal the junk length); the whole battery re-run in 3 (quick) / 6 (thorough) fresh processes with MALLOC_PERTURB_ and arena "
        "settings varied and ASLR: fingerprints must be identical")
def corr_runs(ctx):
    return [dict(tag="h_c06", harness="c06", driver=None, args=[ctx.tier, ctx.seed], timeout=1500)]
def extra(ctx, lib):
    import os
    p = os.path.join(V.BUILD, "C06_h_c06.cases")
    for l in open(p):
        if l.startswith("# STATS"):
            kv = dict(x.split("=") for x in l.split()[2:])
            ctx.cov["evaluations"] = int(kv["encodes"]) * (2 + int(kv["processes"]))
            ctx.cov["distinct_nontrivial"] = int(kv["encodes"])
            ctx.cov["samples"] = [l[2:].strip()]
            ctx.cov["traces_validated_against_impl"] = int(kv["encodes"])
def run(ctx):
    V.standard_run(ctx, __import__(__name__))
def replay(ctx, path):
    import json; print(json.dumps(json.load(open(path)), indent=1)[:6000]); return 0
