"""C13 — the corner table built from any triangle list is a consistent manifold structure."""
import re
import vcheck as V
LEVEL = "proof"
PROP_FILE = "Properties_C13.v"
RULE = ("cases = triangle lists given to CornerTable::Create: the hand-made bow-tie / 3-face edge / fold lists, ALL lists of <= 2 triangles "
        "over 5 vertex ids, the 3-lists (all in thorough, every 10th + a random 1/400 in quick), 4-lists with the first triangle in "
        "canonical form under vertex relabelling (a 1/40 sample of all 9.77M in thorough, 15k random in quick) and random lists of up to 60 "
        "faces over 3..12 vertices built from wheels with repeated ring vertices, many faces on one edge, glued/same-direction/repeated/"
        "mirrored/rotated/degenerate/bow-tie additions, shuffled; a correspondence case compares num_vertices, Vertex(c), Opposite(c), "
        "LeftMostCorner(v), VertexParent of the new vertices and the degenerate/isolated counts with the model, exactly; the four clauses "
        "are checked directly on the implementation for every generated list (many more than are written as cases: see "
        "lists_searched); a case is distinct by its text and non-trivial when it has at least one non-degenerate face")

def corr_runs(ctx):
    return [dict(tag="h_C13", harness="C13", driver="C13", args=[ctx.tier, ctx.seed],
                 needs_vo=["Model/CornerTable.vo", "Base/DriverSupport.vo"], timeout=3000)]

def nontrivial(line):
    m = re.search(r"\| nv=\d+ c2v=\S+ opp=\S+ lmc=(\S+)", line)
    return bool(m) and any(x != "-1" for x in m.group(1).split(",") if x != "-")

def extra(ctx, lib):
    import os
    p = os.path.join(V.BUILD, "%s_h_C13.cases" % ctx.prop)
    try:
        with open(p) as f:
            for l in f:
                if l.startswith("# lists searched"):
                    for k, v in re.findall(r"(\w+)=(\d+)", l):
                        ctx.cov["search_" + k] = int(v)
                    m = re.search(r"\)=(\d+)", l)
                    if m:
                        ctx.cov["lists_searched"] = int(m.group(1))
    except OSError:
        pass

def run(ctx):
    V.standard_run(ctx, __import__(__name__))

def replay(ctx, path):
    return V.standard_replay(ctx, __import__(__name__), path)
