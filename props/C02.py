"""C02 — decoding arbitrary bytes is memory-safe, UB-free and returns a Status (partial: model-level totality proved; runtime searched)."""
import vcheck as V, decsearch
LEVEL = "proof"
PROP_FILE = "Properties_C02.v"
RULE = ("valid streams of every method (sequential / Edgebreaker standard+valence / kd-tree, speeds 0..10, forced prediction schemes, "
        "built-in compression on/off) + the 25 legacy files (bitstream 1.1..2.2) through DecodeMeshFromBuffer / DecodePointCloudFromBuffer / "
        "DecodeBufferToGeometry / GetEncodedGeometryType / skip-transform, then truncations, byte / bit / 32-bit / varint patterns, multi-site, "
        "version and type rewrites, splices, insertions/deletions; each decode in a forked worker under ASan+UBSan with a watchdog; input "
        "buffer compared before/after; distinct = distinct (bytes, entry point)")
# the Edgebreaker connectivity decoder state machine is modelled (Model/Edgebreaker.v): its theorems and its tie are part of this check;
# HOSTILE = semantic mutations (symbols, start/seam bits, split events, declared counts) of Edgebreaker streams through the public decoder
SUBCHECKS = ["EB", "HOSTILE"]
def run(ctx):
    decsearch.standard(ctx, __import__(__name__), ["C02"], RULE)
def replay(ctx, path):
    return decsearch.replay(ctx, path, ["C02"], __import__(__name__))
