"""PRED — C01, Edgebreaker attribute layer: the mesh prediction schemes (parallelogram, constrained
multi-parallelogram, tex coords portable, geometric normal) are lossless for every policy; merged into C01 by the registry owner."""
import os, re
import vcheck as V
LEVEL = "proof"
PROP_FILE = "Properties_PRED.v"
RULE = ("cases = the real header templates MeshPredictionScheme{Parallelogram,ConstrainedMultiParallelogram,TexCoordsPortable}"
        "{Encoder,Decoder}<int32_t, PredictionSchemeWrap{En,De}codingTransform<int32_t>, MeshPredictionSchemeData<CornerTable>> and "
        "MeshPredictionSchemeGeometricNormal{Encoder,Decoder}<int32_t, PredictionSchemeNormalOctahedronCanonicalized{En,De}codingTransform, …> "
        "(canonical octahedral coordinates with 2..30 bits; positions random small/large/huge, curtain meshes whose predicted normal has z == 0 "
        "exactly, planar, and degenerate faces with the (+center,0,0) fallback; flip bits read off the bytes) on corner "
        "tables built by CornerTable::Create from generated triangle lists (grids, wheels, closed surfaces, strips, random/non-manifold "
        "lists, with dropped/flipped/shuffled/rotated faces), data_to_corner/vertex_to_data maps in breadth-first traversal order, in a "
        "random vertex order with a random corner of the vertex, and arbitrary in-bounds maps; int32 rows of 1..4 components (2 + int32 "
        "positions for tex coords): tiny, smooth (parallelograms predict well), random, range-boundary and too-wide values. A case "
        "compares ComputeCorrectionValues' corrections and the EncodePredictionData bytes (encoder cases: the crease flags/orientations "
        "the implementation chose are read off its bytes and given to the model), or ComputeOriginalValues' values and the bytes left "
        "(decoder cases, including perturbed corrections, truncated/flipped prediction data, flag streams that run out or hit the "
        "num_corners guard) with the model, exact integers. Search: decode(encode(x)) == x on the implementation for every generated "
        "case. A case is distinct by its text; non-trivial when it has more than one entry")

def corr_runs(ctx):
    return [dict(tag="h_pred", harness="pred", driver="pred", args=[ctx.tier, ctx.seed],
                 needs_vo=["Model/Predict.vo", "Model/CornerTable.vo", "Base/DriverSupport.vo"], timeout=3000)]

def nontrivial(line):
    f = line.split(" ")
    if len(f) < 4:
        return False
    d2c = f[2] if f[0] in ("tc", "dtc") else f[3]
    return "," in d2c

def extra(ctx, lib):
    p = os.path.join(V.BUILD, "%s_h_pred.cases" % ctx.prop)
    try:
        with open(p) as fh:
            for l in fh:
                if l.startswith("# counts"):
                    for k, v in re.findall(r"(\w+)=(\d+)", l):
                        ctx.cov["n_" + k] = int(v)
    except OSError:
        pass

def run(ctx):
    V.standard_run(ctx, __import__(__name__))

def replay(ctx, path):
    return V.standard_replay(ctx, __import__(__name__), path)
