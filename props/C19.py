"""C19 — independent encoder/decoder instances can run concurrently.

Flow (no OCaml driver: the tie of this property is the *translator* tools/footprint.py, not a
model/implementation correspondence):
  1. build /repo's current tree (O1, -ffunction-sections -fdata-sections) and run tools/footprint.py:
     coq/Gen/Footprint.v is regenerated from the fresh objects (written only when it changes);
  2. check Properties_C19.v (the interleaving theorems + codec_footprint_empty/codec_no_hidden_state_calls
     by reflexivity against the freshly generated file + the corollary concurrent_equals_sequential);
  3. ThreadSanitizer search on the real library (tsan build): N threads with private objects, results
     compared byte for byte with the same calls run alone; a TSan report or a difference is a failing input;
  4. decide: failing input found -> VIOLATION with that replay; proof obligation broken (non-empty
     footprint) but no failing input found even after an intensified search -> VIOLATION ... no-failing-input-found.
"""
import hashlib
import json
import os
import re

import vcheck as V

LEVEL = "proof"
PROP_FILE = "Properties_C19.v"
RULE = ("search: a pool of jobs (Encoder/ExpertEncoder on random grid/holed/soup meshes and point clouds, sequential+Edgebreaker, "
        "sequential+kd-tree, speeds 0..10, quantization sets, prediction schemes; all four Decoder entry points, skip-transform, "
        "truncated streams; keyframe animation encode+decode) is first run ALONE, then in rounds of N=2..8 (quick) / 2..16 "
        "(thorough) threads, each thread with its own objects, in three modes (N jobs of one kind / N random jobs / N private "
        "copies of one job), several repetitions per thread, under ThreadSanitizer; every concurrent result is compared byte for "
        "byte with the result alone. evaluations = codec executions performed concurrently (threads x repetitions). A case is "
        "distinct by (job description, result digest); it is non-trivial when the job's result alone is a success status (the "
        "codec ran to completion; error-path jobs are counted separately in error_path_jobs). Interleavings are whatever the "
        "OS scheduler produces (plus seed-derived start staggering): not enumerated.")
TSAN_ENV = {"TSAN_OPTIONS": "halt_on_error=1 exitcode=66 history_size=4"}


def run_footprint(ctx):
    rc, out = V.sh([os.path.join(V.ROOT, "tools", "footprint.py")], timeout=1200)
    if rc != 0:
        raise V.BuildFailure("tools/footprint.py could not derive the footprint from the current tree "
                             "(probe harness/probe_C19.cc no longer compiles/links against it, or the toolchain output changed)", out)
    ctx.say(out.strip().splitlines()[0] if out.strip() else "footprint: (no output)")
    return json.load(open(os.path.join(V.BUILD, "footprint.json")))


def tsan_summary(out):
    """One-line summary + the head of the first ThreadSanitizer report in the harness output."""
    k = out.find("WARNING: ThreadSanitizer")
    if k < 0:
        return None, None
    rep = out[k:]
    e = rep.find("\nSUMMARY:")
    if e >= 0:
        e2 = rep.find("\n", e + 1)
        rep = rep[: e2 if e2 >= 0 else len(rep)]
    first = rep.splitlines()[0].strip()
    frames = re.findall(r"^\s+#0 (.+?) \(", rep, re.M)
    loc = re.search(r"^\s+Location is (.+)$", rep, re.M)
    summ = re.search(r"^SUMMARY: (.+)$", rep, re.M)
    line = "%s | %s | top frames: %s%s" % (first, summ.group(1) if summ else "", " <-> ".join(frames[:2]),
                                          " | location: " + loc.group(1) if loc else "")
    return line, rep[:6000]


def run_search(ctx, exe, tier, seed, tag, timeout):
    cases = os.path.join(V.BUILD, "%s_%s.cases" % (ctx.prop, tag))
    if os.path.exists(cases):
        os.remove(cases)
    cmd = [exe, tier, str(seed), cases]
    rc, out = V.sh(cmd, timeout=timeout, env=TSAN_ENV)
    if rc != 0 and "unexpected memory mapping" in out:      # TSan vs. high-entropy ASLR: retry without ASLR
        rc, out = V.sh(["setarch", "x86_64", "-R"] + cmd, timeout=timeout, env=TSAN_ENV)
    fails = []
    rounds = []
    n_lines = 0
    if os.path.exists(cases):
        with open(cases) as f:
            for i, l in enumerate(f):
                n_lines += 1
                if l.startswith("!"):
                    fails.append((tag, i + 1, l.rstrip("\n")))
                elif l.startswith("# round"):
                    rounds.append(l[2:].rstrip("\n"))
    line, rep = tsan_summary(out)
    if line:
        # the report is the failing "input": which jobs ran concurrently is in the last '# round' line
        ctx.tsan_reports.append({"tier": tier, "seed": seed, "report": rep, "during": rounds[-1] if rounds else "?"})
        fails.insert(0, (tag, n_lines, "! " + line + " | during " + (rounds[-1] if rounds else "?") +
                         " | harness: h_C19 %s %s (TSAN_OPTIONS=%s) | report: %s" % (tier, seed, TSAN_ENV["TSAN_OPTIONS"],
                                                                                     rep.replace("\n", " \\n "))))
    elif rc == 124:
        raise V.HarnessCrash("h_C19 %s timed out after %ss (deadlock or livelock between codec threads?)" % (tier, timeout), out, cases)
    elif rc != 0:
        raise V.HarnessCrash("h_C19 %s exited %d" % (tier, rc), out, cases)
    return cases, fails


def summarise(ctx, cases_files):
    jobs = {}
    evals = 0
    distinct = set()
    err_jobs = set()
    samples = []
    kinds = {}
    ns = {}
    modes = {}
    for cases in cases_files:
        if not os.path.exists(cases):
            continue
        jobs = {}
        with open(cases) as f:
            for l in f:
                if l.startswith("job "):
                    lhs, rhs = l.rstrip("\n").split(" | ", 1)
                    jid = lhs.split(" ")[1]
                    jobs[jid] = (lhs.split(" ", 2)[2], rhs)
                    if len(samples) < 4 and len(jobs) % 17 == 1:
                        samples.append(l.rstrip("\n")[:400])
                elif l.startswith("conc "):
                    lhs, rhs = l.rstrip("\n").split(" | ", 1)
                    m = re.match(r"conc round=(\d+) n=(\d+) mode=(\d+) t=(\d+) reps=(\d+) job=(\d+) (\S+)", lhs)
                    if not m:
                        continue
                    reps = int(m.group(5))
                    evals += reps
                    desc, jr = jobs.get(m.group(6), ("?", ""))
                    ok = jr.split(" ")[2].endswith("OK") if len(jr.split(" ")) > 2 else False
                    key = hashlib.md5((desc + "|" + rhs).encode()).digest()
                    if ok:
                        distinct.add(key)
                    else:
                        err_jobs.add(key)
                    kinds[m.group(7)] = kinds.get(m.group(7), 0) + reps
                    ns[m.group(2)] = ns.get(m.group(2), 0) + reps
                    modes[m.group(3)] = modes.get(m.group(3), 0) + reps
                    if len(samples) < 12 and (evals // max(reps, 1)) % 97 == 5:
                        samples.append(l.rstrip("\n")[:400])
    ctx.cov.update({"evaluations": evals, "distinct_nontrivial": len(distinct), "error_path_jobs": len(err_jobs),
                    "rule": RULE, "samples": samples, "executions_by_kind": kinds, "executions_by_threads": ns,
                    "executions_by_mode(0=same kind,1=mixed,2=identical)": modes,
                    "traces_validated_against_impl": 0})


def run(ctx):
    ctx.tsan_reports = []
    lib = V.build_repo(ctx, "O1")
    ctx.say("repo built:", lib)
    # ---- 1. translator: regenerate Gen/Footprint.v from the fresh build
    fp = run_footprint(ctx)
    ctx.cov["footprint"] = {k: fp[k] for k in ("codec_shared_writable", "codec_hidden_state_calls", "codec_locale_reads",
                                               "codec_thread_local", "codec_members_writable", "library_shared_writable",
                                               "image_writable_sections", "timing_s", "changed", "selftest_canary")}
    ctx.cov["footprint"]["codec_archive_members"] = len(fp["codec_archive_members"])
    ctx.cov["footprint"]["archive_members_total"] = fp["archive_members_total"]
    ctx.cov["footprint"]["codec_toolchain_writable"] = len(fp["codec_toolchain_writable"])
    # ---- 2. proofs against the fresh Gen file
    proof_ok = V.coq_check_properties(ctx, PROP_FILE)
    nonempty = fp["codec_shared_writable"] or fp["codec_hidden_state_calls"]
    if nonempty:
        ctx.proof["failed"].insert(0, {
            "what": "the generated codec footprint is not empty: shared mutable state is reachable from the codec entry points",
            "theorem": "codec_footprint_empty" if fp["codec_shared_writable"] else "codec_no_hidden_state_calls",
            "blocks": ["concurrent_equals_sequential", "codec_cells_empty"],
            "file": "coq/Gen/Footprint.v (generated by tools/footprint.py from the current build)",
            "codec_shared_writable": fp["codec_shared_writable"], "codec_hidden_state_calls": fp["codec_hidden_state_calls"]})
        if proof_ok:   # cannot happen unless Properties_C19.v stopped stating the obligation
            proof_ok = False
            ctx.proof["discharged"] = 0
    ctx.say("proofs: %d/%d %s" % (ctx.proof["discharged"], ctx.proof["obligations"], "ok" if proof_ok else "BROKEN"))
    if not proof_ok:
        ctx.say(json.dumps(ctx.proof["failed"], indent=1)[:3000])
    # ---- 3. search under ThreadSanitizer
    tlib = V.build_repo(ctx, "tsan")
    exe = V.build_harness(ctx, "C19", tlib, "tsan")
    files = []
    cases, fails = run_search(ctx, exe, ctx.tier, ctx.seed, "h_C19", timeout=900 if ctx.tier == "quick" else 3000)
    files.append(cases)
    ctx.say("h_C19 %s: %d direct failures%s" % (ctx.tier, len(fails), " (ThreadSanitizer report)" if ctx.tsan_reports else ""))
    if not proof_ok and not fails:
        # broken obligation: look harder for a concrete failing schedule (more threads, more repetitions, other seeds)
        for k in range(3 if ctx.tier == "quick" else 8):
            c2, f2 = run_search(ctx, exe, "hunt", ctx.seed + 1000 + k, "h_C19_hunt%d" % k, timeout=900)
            files.append(c2)
            ctx.say("h_C19 hunt seed %d: %d direct failures" % (ctx.seed + 1000 + k, len(f2)))
            if f2:
                fails = f2
                break
    summarise(ctx, files)
    ctx.cov["direct_failures"] = len(fails)
    ctx.cov["tsan_reports"] = len(ctx.tsan_reports)
    ctx.cov["trusted_base_C19"] = [
        "Coq 8.16.1 kernel; all C19 theorems are closed under the global context (no axioms)",
        "tools/footprint.py + g++/ld --gc-sections/readelf/c++filt: the generated coq/Gen/Footprint.v is trusted to list every "
        "writable non-TLS data symbol reachable from harness/probe_C19.cc's references, and the fixed hidden-state function list",
        "harness/probe_C19.cc names the codec entry points; an entry point missing there is not covered",
        "modelling assumption `confined`: a codec step reaches process-shared state only through symbols of the linked image",
        "ThreadSanitizer (gcc 12) + harness/h_C19.cc for the search; no extraction/driver is used by this property",
    ]
    ctx.assumptions += [
        "theorems are about the abstract atomic-step model (sequential consistency); C++ memory-model data races, heap objects shared "
        "by the caller, libc/libstdc++/allocator internals and process-locale reads (codec_locale_reads) are covered by the TSan search only",
        "the explored interleavings are those the OS scheduler produced in this run",
    ]
    V.standard_decide(ctx, proof_ok, [], fails, classify)


def classify(line):
    return None


def replay(ctx, path):
    r = json.load(open(path))
    print(json.dumps(r, indent=1)[:8000])
    if r.get("kind") == "proof":
        fp = run_footprint(ctx)
        print("footprint now: codec_shared_writable=%s codec_hidden_state_calls=%s" % (fp["codec_shared_writable"], fp["codec_hidden_state_calls"]))
        ok = V.coq_check_properties(ctx, PROP_FILE)
        print("REPRODUCED (proof obligations still broken)" if not ok else "not reproduced on the current tree")
        return 0 if ok else 1
    if r.get("kind") != "search":
        return 0
    ctx.tsan_reports = []
    tier, seed = r.get("tier", ctx.tier), r.get("seed", ctx.seed)
    m = re.search(r"harness: h_C19 (\w+) (\d+)", r.get("case", ""))
    if m:
        tier, seed = m.group(1), int(m.group(2))
    tlib = V.build_repo(ctx, "tsan")
    exe = V.build_harness(ctx, "C19", tlib, "tsan")
    still = []
    for attempt in range(3):     # thread timing varies: a race that TSan saw once is normally seen again at once
        cases, fails = run_search(ctx, exe, tier, seed, "replay", timeout=3000)
        if fails:
            still = fails
            break
    for (_, _, l) in still[:3]:
        print("now:", l[:1500])
    print("REPRODUCED" if still else "not reproduced on the current tree (3 runs of the same tier/seed)")
    return 1 if still else 0
