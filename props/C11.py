"""C11 — geometry and attribute metadata survive the round trip."""
import re
import vcheck as V
LEVEL = "proof"
PROP_FILE = "Properties_C11.v"
RULE = ("cases = (menc/nenc) encodes of random metadata trees built through the public container API and printed in the "
        "containers' own iteration order (depth 0..8, 0..40 entries per level, names of length 0,1,..,254,255,256,300 with "
        "bytes >= 0x80 and 0x00, values of length 0..64 KiB, duplicate names, attribute metadata with equal/unknown ids, chains "
        "of 998..1100 nested objects), compared byte for byte with the model encoder; (mdec/ndec) decodes of valid, truncated, "
        "corrupted, hand-crafted (duplicate/unsorted names, counts vs remaining bytes, nesting limit) and random byte strings, "
        "compared with BOTH decoder models (tree, bytes left, or fail). A case is distinct by its text. Direct search: every "
        "successful encode is decoded again with and without trailing bytes, and every 5th tree goes through point-cloud "
        "(sequential, kd-tree) and mesh (sequential, edgebreaker) encodes")

def corr_runs(ctx):
    return [dict(tag="h_C11", harness="C11", driver="C11", args=[ctx.tier, ctx.seed],
                 needs_vo=["Model/Varint.vo", "Model/Metadata.vo", "Base/DriverSupport.vo"])]

def extra(ctx, lib):
    import os
    p = os.path.join(V.BUILD, "%s_h_C11.cases" % ctx.prop)
    try:
        with open(p) as f:
            for l in f:
                if l.startswith("# stats"):
                    ctx.cov.setdefault("generator_stats", []).append(l[2:].strip())
    except OSError:
        pass

def run(ctx):
    V.standard_run(ctx, __import__(__name__))

def replay(ctx, path):
    return V.standard_replay(ctx, __import__(__name__), path)
