"""C10 — skipping the attribute transform exposes data that reproduces the normal decode."""
import vcheck as V
LEVEL = "proof"
PROP_FILE = "Properties_C10.v"
FAIL_PREFIXES = ["C10"]
RULE = ("sequential point-cloud and mesh streams with quantized float attributes (and integer / generic ones) decoded with every random "
        "subset of attribute types skipped: the model decoder with the same skip set must return the same description, integer words and "
        "transform data as the real decoder (also on corrupted streams); directly on the implementation: InitFromAttribute + "
        "InverseTransformAttribute on the exposed data must equal the normal decode bit for bit, unskipped attributes and faces identical")
NEEDS = ["Model/SeqCodecInst.vo", "Base/DriverSupport.vo"]
def corr_runs(ctx):
    return [dict(tag="h_seq_skip", harness="seq", driver="seq", args=[ctx.tier, ctx.seed], needs_vo=NEEDS, env={"SEQ_MODE": "skip"}, timeout=1500)]
def run(ctx):
    V.standard_run(ctx, __import__(__name__))
def replay(ctx, path):
    return V.standard_replay(ctx, __import__(__name__), path)
