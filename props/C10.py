"""C10 — skipping the attribute transform exposes data that reproduces the normal decode."""
import vcheck as V
LEVEL = "proof"
PROP_FILE = "Properties_C10.v"
FAIL_PREFIXES = ["C10"]
RULE = ("sequential point-cloud and mesh streams with quantized float attributes (and integer / generic ones) decoded with every random "
        "subset of attribute types skipped: the model decoder with the same skip set must return the same description, integer words and "
        "transform data as the real decoder (also on corrupted streams); directly on the implementation: InitFromAttribute + "
        "InverseTransformAttribute on the exposed data must equal the normal decode bit for bit, unskipped attributes and faces identical. "
        "(2) all-methods search (h_c10): grid-patch meshes (1..5 attributes incl. quantized positions / tex coords / normals, integer generics) through "
        "Edgebreaker standard/valence and sequential at speeds 0..10, point clouds with 1..4 quantized float attributes + integer ones through kd-tree "
        "and sequential; every stream decoded normally and with 2-3 random subsets of the five attribute types skipped: same counts, unique ids, "
        "faces; unskipped attributes byte-identical; a skipped attribute exposed as integers must carry a transform description whose re-application "
        "reproduces the normal decode bit for bit; the same on every legacy (bitstream 1.1..2.1) stream of the frozen corpus and a quarter of the current ones")
NEEDS = ["Model/SeqCodecInst.vo", "Base/DriverSupport.vo"]
def corr_runs(ctx):
    return [dict(tag="h_seq_skip", harness="seq", driver="seq", args=[ctx.tier, ctx.seed], needs_vo=NEEDS, env={"SEQ_MODE": "skip"}, timeout=1500),
            dict(tag="h_c10", harness="c10", driver=None, args=[ctx.tier, ctx.seed], timeout=3000, env={"C10_CORPUS": __import__("os").path.join(V.ROOT, "corpus", "C05")})]
def extra(ctx, lib):
    import os
    for l in open(os.path.join(V.BUILD, "C10_h_c10.cases")):
        if l.startswith("# STATS"):
            ctx.cov["all_methods_skip_search"] = l[2:].strip()
            try:
                kv = dict(x.split("=") for x in l.split()[2:4])
                ctx.cov["evaluations"] = ctx.cov.get("evaluations", 0) + int(kv["skip_decodes"])
                ctx.cov["distinct_nontrivial"] = ctx.cov.get("distinct_nontrivial", 0) + int(kv["skip_decodes"])
            except Exception:
                pass
def run(ctx):
    V.standard_run(ctx, __import__(__name__))
def replay(ctx, path):
    return V.standard_replay(ctx, __import__(__name__), path)
