"""What MANIFEST.json claims, per property.  Regenerate with tools/gen_manifest.py."""
HOOK_COMMITS = ['e38642af8bb57e13d8133c6525e60cfe4faea74d', 'b395fad1f530024d94a2a788917b89c4abaae02a', '926dd8595986af044d5503aa2e8e192329688786']
NOTES = ("Technique: machine-checked proof in Coq 8.16 about a Gallina model; the model is tied to /repo on every run by "
         "(a) definitions regenerated from the source by tools/cxx2v.py where available and (b) a byte-exact correspondence check "
         "between the OCaml extraction of the model and a C++ harness linked against a fresh build of /repo's working tree. "
         "See DESIGN.md. known_findings.json lists genuine defects that are recorded rather than repaired.")
PROPS = {}  # filled from props/reg/<id>.json
