"""What MANIFEST.json claims, per property.  Regenerate with tools/gen_manifest.py."""
HOOK_COMMITS = []
NOTES = ("Technique: machine-checked proof in Coq 8.16 about a Gallina model; the model is tied to /repo on every run by "
         "(a) definitions regenerated from the source by tools/cxx2v.py where available and (b) a byte-exact correspondence check "
         "between the OCaml extraction of the model and a C++ harness linked against a fresh build of /repo's working tree. "
         "See DESIGN.md. known_findings.json lists genuine defects that are recorded rather than repaired.")
PROPS = {
 "C17": {"claimed": True, "category": "proof",
   "text": "Theorems (unbounded, by induction): unsigned/signed varints of every width (8/16/32/64) and little-endian scalars are "
           "roundtrips (lossless, self-delimiting, independent of trailing bytes); zig-zag maps are inverse; the encoder never exceeds the decoder's depth limit. "
           "Tie: byte-exact correspondence of model and implementation on encodes and on decodes of arbitrary byte strings, plus direct round-trip search on the real classes.",
   "note": "Trusted: Coq kernel, extraction (ExtrOcamlBasic), the OCaml/C++ glue, the generators. Model is hand-written; the correspondence is testing. "
           "Bit coders (rANS/adaptive/direct/folded/symbol) and bit-sequence mode are being added; until their theorems land this claim covers the varint/scalar part (partial).",
   "technique": "Coq proof (induction) + byte-exact model/implementation correspondence"},
}
