"""Shared by C02 / C03 / C18: the decoder robustness search (harness/h_dec.cc) on the real library, all methods +
legacy files, under ASan/UBSan and with the allocation monitor.  Each property picks its own '!' lines."""
import os, re
import vcheck as V

def run_dec_search(ctx, prefixes, flavours=("asan", "O1")):
    """returns (evaluations, distinct, fails [(tag, lineno, line)], samples, stats)"""
    tot = 0; dist = 0; fails = []; samples = []; stats = {}
    for fl in flavours:
        lib = V.build_repo(ctx, fl)
        h = V.build_harness(ctx, "dec", lib, fl)
        env = {"ASAN_OPTIONS": "detect_leaks=0:allocator_may_return_null=1:abort_on_error=1", "UBSAN_OPTIONS": "halt_on_error=1:abort_on_error=1",
               "DEC_TESTDATA": os.path.join(V.ROOT, "corpus", "C05")}
        seed = ctx.seed if fl == "asan" else ctx.seed + 1000   # different corruptions in the two builds
        n, mism, fl_fails, cases = V.run_cases(ctx, h, None, [ctx.tier, seed], "h_dec_" + fl, timeout=1500, env=env)
        for l in open(cases):
            if l.startswith("# STATS"):
                kv = dict(x.split("=") for x in l.split()[2:])
                stats[fl] = kv
                tot += int(kv["evaluations"]); dist += int(kv["distinct"])
            elif l.startswith("# SAMPLE") and len(samples) < 10:
                samples.append(l[2:].strip() + " [" + fl + "]")
        for (ln, line) in fl_fails:
            if any(line.startswith("! " + p) for p in prefixes):
                fails.append(("h_dec_" + fl, ln, line))
        ctx.say("h_dec[%s]: %s" % (fl, stats.get(fl)))
    return tot, dist, fails, samples, stats

def standard(ctx, mod, prefixes, rule):
    import importlib
    lib = V.build_repo(ctx, "O1")
    subs = [importlib.import_module(n) for n in getattr(mod, "SUBCHECKS", [])]   # modelled decoders checked as part of this property
    proof_ok = V.coq_check_many(ctx, [mod.PROP_FILE] + [f for s in subs for f in getattr(s, "PROP_FILES", [s.PROP_FILE])])
    ctx.say("proofs: %d/%d %s" % (ctx.proof["discharged"], ctx.proof["obligations"], "ok" if proof_ok else "BROKEN"))
    tot, dist, fails, samples, stats = run_dec_search(ctx, prefixes)
    corr = []
    if subs:
        pairs = [(s, r) for s in subs for r in s.corr_runs(ctx)]
        corr, sfails, stot, sdist, ssamples, skinds, drv_ok = V.run_corr_runs(ctx, lib, pairs)
        proof_ok = proof_ok and drv_ok
        # a sub-check shared by several properties (FILTER_BY_PARENT = True) tags its '!' lines with the property they concern
        shared = {r["tag"] for (s, r) in pairs if getattr(s, "FILTER_BY_PARENT", False)}
        sfails = [f for f in sfails if f[0] not in shared or any(f[2].startswith("! " + p) for p in prefixes)]
        fails += sfails; tot += stot; dist += sdist; samples = (samples + ssamples)[:14]
        ctx.cov["kinds"] = skinds
        ctx.cov["disagreements"] = sum(len(m) for (_, _, m, _) in corr)
        ctx.cov["traces_validated_against_impl"] = stot
        rule += "".join(" || sub-check %s: %s" % (s.__name__, s.RULE) for s in subs)
    ctx.cov.update({"evaluations": tot, "distinct_nontrivial": dist, "rule": rule, "samples": samples,
                    "search_stats": stats, "direct_failures": len(fails)})
    for s in subs:
        if getattr(s, "extra", None):
            s.extra(ctx, lib)
    V.standard_decide(ctx, proof_ok, corr, fails, getattr(mod, "classify", None))

def replay(ctx, path, prefixes, mod=None):
    """Re-run the bytes of a recorded search failure through every decoder entry point of the CURRENT tree (ASan+UBSan and O1 builds)."""
    import json, importlib
    d = json.load(open(path))
    for sn in getattr(mod, "SUBCHECKS", []) if mod else []:   # a case of a sub-check's own harness: that module replays it
        sm = importlib.import_module(sn)
        if any(r["tag"] == d.get("harness") for r in sm.corr_runs(ctx)):
            return V.standard_replay(ctx, sm, path)
    print(json.dumps({k: (v if len(str(v)) < 300 else str(v)[:300] + "...") for k, v in d.items()}, indent=1))
    case = d.get("case", "")
    toks = case.split()
    hx = toks[-1] if toks and re.fullmatch(r"[0-9a-f]+|-", toks[-1]) else None
    if hx is None:
        print("no input bytes in this replay file (proof / infrastructure violation): see 'failures'")
        return 0
    hexfile = os.path.join(V.BUILD, "replay_%s.hex" % ctx.prop)
    open(hexfile, "w").write(hx + "\n")
    env = {"ASAN_OPTIONS": "detect_leaks=0:allocator_may_return_null=1:abort_on_error=1", "UBSAN_OPTIONS": "halt_on_error=1:abort_on_error=1"}
    hit = []
    for fl in ("asan", "O1"):
        lib = V.build_repo(ctx, fl)
        h = V.build_harness(ctx, "dec", lib, fl)
        out = os.path.join(V.BUILD, "replay_%s_%s.out" % (ctx.prop, fl))
        V.sh([h, "one", hexfile, out], timeout=600, env=env)
        for l in open(out):
            if l.startswith("!") and any(l.startswith("! " + p) for p in prefixes):
                hit.append("[%s] %s" % (fl, l.strip()[:300]))
            elif l.startswith("# STATS"):
                print("[%s] %s" % (fl, l[2:].strip()))
    for l in hit:
        print(l)
    print("REPRODUCED" if hit else "not reproduced on the current tree")
    return 1 if hit else 0
