"""Shared by C02 / C03 / C18: the decoder robustness search (harness/h_dec.cc) on the real library, all methods +
legacy files, under ASan/UBSan and with the allocation monitor.  Each property picks its own '!' lines."""
import os, re
import vcheck as V

def run_dec_search(ctx, prefixes, flavours=("asan", "O1")):
    """returns (evaluations, distinct, fails [(tag, lineno, line)], samples, stats)"""
    tot = 0; dist = 0; fails = []; samples = []; stats = {}
    for fl in flavours:
        lib = V.build_repo(ctx, fl)
        h = V.build_harness(ctx, "dec", lib, fl)
        env = {"ASAN_OPTIONS": "detect_leaks=0:allocator_may_return_null=1:abort_on_error=1", "UBSAN_OPTIONS": "halt_on_error=1:abort_on_error=1",
               "DEC_TESTDATA": os.path.join(V.ROOT, "corpus", "C05")}
        seed = ctx.seed if fl == "asan" else ctx.seed + 1000   # different corruptions in the two builds
        n, mism, fl_fails, cases = V.run_cases(ctx, h, None, [ctx.tier, seed], "h_dec_" + fl, timeout=1500, env=env)
        for l in open(cases):
            if l.startswith("# STATS"):
                kv = dict(x.split("=") for x in l.split()[2:])
                stats[fl] = kv
                tot += int(kv["evaluations"]); dist += int(kv["distinct"])
            elif l.startswith("# SAMPLE") and len(samples) < 10:
                samples.append(l[2:].strip() + " [" + fl + "]")
        for (ln, line) in fl_fails:
            if any(line.startswith("! " + p) for p in prefixes):
                fails.append(("h_dec_" + fl, ln, line))
        ctx.say("h_dec[%s]: %s" % (fl, stats.get(fl)))
    return tot, dist, fails, samples, stats

def standard(ctx, mod, prefixes, rule):
    lib = V.build_repo(ctx, "O1")
    proof_ok = V.coq_check_properties(ctx, mod.PROP_FILE)
    ctx.say("proofs: %d/%d %s" % (ctx.proof["discharged"], ctx.proof["obligations"], "ok" if proof_ok else "BROKEN"))
    tot, dist, fails, samples, stats = run_dec_search(ctx, prefixes)
    ctx.cov.update({"evaluations": tot, "distinct_nontrivial": dist, "rule": rule, "samples": samples,
                    "search_stats": stats, "direct_failures": len(fails)})
    V.standard_decide(ctx, proof_ok, [], fails, getattr(mod, "classify", None))
