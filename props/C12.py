"""C12 — explicit quantization maps equal coordinates to equal decoded values."""
import re
import vcheck as V
LEVEL = "proof"
PROP_FILE = "Properties_C12.v"
RULE = ("h_C12: pairs of geometries sharing 1..12 coordinates (some on .5 rounding boundaries of the grid), each encoded separately by the "
        "real Encoder with SetAttributeExplicitQuantization (bits 1..22, thorough also 23..25; origin/range representable in six decimals), "
        "independently chosen method (sequential / kd-tree point cloud, sequential / Edgebreaker mesh), speed 0..10, private extra points and "
        "point order; per encode: the decoder's dequantization of the decoded integers vs the model (e2e, kd-tree loop or sequential loop) and "
        "per coordinate the decoded value vs the model's requant_f (rq), bit-exact. Search: decoded set = per-coordinate function of "
        "(x, origin, range, bits) evaluated on x alone, shared coordinates agree bit for bit across the two encodes, every decoded value is the "
        "grid point of its stored integer. h_C04 tie: the shared model's correspondence cases (Quantizer/Dequantizer/transform/parameter block). "
        "A case is distinct by its text.")

def corr_runs(ctx):
    vo = ["Model/Quantize.vo", "Base/Float32.vo", "Base/DriverSupport.vo"]
    return [dict(tag="h_C12", harness="C12", driver="C04", args=[ctx.tier, ctx.seed], needs_vo=vo),
            dict(tag="h_C04_tie", harness="C04", driver="C04", args=[ctx.tier, ctx.seed, "tie"], needs_vo=vo)]

def classify(line):
    # D13: Options stores explicit origin/range as "%f" text (six decimals)
    if line.startswith("! D13-explicit-params-rounded"):
        return "explicit-quantization-params-rounded-to-6-decimals"
    return None

def extra(ctx, lib):
    import os
    p = os.path.join(V.BUILD, "%s_h_C12.cases" % ctx.prop)
    try:
        for l in open(p):
            if l.startswith("# pairs="):
                for k, v in re.findall(r"(\w+)=(\d+)", l):
                    ctx.cov[k] = int(v)
    except OSError:
        pass

def run(ctx):
    V.standard_run(ctx, __import__(__name__))

def replay(ctx, path):
    return V.standard_replay(ctx, __import__(__name__), path)
