"""C17 — bit, varint and buffer primitives round-trip every value."""
import vcheck as V
import tieleaf
LEVEL = "proof"
PROP_FILE = "Properties_C17.v"
RULE = ("cases = varint/zig-zag/scalar encodes (exhaustive 8-bit; 16-bit exhaustive in thorough, every 7th in quick; boundary-biased "
        "32/64-bit) and decodes of arbitrary continuation-heavy byte strings; a case is distinct by its text "
        "(kind+arguments+result); every case encodes or decodes one value/byte string, so all count as non-trivial")

def corr_runs(ctx):
    return [dict(tag="h_C17", harness="C17", driver="C17", args=[ctx.tier, ctx.seed],
                 needs_vo=["Model/Varint.vo", "Model/BitBuffer.vo", "Model/Ans.vo", "Model/BitCoders.vo", "Model/AdaptiveProb.vo", "Base/DriverSupport.vo"])]

def extra(ctx, lib):
    # zig-zag leaves regenerated from the C++ and proved equal to the hand model (coq/Tie/Tie_Leaf.v)
    tieleaf.record(ctx, ["ConvertSignedIntToSymbol", "ConvertSymbolToSignedInt"])

def run(ctx):
    V.standard_run(ctx, __import__(__name__))

def replay(ctx, path):
    return V.standard_replay(ctx, __import__(__name__), path)
