"""C17 — bit, varint and buffer primitives round-trip every value."""
import vcheck as V
LEVEL = "proof"

def run(ctx):
    lib = V.build_repo(ctx, "O1")
    ctx.say("repo built:", lib)
    proof_ok = V.coq_check_properties(ctx, "Properties_C17.v")
    ctx.say("proofs:", ctx.proof["discharged"], "/", ctx.proof["obligations"], "ok" if proof_ok else "BROKEN")
    drv = V.build_driver(ctx, "C17", needs_vo=["Model/Varint.vo", "Base/DriverSupport.vo"])
    h = V.build_harness(ctx, "C17", lib)
    n, mism, fails, cases = V.run_cases(ctx, h, drv, [ctx.tier, ctx.seed], "main")
    ctx.say("correspondence: %d cases, %d disagreements, %d direct failures" % (n, len(mism), len(fails)))
    ctx.cov.update({
        "evaluations": n,
        "distinct_nontrivial": V.distinct_count(cases),
        "traces_validated_against_impl": n,
        "rule": "cases = varint/zig-zag/scalar encodes (exhaustive 8-bit, 16-bit exhaustive in thorough, boundary-biased 32/64-bit) "
                "and decodes of arbitrary continuation-heavy byte strings; a case is distinct by its text (kind+arguments+result); "
                "all are non-trivial (each exercises encode or decode of one value/byte string)",
        "samples": V.sample_lines(cases, 8),
        "kinds": V.kind_histogram(cases),
        "disagreements": len(mism),
    })
    V.standard_decide(ctx, proof_ok, [("h_C17", n, mism, cases)], [("h_C17", l, t) for (l, t) in fails])

def replay(ctx, path):
    import json
    r = json.load(open(path))
    print(json.dumps(r, indent=1))
    return 0
