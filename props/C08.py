"""C08 — symbol entropy coding is lossless and self-delimiting."""
import resource
import vcheck as V
import tieleaf
LEVEL = "proof"
PROP_FILE = "Properties_C08.v"
RULE = ("cases = EncodeSymbols on arrays of 1..1e5 symbols (uniform / skewed / constant / single-outlier / all-distinct / "
        "two-valued / zipf / bit-length ramp; values mostly below 2^20, some up to 2^32-1 (the 31/32-bit edge included); components 1..4; levels 0..10 and unset; "
        "forced tagged, forced raw, automatic), DecodeSymbols on the produced bytes + sentinel and on truncated / corrupted / "
        "re-laid-out (pre-2.0) / random bytes, RAnsSymbolEncoder<N>/RAnsSymbolDecoder<N> for N = 1..18 on histogram and "
        "adversarial frequency tables, two-symbol dyadic tables sweeping the 1/2/3-byte tail boundaries, Create alone on frequencies up to 2^58; "
        "rwa = the rANS write area: num_expected_bits_ (read from the encoder object), bytes written, bytes touched and bytes reserved by StartEncoding "
        "against the model (which also checks num_expected_bits_ against its fixed-point enclosure of the cross entropy and against the accuracy "
        "premise of C08_write_area_sufficient), on every direct case, on a quarter of the small arrays, on all large arrays and on the dominated "
        "arrays (one value + singletons / bit-length tags, 1e5..2.2e5 symbols); direct oracle on EVERY encode, run on a buffer with spare capacity "
        "before the library call: bytes touched <= bytes reserved; POLICY: the scheme byte and the raw unique-symbols bit length byte are read off the implementation's output and are inputs of the model encoder (es cases), the level -> bit-length function of the current code is tied by its own kind rbl against the harness replica, and an implementation that chooses another (decodable) bit length is reported as the # note raw-bit-length-policy and counted in generated.raw_bit_length_policy_diffs, not as a disagreement; a case is distinct by its text; all cases run the coder, so all count as non-trivial")

def corr_runs(ctx):
    return [dict(tag="h_C08", harness="C08", driver="C08", args=[ctx.tier, ctx.seed],
                 needs_vo=["Model/RansSymbol.vo", "Model/RansFloat.vo", "Model/SymbolCoding.vo", "Model/RansBound.vo", "Model/SymbolPolicy.vo", "Base/DriverSupport.vo"])]

def classify(line):
    return None

def extra(ctx, lib):
    import os
    p = os.path.join(V.BUILD, "%s_h_C08.cases" % ctx.prop)
    try:
        for l in open(p):
            if l.startswith("# cov "):
                ctx.cov["generated"] = dict(kv.split("=") for kv in l[6:].split())
    except OSError:
        pass
    # rANS precision selection regenerated from the C++ and proved equal to the hand model (coq/Tie/Tie_Leaf.v)
    tieleaf.record(ctx, ["ComputeRAnsPrecisionFromUniqueSymbolsBitLength", "ComputeRAnsPrecisionFromUniqueSymbolsBitLength_no_ub"])

def run(ctx):
    # the extracted model recurses along lists (tables of up to 2^22 entries): lift the stack limit for the driver
    try:
        soft, hard = resource.getrlimit(resource.RLIMIT_STACK)
        resource.setrlimit(resource.RLIMIT_STACK, (hard, hard))
    except (ValueError, OSError):
        pass
    V.standard_run(ctx, __import__(__name__))

def replay(ctx, path):
    return V.standard_replay(ctx, __import__(__name__), path)
