"""C07 — quantized normals decode to unit vectors within a bounded angle."""
import os
import re
import vcheck as V
LEVEL = "proof"
PROP_FILE = "Properties_C07.v"
RULE = ("correspondence cases (all compared exactly: (s,t) integers, decoded floats as uint32 bit patterns): OctahedronToolBox::"
        "FloatVectorToQuantizedOctahedralCoords<float> (fv) for every q=2..30 on random directions of all lengths (1e-30..3e38, around the "
        "1e-6 L1 threshold), axis / edge / face-centre neighbourhoods with ulp perturbations, vectors placed on the floor(x+0.5) boundaries of "
        "int_vec[0], int_vec[1] (incl. the abs-sum = c+1 repair branch), left-hemisphere edges (x = -0, tiny negative x), zero / -0 / denormal "
        "vectors, NaN / Inf components, raw random bit patterns; QuantizedOctahedralCoordsToUnitVector (uv) on every (s,t) of the square "
        "(+ a one-cell border) for q=2..5 (thorough ..7), on corners / edges / centre / diamond edges and random points for every q, and on "
        "hostile int32 pairs; IntegerVectorToQuantizedOctahedralCoords (iv: all vectors with abs sum c for q=2..5, random for every q); "
        "CanonicalizeIntegerVector<int32_t> (civ); whole AttributeOctahedronTransform runs (tf: SetParameters, EncodeParameters, "
        "DecodeParameters with a sentinel byte, TransformAttribute with and without point ids, InverseTransformAttribute; valid and invalid q); "
        "DecodeParameters on arbitrary bytes (dp); InverseTransformAttribute on arbitrary q and int32 pairs (it); per real Encoder/Decoder run "
        "(sequential point clouds, sequential and Edgebreaker meshes, speeds 0..10, default / difference / geometric-normal prediction, "
        "quantized and unquantized positions, identity and explicit value mapping, q=2..22 in volume, 23..25 once, thorough 26/28/30) the "
        "decoder's inverse transform of the integers it decoded (e2d) and the set of decoded (s,t) vs the model's quantization of the "
        "originals (e2q). A case is distinct by its text. Search ('!' lines) on the real library for every fv/tf/e2e value: (s,t) in the "
        "square and canonical, decoded vector finite, |len-1| <= 1e-6, and for finite input with L1 norm > 1e-6 the angle (atan2 of "
        "cross/dot in long double) <= 3*(2/(2^q-2)) + 2e-6; zero/denormal input gives the centre of the square (the x axis).")

def corr_runs(ctx):
    return [dict(tag="h_C07", harness="C07", driver="C07", args=[ctx.tier, ctx.seed],
                 needs_vo=["Model/Normals.vo", "Model/Octahedron.vo", "Model/Quantize.vo", "Base/Float32.vo", "Base/Float64.vo",
                           "Base/DriverSupport.vo"])]

def nontrivial(line):
    r = line.rstrip()
    return not (r.endswith("| fail") or r.endswith("| ub"))

def classify(line):
    # finite, non-zero, non-denormal input whose L1 norm is <= 1e-6: replaced by the x axis
    if line.startswith("! C07-tiny-l1 "):
        return "tiny-normal-l1-below-1e-6-becomes-x-axis"
    # explicit geometric-normal prediction with raw float positions: encode OK, stream undecodable (probed once per run)
    if line.startswith("! C07-e2e-geonormal-floatpos "):
        return "geometric-normal-prediction-with-unquantized-float-positions-undecodable"
    return None

def extra(ctx, lib):
    p = os.path.join(V.BUILD, "%s_h_C07.cases" % ctx.prop)
    try:
        for l in open(p):
            if l.startswith("# counts:"):
                for k, v in re.findall(r"(\w+)=([-\d.e+]+)", l):
                    try:
                        ctx.cov[k] = float(v) if ("." in v or "e" in v) else int(v)
                    except ValueError:
                        pass
            elif l.startswith("# per_q:"):
                ctx.cov["fv_cases_per_q_2_to_30"] = [int(x) for x in l.split()[2:]]
    except OSError:
        pass

def run(ctx):
    V.standard_run(ctx, __import__(__name__))

def replay(ctx, path):
    return V.standard_replay(ctx, __import__(__name__), path)
