"""C09 — reported encoded point/face counts equal what the decoder produces."""
import re
import vcheck as V
LEVEL = "proof"
PROP_FILE = "Properties_C09.v"
RULE = ("meshes are built directly as draco::Mesh objects (grids with holes, tori, single open/closed fans, random triangle soups, "
        "added non-manifold/flipped/degenerate faces, isolated points; 0..3 non-position attributes whose seams are placed per "
        "vertex/face at random; point ids deduplicated, one per corner, or partly duplicated, optionally shuffled) and encoded with "
        "Encoder and ExpertEncoder, sequential and Edgebreaker (standard/valence, speeds 0..10, split_mesh_on_seams unset/0/1), point "
        "clouds with sequential and kd-tree coders; every encode is decoded and reported==decoded is the search ('!' lines). Cases: "
        "eb = fans + attribute-corner-table labels read off the library's own CornerTable/MeshAttributeCornerTable, model "
        "enc_count/dec_points vs num_encoded_points()/decoded num_points(); rv = seam-edge flags per fan, model recompute_table vs "
        "the library's Vertex()/IsCornerOnSeam()/num_vertices(); fc = corner-table faces, model vs num_encoded_faces()/decoded "
        "num_faces(); seq/pc/api = identity counts. A case is distinct by its text; eb/rv/fc cases with at least one non-isolated "
        "vertex or face count as non-trivial, seq/pc/api cases are trivial by nature and are not counted")

# the Edgebreaker connectivity encoder model: count identities (symbols, split symbols, declared vertices/faces) and the executable
# encoder->decoder round trip (the tie of the open hypothesis H_conn) are part of this check
SUBCHECKS = ["EBENC"]

def corr_runs(ctx):
    return [dict(tag="h_C09", harness="C09", driver="C09", args=[ctx.tier, ctx.seed],
                 needs_vo=["Model/Fans.vo", "Base/DriverSupport.vo"])]

def nontrivial(line):
    k = line.split(" ", 1)[0]
    if k not in ("eb", "rv", "fc"):
        return False
    return re.search(r"[oc]/|\d,\d", line) is not None

def classify(line):
    # no known finding at present: D5 (point-id shortcut) is fixed in /repo (5df4cb2); every mismatch is a violation
    return None

def extra(ctx, lib):
    import os
    path = os.path.join(V.BUILD, "%s_%s.cases" % (ctx.prop, "h_C09"))
    stats = {}
    seam_fans = closed_seam = eb_seam_cases = 0
    try:
        with open(path) as f:
            for l in f:
                if l.startswith("# stats"):
                    for kv in l.split()[2:]:
                        k, _, v = kv.partition("=")
                        stats[k] = int(v)
                elif l.startswith("eb "):
                    r = l.rsplit(" | ", 1)[1].split()
                    nv = l.split(" ")[3].count(";") + 1
                    if int(r[0]) > nv - l.split(" ")[3].count("x") or int(r[1]) != int(r[0]):
                        eb_seam_cases += 1
                elif l.startswith("rv "):
                    for v in l.split(" ")[1].split(";"):
                        if "1" in v[2:]:
                            seam_fans += 1
                            if v.startswith("c/"):
                                closed_seam += 1
    except OSError:
        pass
    ctx.cov["generator_stats"] = stats
    ctx.cov["eb_cases_with_more_points_than_vertices"] = eb_seam_cases
    ctx.cov["rv_fans_with_interior_seam_edge"] = seam_fans
    ctx.cov["rv_closed_fans_with_seam_edge"] = closed_seam
    ctx.assumptions.append("H_conn (not proved, searched): the Edgebreaker decoder reconstructs a corner table with the same fans, "
                           "boundary flags and attribute seam edges as the encoder's; the theorems compare both counts on one cmesh")

def run(ctx):
    V.standard_run(ctx, __import__(__name__))

def replay(ctx, path):
    return V.standard_replay(ctx, __import__(__name__), path)
