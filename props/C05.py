"""C05 — existing bitstreams keep decoding to the same geometry, in the same order."""
import vcheck as V
LEVEL = "proof"
PROP_FILE = "Properties_C05.v"
RULE = ("frozen corpus corpus/C05 (25 legacy streams of bitstream versions 1.1..2.2 shipped in testdata + 177 streams frozen from the "
        "current encoder over all methods / speeds / prediction schemes / attribute layouts) decoded by the CURRENT decoder: the ordered "
        "digest (points, faces, every attribute value in point order, metadata) must equal the frozen one ('!' line otherwise); plus the "
        "version gate for all 2 x 65536 (major, minor) pairs, implementation vs model; a case is distinct by its text")
NEEDS = ["Model/SeqCodecInst.vo", "Base/DriverSupport.vo"]

def corr_runs(ctx):
    return [dict(tag="h_c05", harness="c05", driver="seq", args=[ctx.tier, ctx.seed], needs_vo=NEEDS)]

def extra(ctx, lib):
    import os
    p = os.path.join(V.BUILD, "C05_h_c05.cases")
    vers = [l[2:].strip() for l in open(p) if l.startswith("# VERSION") or l.startswith("# STATS")]
    ctx.cov["corpus"] = vers

def run(ctx):
    V.standard_run(ctx, __import__(__name__))

def replay(ctx, path):
    return V.standard_replay(ctx, __import__(__name__), path)
