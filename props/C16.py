"""C16 — prediction-correction transforms are exactly invertible for any prediction."""
import re
import vcheck as V
import tieleaf
LEVEL = "proof"
PROP_FILE = "Properties_C16.v"
RULE = ("cases = calls of the real header templates (PredictionSchemeWrap{Encoding,Decoding}Transform<int32_t>, the canonicalized and the "
        "plain octahedron transforms, OctahedronToolBox leaves) whose integer results must equal the extracted Coq model: wrap: every "
        "(min,max,orig,pred) for ranges of width <= 6 with pred in [-40,40] and at the int32 limits, the same ranges pushed against "
        "INT_MIN/INT_MAX, boundary-biased random 32-bit tuples (ranges [1,2^31-1], [-2^31,-2], widest legal ranges, predictions at the wrap "
        "thresholds), hostile corrections, decoder initialisation on arbitrary transform data; octahedron: every original x every prediction "
        "of the square for q=2..4 (q=5: all pairs checked on the implementation, 1/16 of them also against the model in quick, all in "
        "thorough; q=6 thorough only), boundary-biased random pairs for every q up to 30, hostile corrections, each leaf function on "
        "arbitrary int32 arguments inside its no-UB domain. A case is distinct by its text; every case evaluates one function on one "
        "argument tuple, so all count as non-trivial")

# leaf functions regenerated from the C++ by tools/leaf_translate.py and proved equal to the hand model (coq/Tie/Tie_Leaf.v)
TIE_LEAF = ["ModMax", "ModMax_no_ub", "MakePositive", "IsInDiamond", "IsInDiamond_no_ub", "InvertDiamond",
            "CanonicalizeOctahedralCoords", "CanonicalizeOctahedralCoords_no_ub", "SetQuantizationBits", "SetQuantizationBits_no_ub",
            "IsInBottomLeft", "GetRotationCount", "RotatePoint", "RotatePoint_no_ub", "AddAsUnsigned",
            "ClampPredictedValue", "InitCorrectionBounds", "InitCorrectionBounds_no_ub"]

def corr_runs(ctx):
    return [dict(tag="h_C16", harness="C16", driver="C16", args=[ctx.tier, ctx.seed],
                 needs_vo=["Model/Wrap.vo", "Model/Octahedron.vo", "Base/DriverSupport.vo"])]

def extra(ctx, lib):
    # distribution counters the harness writes as '#' notes
    import os
    path = os.path.join(V.BUILD, "%s_%s.cases" % (ctx.prop, "h_C16"))
    notes = []
    try:
        with open(path) as f:
            for l in f:
                if l.startswith("#"):
                    notes.append(l[1:].strip())
    except OSError:
        pass
    ctx.cov["harness_notes"] = notes
    for n in notes:
        m = re.match(r"counts: wrap round trips (\d+), wrap hostile decodes (\d+), octahedron pairs with canonical original (\d+), "
                     r"with non-canonical original (\d+), hostile octahedron decodes (\d+)", n)
        if m:
            ctx.cov["roundtrips_checked_on_impl"] = {"wrap": int(m.group(1)), "octahedron_canonical_orig": int(m.group(3)),
                                                     "octahedron_noncanonical_orig": int(m.group(4)),
                                                     "hostile_decodes": int(m.group(2)) + int(m.group(5))}
    tieleaf.record(ctx, TIE_LEAF)

def run(ctx):
    V.standard_run(ctx, __import__(__name__))

def replay(ctx, path):
    return V.standard_replay(ctx, __import__(__name__), path)
