"""C18 — decoder memory is bounded by stream length and declared element counts."""
import vcheck as V, decsearch
LEVEL = "proof"
PROP_FILE = "Properties_C18.v"
RULE = ("valid streams of every method (sequential / Edgebreaker standard+valence / kd-tree, speeds 0..10, forced prediction schemes, "
        "built-in compression on/off) + the 25 legacy files (bitstream 1.1..2.2) through DecodeMeshFromBuffer / DecodePointCloudFromBuffer / "
        "DecodeBufferToGeometry / GetEncodedGeometryType / skip-transform, then truncations, byte / bit / 32-bit / varint patterns, multi-site, "
        "version and type rewrites, splices, insertions/deletions; each decode in a forked worker under ASan+UBSan with a watchdog; input "
        "buffer compared before/after; distinct = distinct (bytes, entry point)")
# semantic stream mutations of Edgebreaker streams through the public decoder (shared search sub-check: its lines are tagged per property)
SUBCHECKS = ["HOSTILE"]
def classify(line):
    if line.startswith("! C18-kdtree-decoder-stacks-quadratic-in-declared-dimension"):
        return "kdtree-decoder-stacks-quadratic-in-declared-dimension"
    return None
def run(ctx):
    decsearch.standard(ctx, __import__(__name__), ["C18"], RULE)
def replay(ctx, path):
    return decsearch.replay(ctx, path, ["C18"], __import__(__name__))
