"""C14 — deduplication, cleanup and the mesh/point-cloud builders change the representation only."""
import vcheck as V
LEVEL = "proof"
PROP_FILE = "Properties_C14.v"
RULE = ("cases = one call of PointAttribute::DeduplicateValues (dv), PointCloud/Mesh::DeduplicateAttributeValues (dav), "
        "DeduplicatePointIds (dpi), MeshCleanup::Cleanup (cl, all 16 option subsets on every generated mesh, with and without a "
        "POSITION attribute, POSITION not always attribute 0), TriangleSoupMeshBuilder (soup: corner values of grids, fans, strips and "
        "random indexed meshes, per-face / per-corner / per-vertex attributes, faces set in random order) and PointCloudBuilder (pcb), "
        "plus the chains dav->dpi and soup->cl on the resulting geometry. Geometries: 0..250 points (mostly < 40), 0..5 attributes, "
        "every DataType 1..11, 1..5 components, identity and explicit maps (repeated indices, unused values, maps longer than the point "
        "count), values drawn from pools of 1..6 values (float32 pools contain +0.0, -0.0, two NaN bit patterns, 1.0; pool members often "
        "differ in one component or one bit) or all distinct; meshes contain point- and position-degenerate faces, exact/rotated/mirrored "
        "duplicate faces, isolated points. Every case is compared as text with the Coq model's result (values as hex bytes, maps, faces). "
        "Direct checks on the implementation per case: point/corner value bytes preserved, no equal values / equal points left, "
        "idempotence, cleanup result against an independent computation from the documented semantics, builder results carry the given "
        "bytes; MeshStripifier (strip r / strip d cases, both modes, on every soup result and on designed meshes: grids, fans, long strips, closed bands, "
        "tori, tetra/octahedra, Moebius bands, k faces on an edge, bow-ties, random non-manifold soups, several components, attribute seams, point- and "
        "position-degenerate faces, 0/1 faces, and arbitrary geometries with a POSITION attribute): index stream compared with the model's (Model/Strips.v, the "
        "library's opposite-corner table is an input of the model; a stream that differs but decodes to the same triangles counts as a free choice of the "
        "heuristic, not as a disagreement), the single hypothesis of the strip theorems (the table is a symmetric pairing of existing corners) evaluated on the "
        "library's table in every case, and the full clause checked directly: the library's stream is decoded by the harness (restart: runs with alternating "
        "winding; degenerate: one strip, triangles with two equal indices dropped) and must give the mesh's triangles as a multiset up to rotation, in point ids "
        "and in per-corner attribute bytes. A case is distinct by "
        "its text; all cases count as non-trivial (each runs one library operation on a generated geometry)")


def corr_runs(ctx):
    return [dict(tag="h_C14", harness="C14", driver="C14", args=[ctx.tier, ctx.seed],
                 needs_vo=["Model/Dedup.vo", "Model/Cleanup.vo", "Model/Strips.vo", "Base/DriverSupport.vo"])]


def classify(line):
    if line.startswith("! KNOWN-D14 dedup-more-than-4-components"):
        return "dedup-more-than-4-components"
    if line.startswith("! KNOWN dedup-unsupported-data-type"):
        return "dedup-unsupported-data-type"
    return None


def extra(ctx, lib):
    # distribution counters printed by the harness as '# ...' notes
    import os
    p = os.path.join(V.BUILD, "%s_h_C14.cases" % ctx.prop)
    if os.path.exists(p):
        notes = []
        with open(p) as f:
            for l in f:
                if l.startswith("# "):
                    notes.append(l[2:].rstrip("\n"))
        ctx.cov["harness_notes"] = notes


def _decode(stream, mode):
    """index stream -> sorted multiset of triangles (rotation-canonical, orientation kept); mode 'r': 'R' separates
    strips; mode 'd': one strip, triangles with two equal indices are dropped."""
    if stream in ("-", ""):
        return []
    toks = stream.split(",")
    segs = [[]]
    for t in toks:
        if t == "R":
            segs.append([])
        else:
            segs[-1].append(int(t))
    out = []
    for g in segs:
        for j in range(len(g) - 2):
            t = (g[j + 1], g[j], g[j + 2]) if j & 1 else (g[j], g[j + 1], g[j + 2])
            if mode == "d" and len(set(t)) < 3:
                continue
            k = t.index(min(t))
            # rotation-canonical: start at the first smallest id that gives the smallest rotation
            out.append(min((t[i], t[(i + 1) % 3], t[(i + 2) % 3]) for i in range(3)))
    return sorted(out)


def _strip_policy_difference(impl_line, model_line):
    """The property leaves the choice of strips free (greedy heuristic, tie-breaking): an index stream that differs
    from the model's but decodes to the same triangles is not a disagreement about the property."""
    try:
        la, ra = impl_line.split(" | ")
        lb, rb = model_line.split(" | ")
        if not la.startswith("strip ") or la != lb:
            return False
        if "fail" in (ra, rb) or "HYPOTHESIS" in rb:
            return False
        mode = la.split(" ")[1]
        return _decode(ra.strip(), mode) == _decode(rb.strip(), mode)
    except Exception:
        return False


def run(ctx):
    orig = V.run_cases

    def filtered(*a, **k):
        n, mism, fails, cases = orig(*a, **k)
        keep = [m for m in mism if not _strip_policy_difference(m[1], m[2])]
        ctx.cov["strip_streams_different_from_model_but_decoding_equal"] = len(mism) - len(keep)
        return n, keep, fails, cases
    V.run_cases = filtered
    try:
        V.standard_run(ctx, __import__(__name__))
    finally:
        V.run_cases = orig


def replay(ctx, path):
    return V.standard_replay(ctx, __import__(__name__), path)
