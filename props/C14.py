"""C14 — deduplication, cleanup and the mesh/point-cloud builders change the representation only."""
import vcheck as V
LEVEL = "proof"
PROP_FILE = "Properties_C14.v"
RULE = ("cases = one call of PointAttribute::DeduplicateValues (dv), PointCloud/Mesh::DeduplicateAttributeValues (dav), "
        "DeduplicatePointIds (dpi), MeshCleanup::Cleanup (cl, all 16 option subsets on every generated mesh, with and without a "
        "POSITION attribute, POSITION not always attribute 0), TriangleSoupMeshBuilder (soup: corner values of grids, fans, strips and "
        "random indexed meshes, per-face / per-corner / per-vertex attributes, faces set in random order) and PointCloudBuilder (pcb), "
        "plus the chains dav->dpi and soup->cl on the resulting geometry. Geometries: 0..250 points (mostly < 40), 0..5 attributes, "
        "every DataType 1..11, 1..5 components, identity and explicit maps (repeated indices, unused values, maps longer than the point "
        "count), values drawn from pools of 1..6 values (float32 pools contain +0.0, -0.0, two NaN bit patterns, 1.0; pool members often "
        "differ in one component or one bit) or all distinct; meshes contain point- and position-degenerate faces, exact/rotated/mirrored "
        "duplicate faces, isolated points. Every case is compared as text with the Coq model's result (values as hex bytes, maps, faces). "
        "Direct checks on the implementation per case: point/corner value bytes preserved, no equal values / equal points left, "
        "idempotence, cleanup result against an independent computation from the documented semantics, builder results carry the given "
        "bytes; MeshStripifier output (both modes) decodes to the mesh's triangles (implementation only, no model). A case is distinct by "
        "its text; all cases count as non-trivial (each runs one library operation on a generated geometry)")


def corr_runs(ctx):
    return [dict(tag="h_C14", harness="C14", driver="C14", args=[ctx.tier, ctx.seed],
                 needs_vo=["Model/Dedup.vo", "Model/Cleanup.vo", "Model/Strips.vo", "Base/DriverSupport.vo"])]


def classify(line):
    if line.startswith("! KNOWN-D14 dedup-more-than-4-components"):
        return "dedup-more-than-4-components"
    if line.startswith("! KNOWN dedup-unsupported-data-type"):
        return "dedup-unsupported-data-type"
    return None


def extra(ctx, lib):
    # distribution counters printed by the harness as '# ...' notes
    import os
    p = os.path.join(V.BUILD, "%s_h_C14.cases" % ctx.prop)
    if os.path.exists(p):
        notes = []
        with open(p) as f:
            for l in f:
                if l.startswith("# "):
                    notes.append(l[2:].rstrip("\n"))
        ctx.cov["harness_notes"] = notes


def run(ctx):
    V.standard_run(ctx, __import__(__name__))


def replay(ctx, path):
    return V.standard_replay(ctx, __import__(__name__), path)
