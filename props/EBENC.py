"""EBENC — the Edgebreaker connectivity ENCODER state machine and the encoder->decoder round trip of the connectivity
(sub-check of C01; hypothesis H_conn of C09)."""
import os, re
import vcheck as V
LEVEL = "proof"
PROP_FILE = "Properties_EBENC.v"
# the encoder->decoder simulation (round trip for the classes proved so far) is checked together with the encoder theorems
PROP_FILES = ["Properties_EBENC.v", "Properties_EBSIM.v"]
RULE = ("cases = meshes of many shapes (tetrahedron, octahedron, single triangle, discs, grids with holes, cylinders, tori incl. "
        "multi-edge tori, genus 2/3 surfaces (tori with tube handles), fans, several components, dense random face sets over few "
        "vertices, pillow / duplicated / mirrored faces, bow-ties, edges shared by 3+ faces, vertex identifications, degenerate faces, "
        "isolated vertices, only-degenerate meshes, seams between point ids with and without split_mesh_on_seams, 0/1 generic attribute, "
        "speeds 0/5/7, standard and valence traversal; plus 500 (4000 thorough) dense random face sets over 3-7 vertices) built WITHOUT de-duplication and encoded by the REAL "
        "MeshEdgebreakerEncoderImpl<TE> (ASan+UBSan build; template instantiated in the harness with recording subclasses of the real traversal "
        "encoders): declared vertex/face/symbol/split counts, symbols, topology split events, start-face bits and "
        "processed_connectivity_corners_ must equal the Coq model encoder's run on the table the C13 model of CornerTable::Create "
        "builds from the same triangle list; the stream is decoded by the REAL MeshEdgebreakerDecoder and its GetCornerTable() must "
        "be (a) the encoder's table up to eb_iso (face bijection + rotation fixed by processed_connectivity_corners_, vertex "
        "bijection, Opposite carried over, boundary flags) - checked in the harness - and (b) equal, corner by corner, to the table "
        "the MODEL decoder (eb_full) builds from the MODEL encoder's output, on which the proved checker eb_iso_b must say true.  "
        "'!' lines: encoder table != Create(face list), encode failing on a mesh with a non-degenerated face, count identities "
        "(symbols + interior start faces = faces, S symbols = num_split_symbols_), a decoder header guard rejecting the encoder's "
        "counts, decode failure, round-trip table not isomorphic, boundary flag changed.  A case is distinct by its text; "
        "non-trivial = encode succeeded")

def corr_runs(ctx):
    env = {"ASAN_OPTIONS": "detect_leaks=0:allocator_may_return_null=1:abort_on_error=1",
           "UBSAN_OPTIONS": "halt_on_error=1:abort_on_error=1"}
    return [dict(tag="h_ebenc", harness="ebenc", driver="ebenc", args=[ctx.tier, ctx.seed], flavour="asan", env=env,
                 needs_vo=["Model/EbEncoder.vo", "Model/Edgebreaker.vo", "Model/CornerTable.vo", "Base/DriverSupport.vo"], timeout=3000)]

def nontrivial(line):
    return "| ok " in line

def extra(ctx, lib):
    p = os.path.join(V.BUILD, "%s_h_ebenc.cases" % ctx.prop)
    try:
        with open(p) as f:
            for l in f:
                if l.startswith("# meshes="):
                    for k, v in re.findall(r"(\w+)=(\d+)", l):
                        ctx.cov[k] = int(v)
    except OSError:
        pass

def run(ctx):
    V.standard_run(ctx, __import__(__name__))

def replay(ctx, path):
    return V.standard_replay(ctx, __import__(__name__), path)
