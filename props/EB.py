"""EB — the Edgebreaker connectivity decoder state machine (C03 / C02 / C01 groundwork)."""
import os, re
import vcheck as V
LEVEL = "proof"
PROP_FILE = "Properties_EB.v"
RULE = ("cases = runs of the REAL MeshEdgebreakerDecoderImpl<TD>::DecodeConnectivity (template instantiated in the harness, "
        "ASan+UBSan build) compared exactly (returned vertex count, corner_to_vertex_map_, opposite_corners_, vertex_corners_, "
        "is_vert_hole_, init corners) with the Coq model: (1) valid streams: meshes of many shapes (tetrahedron, octahedron, grids "
        "with holes, cylinders, tori, fans, several components, non-manifold identifications) encoded by the real encoder and decoded "
        "with the real traversal decoder wrapped to record symbols / split events / start-face bits; (2) hostile scripts through a "
        "scripted traversal decoder: ALL symbol lists up to length 5 (6 in thorough; the longest length sampled) with no event and with every single "
        "L/R/E->S split event, mutations of the valid scripts (symbols, events, bits, declared counts), random scripts, valid prefixes cut at a random point and extended by hostile symbols chosen (with the real decoder as oracle) so that the symbol loop stays alive, vertex-budget overflow scripts; about a "
        "quarter go through the real header parser (also with num_attribute_data = 1..3 and hostile attribute-seam bits: kind fulla compares the corner table, kind apc compares AssignPointsToCorners' deduplication result - num_points and all face indices - with the model, given the attribute corner tables the real decoder built) DecodeConnectivity() (kind full), the rest call DecodeConnectivity(int) on a fresh "
        "table with arbitrary event lists (kind core).  Each script runs in a forked child with a 20 s watchdog: crash / sanitizer "
        "report / hang / accepted-but-invalid table (ids, Opposite involution, left-most corners, and: EVERY pair of opposite corners - symbol "
        "faces and, since the guard Vertex(Previous(corner_a)) == vert_p of /repo a3a73f7, interior start faces - shares its edge) are '!' lines.  A case is distinct by its text; non-trivial = accepted")

def corr_runs(ctx):
    env = {"ASAN_OPTIONS": "detect_leaks=0:allocator_may_return_null=1:abort_on_error=1",
           "UBSAN_OPTIONS": "halt_on_error=1:abort_on_error=1"}
    return [dict(tag="h_eb", harness="eb", driver="eb", args=[ctx.tier, ctx.seed], flavour="asan", env=env,
                 needs_vo=["Model/Edgebreaker.vo", "Base/DriverSupport.vo"], timeout=3000)]

def nontrivial(line):
    return "| acc " in line

def extra(ctx, lib):
    p = os.path.join(V.BUILD, "%s_h_eb.cases" % ctx.prop)
    try:
        with open(p) as f:
            for l in f:
                if l.startswith("# valid streams") or l.startswith("# hostile scripts"):
                    for k, v in re.findall(r"(\w+)=(\d+)", l):
                        ctx.cov[("valid_" if l.startswith("# valid") else "hostile_") + k] = int(v)
    except OSError:
        pass

def run(ctx):
    V.standard_run(ctx, __import__(__name__))

def replay(ctx, path):
    return V.standard_replay(ctx, __import__(__name__), path)
