"""HOSTILE — every single-value SEMANTIC corruption of small Edgebreaker streams through the full public decoder
(search-only sub-check of C02 / C03 / C18; harness/h_hostile.cc).  Every '!' line starts with "! C02", "! C03" or "! C18"
(exactly like h_dec's; suffixed tags: "C02-SELFCHECK" = the harness's own serialiser / simulation no longer reproduces the real
encoder, "C03-unreferenced-point-after-misglued-interior-start-face" = the class of defect D24, fixed in /repo a3a73f7).
FILTER_BY_PARENT: a property that lists HOSTILE in SUBCHECKS takes the lines with its own prefix (props/decsearch.py);
run standalone (./check HOSTILE) all of them count."""
import os, re, json
import vcheck as V
LEVEL = "proof"
# the one question the search raised that could be proved instead of searched: on the position corner table of an accepted stream a
# corner without right corner is the left-most corner of its vertex (DepthFirstTraverser's unchecked GetRightCorner is safe there).
# (The serialiser of the harness is the C++ port of TRAV's enc_conn, coq/Model/EbTraversal.v, and is validated by its self-check.)
PROP_FILE = "Properties_HOSTILE.v"
FILTER_BY_PARENT = True
RULE = ("cases = valid Edgebreaker streams of small meshes (tetrahedron, octahedron, grids with holes, cylinder, tori incl. multi-edge "
        "torus, fans, strips, pillow, several components, non-manifold identifications; <= 40 faces) produced by the REAL encoder through "
        "recording traversal encoders: both traversal methods (standard / valence), 0..3 attribute data (tex coords, normals, per-face "
        "generic; per-corner attributes with seams), speeds 0/1/2/3/5/7/10 = prediction-degree and depth-first traversal, single "
        "connectivity, parallelogram / constrained multi-parallelogram / tex-coords-portable / geometric-normal / difference prediction, "
        "quantized float and integer positions.  The connectivity section is parsed into a script (5 declared counts, symbols, split "
        "events, start-face bits, seam bits per attribute); the harness's serialiser (C++ port of TRAV's enc_conn, built on the library's "
        "bit / rANS-bit / symbol coders) must reproduce the encoder's bytes from the unmodified script (SELFCHECK 1), and for the valence "
        "method the six context lists re-derived by running the REAL decoder template with a scripted valence traversal decoder must equal "
        "the encoder's (SELFCHECK 2).  Mutations, each re-serialised with the ORIGINAL attribute sections spliced behind: every symbol -> "
        "each other symbol (C/S/L/R/E); every start-face bit flipped (with and without re-deriving num_faces); every seam bit flipped; every "
        "split event's source id +-1, split id +-1, edge bit flipped, event removed; events added (all (source, split<=source) pairs of "
        "short scripts, a sample otherwise, both edges); each of the 5 declared counts -1, +1, 0, 1000, 2n+1, 2^31-1, 2^32-1; a symbol "
        "removed / inserted with the counts re-derived (event ids shifted or not); every byte of the attribute-decoder identification "
        "(number of decoders, attribute data id, decoder type, traversal method) set to 0,1,2,3,0x7f,0x80,0xff,+-1; random PAIRS of the "
        "above; TARGETED scripts built from scratch on donor streams whose value counts fit: the two witnesses of Properties_EB.v (degenerate "
        "faces through S, interior start face glued to non-matching edges), every symbol list up to length 5 (6 thorough) with no / every "
        "single split event and exterior / interior start faces, scripts grown symbol by symbol with the real decoder as liveness oracle "
        "(weights favour S with split events = vertex merges, and E), selected by an in-process probe of the real DecodeConnectivity() "
        "that records degenerate faces, mis-glued start faces and evaluates the hypothesis of the attribute traversers on the accepted "
        "position and attribute corner tables (an interior vertex with a corner lacking a right corner; a bounds-checked copy of "
        "DepthFirstTraverser).  Every stream goes through Decoder::DecodeMeshFromBuffer (and, when accepted, again with "
        "SetSkipAttributeTransform) in a forked child of the ASan+UBSan build with a watchdog and the allocation monitor.  '!' lines: "
        "crash / sanitizer report / hang / input bytes modified / bad_alloc without a large declared count (C02); accepted but "
        "structurally invalid geometry: face index >= num_points, point maps to a missing value, attribute buffer too small (C03); "
        "allocation above 4096*len + 4096*declared + 24 MiB (C18).  A case line is one stream: distinct by (class, base stream, parameters); "
        "non-trivial = the connectivity section was accepted (the traversal / point assignment / attribute stage ran)")

ENV = {"ASAN_OPTIONS": "detect_leaks=0:allocator_may_return_null=1:abort_on_error=1",
       "UBSAN_OPTIONS": "halt_on_error=1:abort_on_error=1"}

def corr_runs(ctx):
    runs = [dict(tag="h_hostile", harness="hostile", driver=None, args=[ctx.tier, ctx.seed], flavour="asan", env=ENV, timeout=3000)]
    if ctx.tier == "thorough":
        # the plain build with other random choices (meshes, quantization, pairs, grown scripts): C03 / C18 oracles, hard crashes, hangs
        runs.append(dict(tag="h_hostile_O1", harness="hostile", driver=None, args=[ctx.tier, ctx.seed + 1000], flavour="O1", timeout=3000))
    return runs

def nontrivial(line):
    return line.rstrip().endswith("| acc") or line.rstrip().endswith("| rej-after-connectivity")

def extra(ctx, lib):
    for tag in ("h_hostile", "h_hostile_O1"):
        _extra_one(ctx, tag)

def _extra_one(ctx, tag):
    p = os.path.join(V.BUILD, "%s_%s.cases" % (ctx.prop, tag))
    classes = {}
    sfx = "" if tag == "h_hostile" else "_O1"
    try:
        with open(p) as f:
            for l in f:
                if l.startswith("# CLASS "):
                    name = l.split()[2]
                    classes[name] = {k: int(v) for k, v in re.findall(r"(\w+)(?:\([^)]*\))?=(\d+)", l)}
                elif l.startswith("# STATS ") or l.startswith("# TARGETED ") or l.startswith("# h_hostile "):
                    key = "hostile_" + l.split()[1].lower() + sfx
                    ctx.cov[key] = {k: int(v) for k, v in re.findall(r"(\w+)(?:\([^)]*\))?=(\d+)", l)}
                elif l.startswith("# SELFCHECK "):
                    ctx.cov["hostile_selfcheck" + sfx] = l[2:].strip()
    except OSError:
        pass
    if classes:
        ctx.cov["hostile_classes" + sfx] = classes

def run(ctx):
    V.standard_run(ctx, __import__(__name__))

def replay(ctx, path):
    """Re-run the bytes of a recorded failure (last token of the case line) through the public decoder of the CURRENT tree."""
    d = json.load(open(path))
    print(json.dumps({k: (v if len(str(v)) < 400 else str(v)[:400] + "...") for k, v in d.items()}, indent=1))
    toks = d.get("case", "").split()
    hx = toks[-1] if toks and re.fullmatch(r"[0-9a-f]+", toks[-1]) else None
    if hx is None:
        print("no input bytes in this replay file (self-check / infrastructure / proof violation): see the recorded case")
        return 0
    hexfile = os.path.join(V.BUILD, "replay_%s.hex" % ctx.prop)
    open(hexfile, "w").write(hx + "\n")
    lib = V.build_repo(ctx, "asan")
    h = V.build_harness(ctx, "hostile", lib, "asan")
    out = os.path.join(V.BUILD, "replay_%s_hostile.out" % ctx.prop)
    V.sh([h, "one", hexfile, out], timeout=600, env=ENV)
    hit = []
    for l in open(out):
        if l.startswith("!"):
            hit.append(l.strip()[:400])
        elif l.startswith("#"):
            print(l[2:].strip()[:300])
    for l in hit:
        print(l)
    print("REPRODUCED" if hit else "not reproduced on the current tree")
    return 1 if hit else 0
