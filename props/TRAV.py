"""TRAV — the serialisation layer of the Edgebreaker connectivity stream (sub-check of C01; C06; decoder side C02/C03)."""
import os, re
import vcheck as V
LEVEL = "proof"
PROP_FILE = "Properties_TRAV.v"
RULE = ("cases = (1) meshes of many shapes (tetrahedron, octahedron, single triangle, grids with holes, cylinders, tori incl. "
        "multi-edge tori, fans, several components, duplicated faces, non-manifold identifications, 0..2 generic attributes with "
        "seams, 127/128/129 attribute data = the encoder's limit) encoded by the REAL Edgebreaker encoder for both traversal "
        "methods through recording subclasses of the real traversal encoders (implementation templates instantiated in the "
        "harness): the model encoder must reproduce the bytes of the connectivity section from the recorded symbols / events / "
        "bits / (context, symbol) pairs (kinds enc_std, enc_val); the real decoder (recording subclasses of the real traversal "
        "decoders) and the model decoder must agree on header, events, symbols, start-face bits, seam bits, context lists and "
        "the number of unread bytes (kind dec), and the model's valence bookkeeping run on the recorded NewActiveCornerReached/"
        "MergeVertices calls must reproduce the decoder's symbols and contexts (kind vrun); (2) hostile sections: the valid "
        "sections mutated (bit flips, boundary bytes, truncation, insertion, deletion, other traversal method, rewritten header "
        "counts/event blocks around every guard) through the real DecodeConnectivity() up to Start(), then a drain of arbitrary "
        "numbers of symbols/bits incl. reads past the end of the data, each batch in a forked child with a watchdog (ASan+UBSan build).  "
        "'!' lines: decoder's symbol sequence reversed != encoder's, start/seam bits or events differ, consumption not exact, "
        "official API stream differs from the recording encoder's, premises of the theorems violated by the real encoder "
        "(split > source id, symbol outside CSLRE, valence: last symbol not E, pair not carrying the previous symbol, "
        "ctx_agree, contexts not consumed exactly), crash/hang.  A case is distinct by its text; non-trivial = not 'rej'")

def corr_runs(ctx):
    env = {"ASAN_OPTIONS": "detect_leaks=0:allocator_may_return_null=1:abort_on_error=1",
           "UBSAN_OPTIONS": "halt_on_error=1:abort_on_error=1"}
    return [dict(tag="h_trav", harness="trav", driver="trav", args=[ctx.tier, ctx.seed], flavour="asan", env=env,
                 needs_vo=["Model/EbTraversal.vo", "Base/DriverSupport.vo"], timeout=3000)]

def nontrivial(line):
    return not line.rstrip().endswith("| rej")

def extra(ctx, lib):
    p = os.path.join(V.BUILD, "%s_h_trav.cases" % ctx.prop)
    try:
        with open(p) as f:
            for l in f:
                if l.startswith("# valid streams") or l.startswith("# hostile sections"):
                    for k, v in re.findall(r"(\w+)=(\d+)", l):
                        ctx.cov[("valid_" if l.startswith("# valid") else "hostile_") + k] = int(v)
    except OSError:
        pass

def run(ctx):
    V.standard_run(ctx, __import__(__name__))

def replay(ctx, path):
    return V.standard_replay(ctx, __import__(__name__), path)
