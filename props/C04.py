"""C04 — quantization error is at most half a step (+ float32 allowance)."""
import re
import vcheck as V
LEVEL = "proof"
PROP_FILE = "Properties_C04.v"
RULE = ("correspondence cases: Quantizer/Dequantizer calls (qf, qfd, df: q=1..30, ranges 1e-6..1e9, negative/zero ranges, values at and "
        "next to .5 rounding boundaries, max_q<=0), ComputeParameters on 1..4-component attributes incl. NaN/Inf/overflowing extents (cp), "
        "whole AttributeQuantizationTransform runs with automatic and explicit parameters, both GeneratePortableAttribute overloads, "
        "EncodeParameters/DecodeParameters and InverseTransformAttribute (tf), arbitrary/truncated parameter blocks (dp), and per real "
        "Encoder/Decoder run (sequential + kd-tree point clouds, sequential + Edgebreaker meshes, speeds 0..10, q=1..22, thorough also 23..26) "
        "the decoder's dequantization of the decoded integers (e2e) and the set of decoded integers vs the quantized originals (e2q); all compared "
        "bit-exactly (float bit patterns as uint32). A case is distinct by its text. Search: the half-step bound with K=4 ulp and the box "
        "bound are evaluated on every in-box value of every tf/e2e case on the real library.")

def corr_runs(ctx):
    return [dict(tag="h_C04", harness="C04", driver="C04", args=[ctx.tier, ctx.seed],
                 needs_vo=["Model/Quantize.vo", "Base/Float32.vo", "Base/DriverSupport.vo"])]

def nontrivial(line):
    return not line.rstrip().endswith("| fail")

def extra(ctx, lib):
    # counters the harness wrote as a comment line
    import os
    p = os.path.join(V.BUILD, "%s_h_C04.cases" % ctx.prop)
    try:
        for l in open(p):
            if l.startswith("# e2e_encodes="):
                for k, v in re.findall(r"(\w+)=([-\d.e+]+)", l):
                    ctx.cov[k] = float(v) if "." in v else int(v)
    except OSError:
        pass

def run(ctx):
    V.standard_run(ctx, __import__(__name__))

def replay(ctx, path):
    return V.standard_replay(ctx, __import__(__name__), path)
