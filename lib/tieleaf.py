"""Tie of the regenerated leaf functions (coq/Gen/Leaf.v, tools/leaf_translate.py) to the hand models
(coq/Tie/Tie_Leaf.v): build it as an extra target of a property check and record the outcome per function.

Use from props/Cxx.py (inside `extra(ctx, lib)`, i.e. after the correspondence runs):

    import tieleaf
    tieleaf.record(ctx, ["ModMax", "MakePositive", ...])      # names of the BEGIN/END blocks of Tie_Leaf.v

Policy (agreed): a Tie lemma that no longer checks, or a function the translator reports UNSUPPORTED, is NOT by
itself a violation as long as the correspondence harness of the property still agrees; the function is recorded
as `tie: correspondence-only`.  If the Tie lemma fails AND the correspondence of the property disagrees as well,
a `proof` violation is added next to the correspondence one (the change was found both ways).

Mechanics: `make Tie/Tie_Leaf.vo` (vcheck.coq_build: cached while Gen/Leaf.v and the models are unchanged).  If it
does not build, the file is cut at its `(* BEGIN tie <name> *) ... (* END tie <name> *)` markers and every block is
compiled on its own (header + block, in the work directory), so one broken lemma does not hide the others."""
import json
import os
import re

import vcheck as V

TIE = os.path.join("Tie", "Tie_Leaf.v")
_cache = {}


def _blocks(txt):
    """(header, [(name, text)])"""
    ms = list(re.finditer(r"\(\* BEGIN tie (\w+) \*\)(.*?)\(\* END tie \1 \*\)", txt, re.S))
    header = txt[:ms[0].start()] if ms else txt
    return header, [(m.group(1), m.group(0)) for m in ms]


def _lemmas(block):
    return re.findall(r"^\s*(?:Lemma|Theorem|Corollary)\s+([A-Za-z0-9_']+)", V.strip_coq_comments(block), re.M)


def _gen_names(block):
    return sorted(set(re.findall(r"\bgen_[A-Za-z0-9_]+", V.strip_coq_comments(block))))


def _axioms_ok(out):
    bad = []
    for blk in V.parse_assumptions(out):
        for a in blk:
            if not (a in V.ALLOWED_AXIOMS or a.startswith(V.PRIMITIVE_PREFIXES)):
                bad.append(a)
    return bad


def check(ctx):
    """-> {"built": bool, "seconds": s, "blocks": {name: {"status": "proved"|"failed", "lemmas": [...], "error": ...}},
           "translator": <status of tools/leaf_translate.py>}   (computed once per process)"""
    if "r" in _cache:
        return _cache["r"]
    import time
    t0 = time.time()
    tr = (getattr(ctx, "translator_status", None) or {}).get("Leaf")
    if tr is None:
        try:
            tr = json.load(open(os.path.join(V.COQ, "Gen", "STATUS.json"))).get("Leaf")
        except Exception:
            tr = None
    res = {"file": "coq/" + TIE, "translator": {
        "ok": bool(tr and tr.get("ok")), "seconds": (tr or {}).get("seconds"),
        "translated": (tr or {}).get("translated", []), "unsupported": (tr or {}).get("unsupported", []),
        "error": (tr or {}).get("error")}, "blocks": {}}
    src = os.path.join(V.COQ, TIE)
    txt = open(src).read()
    header, blocks = _blocks(txt)
    ok, out = V.coq_build(ctx, [TIE[:-2] + ".vo"], timeout=900)
    res["built"] = ok
    side = os.path.join(V.BUILD, "Tie_Leaf.assumptions")     # Print Assumptions output of the compilation that made the .vo
    vo = os.path.join(V.COQ, TIE[:-2] + ".vo")
    if ok:
        if "Closed under the global context" in out or "Axioms:" in out:
            open(side, "w").write(out)           # it was (re)compiled now: keep the Print Assumptions output
        elif os.path.exists(side) and os.path.exists(vo) and os.path.getmtime(side) >= os.path.getmtime(vo):
            out = open(side).read()              # up to date: the output of the compilation that produced the .vo
        else:
            rc, out = V.sh(["coqc", "-Q", ".", "Draco", TIE], cwd=V.COQ, timeout=900)
            open(side, "w").write(out)
        bad = _axioms_ok(out)
        for name, b in blocks:
            res["blocks"][name] = {"status": "proved", "lemmas": _lemmas(b), "functions": _gen_names(b)}
        if bad:
            res["built"] = False
            for name in res["blocks"]:
                res["blocks"][name] = {"status": "failed", "error": "non-standard axioms: %s" % bad}
    else:
        # which blocks still check?  (dependencies first: whatever of them builds)
        deps = re.findall(r"\b((?:Base|Gen|Model|Proofs)\.[A-Za-z0-9_]+)", V.strip_coq_comments(header))
        V.coq_build(ctx, [d.replace(".", "/") + ".vo" for d in deps], timeout=900)
        wd = os.path.join(V.BUILD, "tie_leaf")
        os.makedirs(wd, exist_ok=True)
        m0 = re.search(r'File "\./([^"]+)", line (\d+)[^\n]*\n((?:.*\n){0,40})', out)
        if m0:
            res["error_at"] = "%s:%s" % (m0.group(1), m0.group(2))
            res["error"] = m0.group(3)[:3000]

        def one(nb):
            name, b = nb
            f = os.path.join(wd, "Tie_%s.v" % name)
            open(f, "w").write(header + "\n" + b + "\n")
            rc, o = V.sh(["coqc", "-Q", V.COQ, "Draco", "-w",
                          "-notation-overridden,-deprecated-hint-without-locality,-deprecated-instance-without-locality,-ambiguous-paths",
                          os.path.basename(f)], cwd=wd, timeout=600)
            if rc == 0 and not _axioms_ok(o):
                return name, {"status": "proved", "lemmas": _lemmas(b), "functions": _gen_names(b)}
            m = re.search(r'File "[^"]+", line (\d+)[^\n]*\n((?:.*\n?){0,40})', o)
            lemma = None
            if m:
                lines = (header + "\n" + b).splitlines()
                for i in range(min(int(m.group(1)), len(lines)) - 1, -1, -1):
                    mm = re.match(r"\s*(?:Lemma|Theorem|Corollary)\s+([A-Za-z0-9_']+)", lines[i])
                    if mm:
                        lemma = mm.group(1)
                        break
            return name, {"status": "failed", "lemma": lemma, "functions": _gen_names(b),
                          "error": (m.group(2) if m else o[-1500:])[:1500]}
        from concurrent.futures import ThreadPoolExecutor
        with ThreadPoolExecutor(max_workers=max(2, V.NPROC // 2)) as ex:
            for name, r1 in ex.map(one, blocks):
                res["blocks"][name] = r1
    res["seconds"] = round(time.time() - t0, 2)
    _cache["r"] = res
    return res


def record(ctx, names):
    """Record the tie status of the blocks `names` in ctx.cov["tie_leaf"]; apply the policy above."""
    r = check(ctx)
    funcs = {}
    failed = []
    unsupported = r["translator"].get("unsupported", [])
    for n in names:
        b = r["blocks"].get(n)
        if b is None:
            funcs[n] = "tie: correspondence-only (no Tie lemma)"
            failed.append(n)
        elif b["status"] == "proved":
            funcs[n] = "tie: proved (%s)" % ", ".join(b["lemmas"])
        else:
            why = [u for u in unsupported if ("::" + n + " ") in u or u.split()[1].endswith(n)]
            funcs[n] = "tie: correspondence-only (%s)" % (why[0] if why else "lemma %s no longer checks" % (b.get("lemma") or "?"))
            failed.append(n)
    ctx.cov["tie_leaf"] = {
        "file": r["file"], "built": r["built"], "functions": funcs,
        "translator_seconds": r["translator"].get("seconds"), "tie_seconds": r["seconds"],
        "translator_ok": r["translator"]["ok"], "translator_unsupported": unsupported,
        "errors": {n: r["blocks"][n].get("error", "")[:600] for n in failed if n in r["blocks"]},
        "first_error_at": r.get("error_at"),
        "policy": "a failing Tie lemma / UNSUPPORTED function alone is not a violation while the correspondence harness agrees",
    }
    ctx.say("tie_leaf: %d/%d proved%s" % (len(names) - len(failed), len(names),
                                          ("; correspondence-only: " + ", ".join(failed)) if failed else ""))
    if failed and ctx.cov.get("disagreements", 0) > 0:
        V.violation(ctx, "proof", {
            "file": r["file"], "functions": failed, "errors": ctx.cov["tie_leaf"]["errors"],
            "theorem": [r["blocks"][n].get("lemma") for n in failed if n in r["blocks"]],
            "first_error_at": r.get("error_at"), "coqc_error": (r.get("error") or "")[:3000],
            "note": "the definition regenerated from the current C++ source is no longer provably equal to the model "
                    "AND the correspondence harness disagrees: the change of behaviour is found both ways"},
            no_input=True)
    return ctx.cov["tie_leaf"]
