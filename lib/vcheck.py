"""Shared machinery of ./check: build /repo's working tree, build and check the Coq
development, extract + build the model drivers, run correspondence and search
harnesses, decide, write evidence and replay files."""
import glob
import hashlib
import json
import os
import re
import subprocess
import sys
import time

ROOT = os.path.dirname(os.path.dirname(os.path.abspath(__file__)))
REPO = os.environ.get("DRACO_REPO", "/repo")
COQ = os.path.join(ROOT, "coq")
BUILD = os.path.join(ROOT, ".cache", "work")
if REPO != "/repo":
    # scratch tree (mutation testing): private copy of the Coq development (the translator rewrites Gen/)
    # and private work dir, so concurrent checks of the real tree are not disturbed.
    _h = hashlib.md5((REPO + "\n").encode()).hexdigest()[:8]
    COQ = os.path.join(ROOT, ".cache", "coq-" + _h)
    BUILD = os.path.join(ROOT, ".cache", "work-" + _h)
    os.makedirs(COQ, exist_ok=True)
    subprocess.call(["rsync", "-a", "--delete", "--exclude", "Gen/*.v", os.path.join(ROOT, "coq") + "/", COQ + "/"])
os.environ["VERIF_COQ_DIR"] = COQ
NPROC = os.cpu_count() or 4

# Axioms declared by Coq's standard library (or Flocq/Reals through it) that theorems of
# this development may depend on.  Anything else in a Print Assumptions block fails the check.
ALLOWED_AXIOMS = {
    "Coq.Logic.FunctionalExtensionality.functional_extensionality_dep",
    "FunctionalExtensionality.functional_extensionality_dep",
    "functional_extensionality_dep",
    "Coq.Logic.Classical_Prop.classic", "Classical_Prop.classic", "classic",
    "ClassicalDedekindReals.sig_not_dec", "sig_not_dec",
    "ClassicalDedekindReals.sig_forall_dec", "sig_forall_dec",
    "Coq.Logic.JMeq.JMeq_eq", "JMeq_eq",
    "Coq.Logic.Eqdep.Eq_rect_eq.eq_rect_eq", "Eq_rect_eq.eq_rect_eq", "eq_rect_eq",
    "Coq.Logic.ProofIrrelevance.proof_irrelevance", "proof_irrelevance",
}
# Kernel primitives (not axioms of ours): Print Assumptions lists them when used.
PRIMITIVE_PREFIXES = ("Uint63.", "PrimFloat.", "PArray.", "Coq.Numbers.Cyclic.Int63", "Coq.Floats")

FORBIDDEN_RE = re.compile(
    r"\b(Admitted|admit|Axiom|Axioms|Parameter|Parameters|Conjecture|Conjectures|Admit Obligations)\b"
    r"|Unset\s+Guard|bypass_check|type-in-type|impredicative-set|Unset\s+Positivity|Unset\s+Universe")


class Ctx:
    def __init__(self, prop, tier, seed):
        self.prop = prop
        self.tier = tier
        self.seed = seed
        self.t0 = time.time()
        self.log = []
        self.violations = []      # (replay_path, suffix)
        self.known = []           # text lines
        self.proof = {"obligations": 0, "discharged": 0, "theorems": [], "axioms": {}, "failed": []}
        self.cov = {}
        self.assumptions = []
        os.makedirs(BUILD, exist_ok=True)
        os.makedirs(os.path.join(ROOT, "evidence"), exist_ok=True)
        os.makedirs(os.path.join(ROOT, "replays", prop), exist_ok=True)

    def say(self, *a):
        msg = " ".join(str(x) for x in a)
        print("[%s %6.1fs] %s" % (self.prop, time.time() - self.t0, msg), flush=True)


def sh(cmd, cwd=None, timeout=None, env=None, stdin=None):
    e = dict(os.environ)
    if env:
        e.update(env)
    try:
        p = subprocess.run(cmd, cwd=cwd, timeout=timeout, env=e, input=stdin,
                           stdout=subprocess.PIPE, stderr=subprocess.STDOUT, text=True,
                           shell=isinstance(cmd, str))
        return p.returncode, p.stdout
    except subprocess.TimeoutExpired as ex:
        out = ex.stdout if isinstance(ex.stdout, str) else (ex.stdout or b"").decode("utf8", "replace")
        return 124, out + "\n[timeout after %ss]" % timeout


# ----------------------------------------------------------------------------- repo build
def build_repo(ctx, flavour="O1"):
    rc, out = sh([os.path.join(ROOT, "tools", "build_repo.sh"), flavour], timeout=1500)
    if rc != 0:
        ctx.say("building /repo (%s) FAILED:\n%s" % (flavour, out[-3000:]))
        raise BuildFailure("repo build failed (%s)" % flavour, out)
    libdir = out.strip().splitlines()[-1]
    if flavour == "O1" and not getattr(ctx, "_translated", False):
        # translator: regenerate coq/Gen/*.v from the current source (files rewritten only when changed)
        rc, tout = sh([os.path.join(ROOT, "tools", "cxx2v.py")], timeout=900)
        ctx._translated = True
        try:
            ctx.translator_status = json.loads(tout.strip().splitlines()[-1])
        except Exception:
            ctx.translator_status = {"error": tout[-2000:]}
        bad = [k for k, v in ctx.translator_status.items() if not (isinstance(v, dict) and v.get("ok"))]
        if rc != 0 or bad:
            ctx.say("translator problems:", ctx.translator_status)
        st = ctx.translator_status
        ctx.cov["translator"] = {k: ("ok" if isinstance(v, dict) and v.get("ok") else "FAILED: " + str((v or {}).get("error", v))[:300]) for k, v in st.items()} if isinstance(st, dict) else str(st)[:300]
    return libdir


class BuildFailure(Exception):
    def __init__(self, msg, out=""):
        super().__init__(msg)
        self.out = out


# ----------------------------------------------------------------------------- Coq
def coq_sources():
    fs = []
    for d in ("Base", "Gen", "Frozen", "Model", "Tie", "Proofs", "Properties"):
        fs += sorted(glob.glob(os.path.join(COQ, d, "*.v")))
    return [os.path.relpath(f, COQ) for f in fs]


def coq_makefile():
    """(Re)generate coq/Makefile when the list of sources changed."""
    srcs = coq_sources()
    stamp = os.path.join(COQ, ".srclist")
    want = "\n".join(srcs)
    have = open(stamp).read() if os.path.exists(stamp) else None
    if have != want or not os.path.exists(os.path.join(COQ, "Makefile")):
        rc, out = sh(["coq_makefile", "-f", "_CoqProject", "-o", "Makefile"] + srcs, cwd=COQ)
        if rc != 0:
            raise BuildFailure("coq_makefile failed", out)
        open(stamp, "w").write(want)


def coq_guard(ctx):
    """No Admitted/admit/Axiom/Parameter/... anywhere in the development (comments stripped)."""
    bad = []
    for f in coq_sources() + [os.path.relpath(p, COQ) for p in glob.glob(os.path.join(COQ, "Extract", "*.v"))]:
        txt = open(os.path.join(COQ, f)).read()
        txt = strip_coq_comments(txt)
        for m in FORBIDDEN_RE.finditer(txt):
            line = txt.count("\n", 0, m.start()) + 1
            bad.append("%s:%d: %s" % (f, line, m.group(0)))
    return bad


def strip_coq_comments(s):
    out = []
    depth = 0
    i = 0
    n = len(s)
    while i < n:
        if s.startswith("(*", i):
            depth += 1
            i += 2
        elif s.startswith("*)", i) and depth > 0:
            depth -= 1
            i += 2
        else:
            if depth == 0:
                out.append(s[i])
            elif s[i] == "\n":
                out.append("\n")
            i += 1
    return "".join(out)


def coq_build(ctx, targets, timeout=1500):
    """make -k the given .vo targets (paths relative to coq/). Returns (ok, log)."""
    coq_makefile()
    with open(os.path.join(ROOT, ".cache", "lock-" + os.path.basename(COQ)), "w") as lk:
        import fcntl
        fcntl.flock(lk, fcntl.LOCK_EX)
        rc, out = sh(["make", "-k", "-j%d" % NPROC] + targets, cwd=COQ, timeout=timeout)
    return rc == 0, out


def coq_check_properties(ctx, prop_file, deps_extra=(), timeout=1500):
    """Build everything Properties_<id>.v needs, then (re)compile it to collect the
    Print Assumptions output of each property theorem.  Fills ctx.proof."""
    pf = os.path.join("Properties", prop_file)
    txt = strip_coq_comments(open(os.path.join(COQ, pf)).read())
    theorems = re.findall(r"^\s*(?:Theorem|Lemma|Corollary)\s+([A-Za-z0-9_']+)", txt, re.M)
    pa = re.findall(r"Print\s+Assumptions\s+([A-Za-z0-9_'.]+)\s*\.", txt)
    ctx.proof["obligations"] = len(theorems)
    ctx.proof["theorems"] = theorems
    bad = coq_guard(ctx)
    if bad:
        ctx.proof["failed"].append({"what": "forbidden construct in development", "where": bad[:10]})
        return False
    vo = pf[:-2] + ".vo"
    ok, out = coq_build(ctx, [vo] + list(deps_extra), timeout=timeout)
    if not ok:
        m = re.search(r'File "\./([^"]+)", line (\d+)[^\n]*\n((?:.*\n){0,25})', out)
        where = "%s:%s" % (m.group(1), m.group(2)) if m else "?"
        err = m.group(3) if m else out[-2000:]
        # which property theorem is hit: if the failing file is the property file itself, the
        # theorem enclosing that line; otherwise every theorem of the property file is blocked.
        thm = None
        if m and m.group(1) == pf:
            ln = int(m.group(2))
            lines = open(os.path.join(COQ, pf)).read().splitlines()
            for i in range(min(ln, len(lines)) - 1, -1, -1):
                mm = re.match(r"\s*(?:Theorem|Lemma|Corollary)\s+([A-Za-z0-9_']+)", lines[i])
                if mm:
                    thm = mm.group(1)
                    break
        ctx.proof["failed"].append({"what": "coq build failed", "file": where, "theorem": thm,
                                    "error": err[:3000]})
        ctx.proof["discharged"] = 0
        return False
    # recompile the property file itself to capture Print Assumptions
    rc, out = sh(["coqc", "-Q", ".", "Draco", "-w",
                  "-notation-overridden,-deprecated-hint-without-locality,-deprecated-instance-without-locality,-ambiguous-paths",
                  pf], cwd=COQ, timeout=timeout)
    if rc != 0:
        ctx.proof["failed"].append({"what": "coqc of property file failed", "error": out[-3000:]})
        return False
    blocks = parse_assumptions(out)
    if len(blocks) != len(pa):
        ctx.proof["failed"].append({"what": "Print Assumptions blocks (%d) != commands (%d)" % (len(blocks), len(pa))})
        return False
    missing = [t for t in theorems if t not in [p.split(".")[-1] for p in pa]]
    if missing:
        ctx.proof["failed"].append({"what": "theorem without Print Assumptions", "theorems": missing})
        return False
    okax = True
    for name, axs in zip(pa, blocks):
        ctx.proof["axioms"][name] = axs
        for a in axs:
            if a in ALLOWED_AXIOMS or a.startswith(PRIMITIVE_PREFIXES):
                continue
            okax = False
            ctx.proof["failed"].append({"what": "theorem depends on a non-standard-library axiom",
                                        "theorem": name, "axiom": a})
    if okax and ctx.tier == "thorough" and os.environ.get("VERIF_NO_COQCHK") != "1":
        okax = coqchk_property(ctx, pf) and okax
    if okax:
        ctx.proof["discharged"] = len(theorems)
    return okax


def coqchk_property(ctx, pf):
    """thorough tier: re-check the compiled property file and everything it depends on with the independent checker
    (coqchk -o), record the axioms of the whole loaded context, fail on anything outside the standard-library allow-list."""
    mod = "Draco." + pf[:-2].replace("/", ".")
    with open(os.path.join(ROOT, ".cache", "lock-" + os.path.basename(COQ)), "w") as lk:
        import fcntl
        fcntl.flock(lk, fcntl.LOCK_EX)
        rc, out = sh(["coqchk", "-o", "-silent", "-Q", ".", "Draco", mod], cwd=COQ, timeout=3600)
    axs = []
    m = re.search(r"\* Axioms:(.*?)\n\s*\n\* Constants/Inductives relying on type-in-type:(.*?)\n\s*\n\* Constants/Inductives relying on unsafe \(co\)fixpoints:(.*?)\n\s*\n\* Inductives whose positivity is assumed:(.*?)\n", out, re.S)
    rec = {"cmd": "coqchk -o -silent -Q . Draco " + mod, "exit": rc}
    if m:
        axs = [a.strip() for a in m.group(1).split("\n") if a.strip() and a.strip() != "<none>"]
        rec.update({"axioms_of_loaded_context": axs, "type_in_type": m.group(2).strip(), "unsafe_fixpoints": m.group(3).strip(),
                    "assumed_positivity": m.group(4).strip()})
    ctx.proof["coqchk"] = rec
    bad = [a for a in axs if not (a.split(".")[-1] in [x.split(".")[-1] for x in ALLOWED_AXIOMS] or a.startswith(PRIMITIVE_PREFIXES))]
    relaxed = m and any(m.group(i).strip() != "<none>" for i in (2, 3, 4))
    if rc != 0 or not m or bad or relaxed:
        ctx.proof["failed"].append({"what": "coqchk rejected the compiled development or found a non-allowed axiom / relaxed check",
                                    "axioms": bad, "output": out[-1500:]})
        return False
    return True


def coq_check_many(ctx, prop_files):
    """coq_check_properties over several property files (a property's own file + the files of its sub-checks):
    obligations / theorems / axioms accumulate; ok iff every file checks."""
    ok_all = True
    acc = {"obligations": 0, "discharged": 0, "theorems": [], "axioms": {}, "failed": list(ctx.proof["failed"])}
    for pf in prop_files:
        ctx.proof = {"obligations": 0, "discharged": 0, "theorems": [], "axioms": {}, "failed": []}
        ok = coq_check_properties(ctx, pf)
        ok_all = ok_all and ok
        acc["obligations"] += ctx.proof["obligations"]
        acc["discharged"] += ctx.proof["discharged"] if ok else 0
        acc["theorems"] += ctx.proof["theorems"]
        acc["axioms"].update(ctx.proof["axioms"])
        acc["failed"] += [dict(f, property_file=pf) for f in ctx.proof["failed"]]
        if ctx.proof.get("coqchk"):
            acc.setdefault("coqchk_all", []).append(ctx.proof["coqchk"])
    if "coqchk_all" in acc:
        acc["coqchk"] = {"cmd": " && ".join(c["cmd"] for c in acc["coqchk_all"]), "runs": acc.pop("coqchk_all")}
    ctx.proof = acc
    return ok_all


def parse_assumptions(out):
    blocks = []
    cur = None
    for line in out.splitlines():
        if line.startswith("Closed under the global context"):
            if cur is not None:
                blocks.append(cur)
                cur = None
            blocks.append([])
        elif line.startswith("Axioms:"):
            if cur is not None:
                blocks.append(cur)
            cur = []
        elif cur is not None:
            m = re.match(r"^([A-Za-z_][A-Za-z0-9_'.]*)\s*:", line)
            if m:
                cur.append(m.group(1))
            elif line and not line.startswith(" ") and not line.startswith("\t"):
                # something else (e.g. a warning): end of block
                blocks.append(cur)
                cur = None
    if cur is not None:
        blocks.append(cur)
    return blocks


# ----------------------------------------------------------------------------- model driver
def build_driver(ctx, name, needs_vo=()):
    """Extract coq/Extract/Extract_<name>.v and link it with driver/zutil.ml and driver/d_<name>.ml."""
    d = os.path.join(BUILD, "drv_" + name)
    os.makedirs(d, exist_ok=True)
    ex = os.path.join(COQ, "Extract", "Extract_%s.v" % name)
    if needs_vo:
        ok, out = coq_build(ctx, list(needs_vo))
        if not ok:
            raise BuildFailure("model files for driver %s do not compile" % name, out)
    srcs = [ex, os.path.join(ROOT, "driver", "zutil.ml"), os.path.join(ROOT, "driver", "d_%s.ml" % name)]
    srcs += [os.path.join(COQ, v[:-1]) for v in needs_vo]
    h = hashlib.sha1()
    for s in srcs:
        h.update(open(s, "rb").read())
    stamp = os.path.join(d, "stamp")
    exe = os.path.join(d, "driver")
    if os.path.exists(exe) and os.path.exists(stamp) and open(stamp).read() == h.hexdigest():
        return exe
    sh(["cp", ex, d])
    rc, out = sh(["coqc", "-Q", COQ, "Draco", os.path.basename(ex)], cwd=d, timeout=900)
    if rc != 0:
        raise BuildFailure("extraction failed for %s" % name, out)
    for f in ("zutil.ml", "d_%s.ml" % name):
        sh(["cp", os.path.join(ROOT, "driver", f), d])
    rc, out = sh(["ocamlfind", "ocamlopt", "-O3", "-w", "-a", "m.mli", "m.ml", "zutil.ml", "d_%s.ml" % name,
                  "-o", "driver"], cwd=d, timeout=900)
    if rc != 0:
        rc, out = sh(["ocamlfind", "ocamlopt", "-w", "-a", "m.mli", "m.ml", "zutil.ml", "d_%s.ml" % name,
                      "-o", "driver"], cwd=d, timeout=900)
    if rc != 0:
        raise BuildFailure("ocaml build failed for %s" % name, out)
    open(stamp, "w").write(h.hexdigest())
    return exe


# ----------------------------------------------------------------------------- harness
def build_harness(ctx, name, libdir, flavour="O1", extra=()):
    src = os.path.join(ROOT, "harness", "h_%s.cc" % name)
    exe = os.path.join(BUILD, "h_%s_%s" % (name, flavour))
    flags = {"O1": ["-O1"], "asan": ["-O1", "-g", "-fsanitize=address,undefined", "-fno-sanitize-recover=all"],
             "tsan": ["-O1", "-g", "-fsanitize=thread"]}[flavour]
    cmd = ["g++", "-std=c++17", "-DNDEBUG", "-DDRACO_VERIF"] + flags + ["-I" + os.path.join(REPO, "src"), "-I" + libdir,
           "-I" + os.path.join(ROOT, "harness"), src, os.path.join(libdir, "libdraco.a"), "-lpthread", "-o", exe] + list(extra)
    # rebuilt whenever the harness sources, the library or ANY header of /repo's current tree changed (content hash), reused otherwise
    import hashlib
    h = hashlib.sha1(" ".join(cmd).encode())
    for f in sorted(glob.glob(os.path.join(ROOT, "harness", "*.h"))) + [src]:
        h.update(open(f, "rb").read())
    st = os.stat(os.path.join(libdir, "libdraco.a")); h.update(("%d:%d" % (st.st_size, st.st_mtime_ns)).encode())
    for dp, dn, fn in sorted(os.walk(os.path.join(REPO, "src", "draco"))):
        for f in sorted(fn):
            if f.endswith(".h") or (f.endswith(".cc") and "_test" not in f):   # some harnesses include .cc files of the library (templates)
                fp = os.path.join(dp, f); s2 = os.stat(fp); h.update(("%s:%d:%d" % (fp, s2.st_size, s2.st_mtime_ns)).encode())
    stamp = exe + ".stamp"
    if os.path.exists(exe) and os.path.exists(stamp) and open(stamp).read() == h.hexdigest():
        return exe
    rc, out = sh(cmd, timeout=900)
    if rc != 0:
        raise BuildFailure("harness %s does not compile against /repo" % name, out)
    open(stamp, "w").write(h.hexdigest())
    return exe


def run_cases(ctx, harness_exe, driver_exe, args, tag, timeout=1500, env=None):
    """harness writes '<kind> <args> | <impl result>' lines; the driver rewrites each line with the
    model's result.  Returns (n_cases, mismatches [(lineno, impl_line, model_line)], search_fails, cases_path)."""
    cases = os.path.join(BUILD, "%s_%s.cases" % (ctx.prop, tag))
    model = os.path.join(BUILD, "%s_%s.model" % (ctx.prop, tag))
    rc, out = sh([harness_exe] + [str(a) for a in args] + [cases], timeout=timeout, env=env)
    if rc != 0:
        raise HarnessCrash("harness %s exited %d" % (os.path.basename(harness_exe), rc), out, cases)
    if driver_exe is None:
        fails = []
        n = 0
        with open(cases) as fa:
            for i, a in enumerate(fa):
                if a.startswith("#"):
                    continue
                if a.startswith("!"):
                    fails.append((i + 1, a.rstrip("\n")))
                else:
                    n += 1
        return n, [], fails, cases
    with open(cases) as fi, open(model, "w") as fo:
        def _big_stack():
            import resource
            try:
                resource.setrlimit(resource.RLIMIT_STACK, (resource.RLIM_INFINITY, resource.RLIM_INFINITY))
            except Exception:
                pass
        # extracted Coq functions recurse non-tail over long lists / dense tables: give the driver an unlimited stack
        p = subprocess.run([driver_exe], stdin=fi, stdout=fo, stderr=subprocess.PIPE, text=True, timeout=timeout,
                           preexec_fn=_big_stack)
    if p.returncode != 0:
        raise BuildFailure("model driver failed: " + p.stderr[-2000:])
    mism = []
    fails = []
    n = 0
    with open(cases) as fa, open(model) as fb:
        for i, (a, b) in enumerate(zip_longest_lines(fa, fb)):
            if a is not None and a.startswith("#"):
                continue
            if a is not None and a.startswith("!"):
                fails.append((i + 1, a.rstrip("\n")))
                continue
            n += 1
            if a != b:
                mism.append((i + 1, (a or "<missing>").rstrip("\n"), (b or "<missing>").rstrip("\n")))
    return n, mism, fails, cases


def zip_longest_lines(fa, fb):
    import itertools
    return itertools.zip_longest(fa, fb)


class HarnessCrash(Exception):
    def __init__(self, msg, out="", cases=None):
        super().__init__(msg)
        self.out = out
        self.cases = cases


def distinct_count(path, nontrivial=lambda l: True):
    seen = set()
    with open(path) as f:
        for l in f:
            if l.startswith("#") or l.startswith("!"):
                continue
            if nontrivial(l):
                seen.add(hashlib.md5(l.encode()).digest())
    return len(seen)


def sample_lines(path, k=5):
    out = []
    with open(path) as f:
        lines = [l.rstrip("\n") for l in f if not l.startswith("#")]
    if not lines:
        return out
    step = max(1, len(lines) // k)
    for i in range(0, len(lines), step):
        out.append(lines[i][:400])
        if len(out) >= k:
            break
    return out


def kind_histogram(path):
    h = {}
    with open(path) as f:
        for l in f:
            if l.startswith("#") or l.startswith("!"):
                continue
            k = l.split(" ", 1)[0]
            h[k] = h.get(k, 0) + 1
    return h


# ----------------------------------------------------------------------------- findings / decisions
def load_known():
    p = os.path.join(ROOT, "known_findings.json")
    if not os.path.exists(p):
        return []
    return json.load(open(p)).get("findings", [])


def known_match(prop, tag):
    """tag: the machine-readable class a check attaches to a failing case (e.g. 'metadata-empty-value')."""
    for f in load_known():
        if f.get("property") == prop and f.get("status") == "known" and f.get("match") == tag:
            return f
    return None


def write_replay(ctx, kind, payload):
    d = os.path.join(ROOT, "replays", ctx.prop)
    n = len(glob.glob(os.path.join(d, "*.json")))
    p = os.path.join(d, "%s_%s_%d_%d.json" % (kind, ctx.tier, ctx.seed, n))
    payload = dict(payload)
    payload.update({"property": ctx.prop, "kind": kind, "seed": ctx.seed, "tier": ctx.tier,
                    "how_to": "./check %s --replay %s" % (ctx.prop, os.path.relpath(p, ROOT))})
    json.dump(payload, open(p, "w"), indent=1)
    return os.path.relpath(p, ROOT)


def violation(ctx, kind, payload, no_input=False):
    p = write_replay(ctx, kind, payload)
    ctx.violations.append((p, no_input))


def finish(ctx, level="proof", extra_cov=None, assumptions=None):
    cov = dict(ctx.cov)
    cov.update({
        "obligations": ctx.proof["obligations"],
        "discharged": ctx.proof["discharged"],
        "checker_cmd": "make -C coq -k Properties/Properties_%s.vo && coqc Properties/Properties_%s.v (Print Assumptions parsed)" % (ctx.prop, ctx.prop),
        "trusted_base": [
            "Coq 8.16.1 kernel (coqc; vm_compute used, native_compute not used)",
            "axioms per theorem as printed by Print Assumptions: " + json.dumps(ctx.proof["axioms"], sort_keys=True),
            "extraction: ExtrOcamlBasic only (bool/option/unit/list/prod/sumbool/sumor + andb/orb inlined), no Extract Constant/Inductive of our own; OCaml 4.13.1",
            "driver/zutil.ml + driver/d_*.ml (decimal/hex text <-> Coq Z), harness/*.cc generators and canonicaliser, g++ 12",
            "correspondence is differential testing of the hand-written model against /repo's current build",
        ],
        "theorems": ctx.proof["theorems"],
        "proof_failures": ctx.proof["failed"],
    })
    if ctx.proof.get("coqchk"):
        cov["coqchk"] = ctx.proof["coqchk"]
        cov["checker_cmd"] += " && " + ctx.proof["coqchk"]["cmd"]
    if extra_cov:
        cov.update(extra_cov)
    cov.setdefault("evaluations", 0)
    cov.setdefault("distinct_nontrivial", 0)
    cov.setdefault("rule", "")
    cov.setdefault("samples", [])
    ev = {
        "property_id": ctx.prop, "tier": ctx.tier, "seed": ctx.seed, "level": level,
        "coverage": cov,
        "assumptions": (assumptions or []) + ctx.assumptions,
        "wall_s": round(time.time() - ctx.t0, 2),
        "violations": len(ctx.violations),
        "known_findings_reported": ctx.known,
    }
    # scratch trees never touch the real evidence; sub-check modules (KD, PRED, EB: not property ids) run standalone write to the work dir
    evdir = os.path.join(ROOT, "evidence") if (REPO == "/repo" and re.fullmatch(r"C\d\d", ctx.prop)) else BUILD
    json.dump(ev, open(os.path.join(evdir, ctx.prop + ".json"), "w"), indent=1)
    for k in ctx.known:
        print("KNOWN-FINDING: property=%s %s" % (ctx.prop, k))
    for p, noinp in ctx.violations:
        print("VIOLATION property=%s replay=%s%s" % (ctx.prop, p, " no-failing-input-found" if noinp else ""))
    sys.stdout.flush()
    return 1 if ctx.violations else 0


def standard_decide(ctx, proof_ok, corr, search_fails, classify=None):
    """corr: list of (tag, n_cases, mismatches, cases_path); search_fails: list of (tagline).
    classify(line) -> known-finding tag or None."""
    found_input = False
    # 1. search failures on the real implementation: concrete failing inputs
    for (tag, lineno, line) in search_fails:
        kf = known_match(ctx.prop, classify(line)) if classify else None
        if kf:
            msg = kf["what"]
            if msg not in ctx.known:
                ctx.known.append(msg)
            continue
        found_input = True
        violation(ctx, "search", {"harness": tag, "case_line": lineno, "case": line[:4000],
                                  "note": "the property fails on the implementation for this input"})
        if len(ctx.violations) >= 5:
            break
    # 2. correspondence disagreements
    n_mis = sum(len(m) for (_, _, m, _) in corr)
    if n_mis:
        for (tag, n, mism, path) in corr:
            for (lineno, a, b) in mism[:3]:
                violation(ctx, "correspondence", {"harness": tag, "case_line": lineno, "impl": a[:4000], "model": b[:4000],
                          "note": "model (about which the theorems are proved) and implementation disagree on this case; "
                                  "no input violating the property itself was found by the search" if not found_input else
                                  "model and implementation disagree on this case"},
                          no_input=not found_input)
    # 3. broken proof obligations
    if not proof_ok:
        violation(ctx, "proof", {"failures": ctx.proof["failed"],
                                 "note": "a proof obligation or the axiom/forbidden-construct guard no longer checks"},
                  no_input=not found_input)


# ----------------------------------------------------------------------------- standard flow
def run_corr_runs(ctx, lib, all_runs):
    """all_runs: [(owner module, run dict)].  Builds driver + harness of every run, runs them, compares.
    -> (corr [(tag, n, mismatches, cases_path)], fails [(tag, lineno, line)], evaluations, distinct, samples, kinds, drivers_ok)"""
    drv_ok = True
    corr = []
    fails_all = []
    tot = 0
    distinct = 0
    samples = []
    kinds = {}
    for owner, r in all_runs:
        fl = r.get("flavour", "O1")
        libdir = lib if fl == "O1" else build_repo(ctx, fl)
        drv = None
        try:
            if r.get("driver"):
                drv = build_driver(ctx, r["driver"], needs_vo=r.get("needs_vo", ()))
        except BuildFailure as e:
            # the model no longer builds (e.g. a regenerated definition broke it): the tie is broken, but the
            # search on the implementation still runs so that a concrete failing input can be reported
            ctx.say("model driver does not build:", e)
            ctx.proof["failed"].append({"what": "model/driver build failed", "error": (getattr(e, "out", "") or "")[-2500:]})
            drv_ok = False
        h = build_harness(ctx, r["harness"], libdir, fl, extra=r.get("cxx_extra", ()))
        n, mism, fails, cases = run_cases(ctx, h, drv, r["args"], r["tag"], timeout=r.get("timeout", 900), env=r.get("env"))
        if r.get("driver") and drv is None:
            ctx.say("%s: %d cases, model driver unavailable - correspondence NOT evaluated, %d direct failures" % (r["tag"], n, len(fails)))
        else:
            ctx.say("%s: %d cases, %d disagreements, %d direct failures" % (r["tag"], n, len(mism), len(fails)))
        corr.append((r["tag"], n, mism, cases))
        pref = getattr(owner, "FAIL_PREFIXES", None)   # a harness shared by several properties tags its '!' lines; each check takes its own
        if pref is not None:
            fails = [(l, t) for (l, t) in fails if any(t.startswith("! " + p) for p in pref)]
        fails_all += [(r["tag"], l, t) for (l, t) in fails]
        tot += n
        distinct += distinct_count(cases, getattr(owner, "nontrivial", lambda l: True))
        samples += sample_lines(cases, 4)
        for k, v in kind_histogram(cases).items():
            kinds[k] = kinds.get(k, 0) + v
    return corr, fails_all, tot, distinct, samples, kinds, drv_ok


def standard_run(ctx, mod):
    """The flow shared by most properties.  The props module provides:
       PROP_FILE            Properties_<id>.v
       RULE                 text: how cases are generated and what makes one distinct/non-trivial
       corr_runs(ctx)       -> [dict(tag, harness, driver, args, needs_vo, flavour='O1', timeout=...)]
       classify(line)       -> known-findings tag of a '!' failure line, or None          (optional)
       nontrivial(line)     -> bool                                                         (optional)
       extra(ctx, lib)      -> None; may add to ctx.cov, call violation(...)                (optional)
    """
    lib = build_repo(ctx, "O1")
    ctx.say("repo built:", lib)
    pre = getattr(mod, "pre", None)
    if pre:
        pre(ctx, lib)
    import importlib
    subs = [importlib.import_module(n) for n in getattr(mod, "SUBCHECKS", [])]   # model layers checked as part of this property
    proof_ok = coq_check_many(ctx, getattr(mod, "PROP_FILES", [mod.PROP_FILE]) + [f for s in subs for f in getattr(s, "PROP_FILES", [s.PROP_FILE])])
    ctx.say("proofs: %d/%d %s" % (ctx.proof["discharged"], ctx.proof["obligations"], "ok" if proof_ok else "BROKEN"))
    if not proof_ok:
        ctx.say(json.dumps(ctx.proof["failed"], indent=1)[:3000])
    all_runs = [(mod, r) for r in mod.corr_runs(ctx)] + [(s, r) for s in subs for r in s.corr_runs(ctx)]
    corr, fails_all, tot, distinct, samples, kinds, drv_ok = run_corr_runs(ctx, lib, all_runs)
    proof_ok = proof_ok and drv_ok
    ctx.cov.update({"evaluations": tot, "distinct_nontrivial": distinct, "traces_validated_against_impl": tot,
                    "rule": mod.RULE + "".join(" || sub-check %s: %s" % (s.__name__, s.RULE) for s in subs), "samples": samples[:12], "kinds": kinds,
                    "disagreements": sum(len(m) for (_, _, m, _) in corr),
                    "direct_failures": len(fails_all)})
    for m_ in [mod] + subs:
        extra = getattr(m_, "extra", None)
        if extra:
            extra(ctx, lib)
    standard_decide(ctx, proof_ok, corr, fails_all, getattr(mod, "classify", None))


def standard_replay(ctx, mod, path):
    """Re-run the recorded case: all random choices derive from (seed, tier), so the harness regenerates the
    same case file; print the recorded line and what implementation and model say now."""
    r = json.load(open(path))
    print(json.dumps(r, indent=1)[:6000])
    if r.get("kind") not in ("search", "correspondence"):
        return 0
    ctx.seed = r.get("seed", ctx.seed)
    ctx.tier = r.get("tier", ctx.tier)
    lib = build_repo(ctx, "O1")
    import importlib
    subs = [importlib.import_module(n) for n in getattr(mod, "SUBCHECKS", [])]
    for run in list(mod.corr_runs(ctx)) + [x for s_ in subs for x in s_.corr_runs(ctx)]:
        if run["harness"] != r.get("harness") and run["tag"] != r.get("harness"):
            continue
        drv = build_driver(ctx, run["driver"], needs_vo=run.get("needs_vo", ())) if run.get("driver") else None
        h = build_harness(ctx, run["harness"], lib, run.get("flavour", "O1"))
        n, mism, fails, cases = run_cases(ctx, h, drv, run["args"], "replay", timeout=run.get("timeout", 900), env=run.get("env"))
        if r["kind"] == "search":
            want = r.get("case", "")
            still = [x for x in fails if x[1] == want]
            print("searched for the recorded failing case in a fresh run of the same seed/tier:", want[:300])
        else:
            lhs = r.get("impl", "").split(" | ")[0]
            still = [m for m in mism if m[1].split(" | ")[0] == lhs]
            for fn, who in ((cases, "implementation now"), (cases[:-6] + ".model", "model now         ")):
                with open(fn) as f:
                    for l in f:
                        if l.split(" | ")[0] == lhs:
                            print(who + ":", l.rstrip()[:600])
                            break
        print("REPRODUCED" if still else "not reproduced on the current tree")
        return 1 if still else 0
    return 0
