(** Model of the bit-sequence mode of core/encoder_buffer.{h,cc} and core/decoder_buffer.{h,cc}.

    A buffer's content is a sequence of items: byte-aligned data, or a bit block
    (StartBitEncoding(required_bits, encode_size); EncodeLeastSignificantBits32(n, v)*; EndBitEncoding).
    The C++ writes/reads bit by bit (LSB first inside each byte); here the whole block is one number:
    bit i of the block is bit i of [be_acc].  The correspondence check ties this to the bit loops. *)
From Draco Require Import Base.Codec Model.Varint.
Local Open Scope Z_scope.

Fixpoint le_val (bs : bytes) : Z :=
  match bs with [] => 0 | b :: r => b + 256 * le_val r end.

Record bitenc := { be_acc : Z; be_n : Z }.
Definition bitenc_empty : bitenc := {| be_acc := 0; be_n := 0 |}.
(** BitEncoder::PutBits(data, nbits): appends the [n] low bits of [v], least significant first. *)
Definition put_bits (s : bitenc) (nv : Z * Z) : bitenc :=
  let '(n, v) := nv in
  {| be_acc := be_acc s + (v mod 2 ^ n) * 2 ^ (be_n s); be_n := be_n s + n |}.
Definition put_all (puts : list (Z * Z)) : bitenc := fold_left put_bits puts bitenc_empty.

(** One bit block.  [None]: StartBitEncoding returns false (required_bits <= 0), or more bits are
    written than were reserved — the C++ then writes past the reserved bytes (out of bounds); callers
    must never do that, and the theorems are stated for blocks that fit. *)
Definition enc_block (req : Z) (with_size : bool) (puts : list (Z * Z)) : option bytes :=
  if req <=? 0 then None else
  let reserved := (req + 7) / 8 in
  let s := put_all puts in
  if be_n s >? reserved * 8 then None else
  let nbytes := (be_n s + 7) / 8 in
  let data := enc_le (Z.to_nat nbytes) (be_acc s) in
  if with_size then
    match enc_varint_u nbytes with
    | Some sz => Some (sz ++ data)
    | None => None
    end
  else Some data.

(** BitDecoder::GetBits: bits past the end of the buffer read as 0 and do not advance the offset. *)
Definition get_bits (D L : Z) (st : Z * list Z) (n : Z) : option (Z * list Z) :=
  let '(off, vals) := st in
  if (n <? 0) || (n >? 32) then None
  else Some (Z.min (off + n) L, vals ++ [(D / 2 ^ off) mod 2 ^ n]).
Fixpoint get_all (D L : Z) (st : Z * list Z) (ns : list Z) : option (Z * list Z) :=
  match ns with
  | [] => Some st
  | n :: r => match get_bits D L st n with
              | Some st' => get_all D L st' r
              | None => None
              end
  end.

(** StartBitDecoding(decode_size, &size); DecodeLeastSignificantBits32(n)*; EndBitDecoding.
    [ver] is the bitstream version (major*256+minor): before 2.2 the size is a fixed uint64.
    Returns (stored size if any, decoded values, unread rest). *)
Definition dec_block (ver : Z) (with_size : bool) (ns : list Z) (bs : bytes)
  : option (option Z * list Z * bytes) :=
  let hdr := if with_size then
               match (if ver <? 514 then dec_le 8 bs else dec_varint_u 64 bs) with
               | Some (sz, r) => Some (Some sz, r)
               | None => None
               end
             else Some (None, bs) in
  match hdr with
  | None => None
  | Some (sz, r) =>
    match get_all (le_val r) (8 * Z.of_nat (length r)) (0, []) ns with
    | None => None
    | Some (off, vals) => Some (sz, vals, skipn (Z.to_nat ((off + 7) / 8)) r)
    end
  end.

(** Items of a buffer and their sequential coding ("all interleavings of bit-mode and byte-mode writes"). *)
Inductive item :=
| IBytes (bs : bytes)
| IBlock (req : Z) (with_size : bool) (puts : list (Z * Z)).

Fixpoint enc_items (its : list item) : option bytes :=
  match its with
  | [] => Some []
  | IBytes bs :: r => match enc_items r with Some t => Some (bs ++ t) | None => None end
  | IBlock req ws puts :: r =>
      match enc_block req ws puts, enc_items r with
      | Some b, Some t => Some (b ++ t)
      | _, _ => None
      end
  end.

(** What the reader asks for, item by item, and what it gets. *)
Inductive shape := SBytes (n : nat) | SBlock (with_size : bool) (ns : list Z).
Inductive got := GBytes (bs : bytes) | GBlock (size : option Z) (vals : list Z).

Fixpoint dec_items (ver : Z) (shp : list shape) (bs : bytes) : option (list got * bytes) :=
  match shp with
  | [] => Some ([], bs)
  | SBytes n :: r =>
      if (length bs <? n)%nat then None
      else match dec_items ver r (skipn n bs) with
           | Some (g, rest) => Some (GBytes (firstn n bs) :: g, rest)
           | None => None
           end
  | SBlock ws ns :: r =>
      match dec_block ver ws ns bs with
      | Some (sz, vals, rest1) =>
          match dec_items ver r rest1 with
          | Some (g, rest) => Some (GBlock sz vals :: g, rest)
          | None => None
          end
      | None => None
      end
  end.

Definition shape_of (it : item) : shape :=
  match it with
  | IBytes bs => SBytes (length bs)
  | IBlock _ ws puts => SBlock ws (map fst puts)
  end.
Definition expect_of (it : item) : got :=
  match it with
  | IBytes bs => GBytes bs
  | IBlock _ ws puts =>
      GBlock (if ws then Some ((be_n (put_all puts) + 7) / 8) else None)
             (map (fun nv => snd nv mod 2 ^ fst nv) puts)
  end.
