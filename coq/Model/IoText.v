(** C15 — byte-level text helpers shared by the PLY header parser and the OBJ corner parser.

    Sources (read line by line, /repo as it is now):
      src/draco/io/parser_utils.cc   SkipWhitespace / PeekWhitespace / ParseString / ParseLine / SkipLine /
                                     ParseSignedInt / ParseUnsignedInt / GetSignValue
      src/draco/io/ply_reader.cc     PlyReader::SplitWords, the strtoll call of ParseElement
      operator<<(uint32_t), snprintf("%d")   decimal printing of non-negative integers

    Characters are bytes ([Z] in 0..255).  [isspace] is the "C" locale one: 9..13 and 32 (the reader is
    not locale-proofed by the library; the harness runs in the "C" locale). *)
From Coq Require Import List ZArith Bool Lia String Ascii.
From Draco Require Import Base.Codec.
Import ListNotations.
Local Open Scope Z_scope.

(** a string literal as bytes; every use below is frozen to its normal form by [Eval cbv] *)
Definition bytes_of_string (s : string) : bytes :=
  List.map (fun a => Z.of_N (N_of_ascii a)) (list_ascii_of_string s).

Fixpoint beq (a b : bytes) : bool :=
  match a, b with
  | [], [] => true
  | x :: a', y :: b' => (x =? y) && beq a' b'
  | _, _ => false
  end.
Definition nilb {A} (l : list A) : bool := match l with [] => true | _ => false end.

Definition is_space (c : Z) : bool := (c =? 32) || ((9 <=? c) && (c <=? 13)).
Definition is_delim (c : Z) : bool := (c =? 13) || (c =? 10).
Definition is_digit (c : Z) : bool := (48 <=? c) && (c <=? 57).

(** parser::SkipWhitespace *)
Fixpoint skip_ws (bs : bytes) : bytes :=
  match bs with c :: r => if is_space c then skip_ws r else bs | [] => [] end.

(** the loop of parser::ParseString after SkipWhitespace: characters up to the next whitespace / end *)
Fixpoint take_word (bs : bytes) : bytes * bytes :=
  match bs with
  | [] => ([], [])
  | c :: r => if is_space c then ([], bs) else let (w, r') := take_word r in (c :: w, r')
  end.
Definition parse_string (bs : bytes) : bytes * bytes := take_word (skip_ws bs).

(** parser::ParseLine: the characters up to the first '\r' or '\n'; then the line end is consumed: "\r\n"
    as a pair, otherwise exactly one delimiter (a second delimiter is consumed only if it is '\n' and differs
    from the first; a third never). *)
Fixpoint take_line (bs : bytes) : bytes * bytes :=
  match bs with
  | [] => ([], [])
  | c :: r => if is_delim c then ([], bs) else let (l, r') := take_line r in (c :: l, r')
  end.
Definition eat_eol (bs : bytes) : bytes :=
  match bs with
  | c1 :: r =>
    if is_delim c1 then
      match r with
      | c2 :: r2 => if is_delim c2 && negb (c2 =? c1) && (c2 =? 10) then r2 else r
      | [] => r
      end
    else bs
  | [] => []
  end.
Definition parse_line (bs : bytes) : bytes * bytes :=
  let (l, r) := take_line bs in (l, eat_eol r).

(** PlyReader::SplitWords: maximal runs of non-whitespace characters.  [split_aux] returns the (possibly empty)
    word at the very front and the complete words after it. *)
Definition cons_word (w : bytes) (ws : list bytes) : list bytes := if nilb w then ws else w :: ws.
Fixpoint split_aux (bs : bytes) : bytes * list bytes :=
  match bs with
  | [] => ([], [])
  | c :: r => let (w, ws) := split_aux r in
              if is_space c then ([], cons_word w ws) else (c :: w, ws)
  end.
Definition split_words (bs : bytes) : list bytes := let (w, ws) := split_aux bs in cons_word w ws.

(** digits accumulated left to right until the first non-digit: value and rest *)
Fixpoint digits_val (acc : Z) (bs : bytes) : Z * bytes :=
  match bs with
  | c :: r => if is_digit c then digits_val (acc * 10 + (c - 48)) r else (acc, bs)
  | [] => (acc, [])
  end.

(** strtoll(word, nullptr, 10) on a word without whitespace: optional sign, digits, saturating to int64. *)
Definition strtoll (w : bytes) : Z :=
  match w with
  | [] => 0
  | c :: r =>
    if c =? 45 then Z.max (- 2 ^ 63) (- fst (digits_val 0 r))
    else if c =? 43 then Z.min (2 ^ 63 - 1) (fst (digits_val 0 r))
    else Z.min (2 ^ 63 - 1) (fst (digits_val 0 w))
  end.

Definition to_i32 (x : Z) : Z := let y := x mod 2 ^ 32 in if y <? 2 ^ 31 then y else y - 2 ^ 32.

(** parser::ParseUnsignedInt: at least one digit; the accumulator is a uint32_t (wraps). *)
Fixpoint digits_u32 (acc : Z) (bs : bytes) : Z * bytes :=
  match bs with
  | c :: r => if is_digit c then digits_u32 ((acc * 10 + (c - 48)) mod 2 ^ 32) r else (acc, bs)
  | [] => (acc, [])
  end.
Definition parse_unsigned_int (bs : bytes) : option (Z * bytes) :=
  match bs with
  | c :: _ => if is_digit c then Some (digits_u32 0 bs) else None
  | [] => None
  end.
(** parser::ParseSignedInt: optional '+'/'-', then ParseUnsignedInt; [*value = (sign < 0) ? -v : v] is computed
    in uint32_t and stored in the int32_t. *)
Definition parse_signed_int (bs : bytes) : option (Z * bytes) :=
  match bs with
  | [] => None
  | c :: r =>
    let '(neg, body) := if c =? 45 then (true, r) else if c =? 43 then (false, r) else (false, bs) in
    match parse_unsigned_int body with
    | Some (v, rest) => Some (to_i32 (if neg then - v else v), rest)
    | None => None
    end
  end.

(** decimal text of a non-negative integer below 10^20 (operator<< of uint32_t, "%d" of a positive int32_t) *)
Fixpoint dec_rev (fuel : nat) (n : Z) : bytes :=
  match fuel with
  | O => []
  | S f => if n <? 10 then [48 + n] else (48 + n mod 10) :: dec_rev f (n / 10)
  end.
Definition dec_str (n : Z) : bytes := rev (dec_rev 20 n).

(** the 4-byte components of an attribute value (float32 / int32 components) *)
Fixpoint chunks4 (b : bytes) : list bytes :=
  match b with
  | b0 :: b1 :: b2 :: b3 :: r => [b0; b1; b2; b3] :: chunks4 r
  | _ => []
  end.

(** words joined by single blanks *)
Fixpoint join_sp (ws : list bytes) : bytes :=
  match ws with
  | [] => []
  | [w] => w
  | w :: r => w ++ 32 :: join_sp r
  end.
