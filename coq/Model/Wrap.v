(** Model of the wrap prediction transform for DataTypeT = CorrTypeT = int32_t:
      compression/attributes/prediction_schemes/prediction_scheme_wrap_transform_base.h
      .../prediction_scheme_wrap_encoding_transform.h
      .../prediction_scheme_wrap_decoding_transform.h   (64-bit unwrapping, as the code is now)
    All functions are per component (the C++ loops over num_components and treats every
    component identically with the same bounds). *)
From Coq Require Import ZArith Bool.
Local Open Scope Z_scope.

(** The value an int32_t holds after a (two's complement) conversion of the mathematical
    value [x]; this is also static_cast<int32_t>(static_cast<uint32_t>(x)). *)
Definition to_i32 (x : Z) : Z := (x + 2147483648) mod 4294967296 - 2147483648.
Definition in_i32 (x : Z) : bool := (-2147483648 <=? x) && (x <=? 2147483647).

(** The state InitCorrectionBounds establishes. *)
Record wrap_bounds := mk_wrap_bounds {
  wb_min : Z; wb_max : Z; wb_max_dif : Z; wb_min_corr : Z; wb_max_corr : Z }.

(** PredictionSchemeWrapTransformBase::InitCorrectionBounds (returns false = None).
      const int64_t dif = (int64)max_value_ - (int64)min_value_;
      if (dif < 0 || dif >= numeric_limits<int32_t>::max()) return false;
      max_dif_ = 1 + static_cast<DataTypeT>(dif);
      max_correction_ = max_dif_ / 2;  min_correction_ = -max_correction_;
      if ((max_dif_ & 1) == 0) max_correction_ -= 1;
    [dif] fits int32 after the test and 1 + dif <= 2^31-1, so no signed overflow. *)
Definition wrap_init (mn mx : Z) : option wrap_bounds :=
  let dif := mx - mn in
  if (dif <? 0) || (dif >=? 2147483647) then None
  else
    let max_dif := 1 + to_i32 dif in
    let max_corr := Z.quot max_dif 2 in
    let min_corr := - max_corr in
    let max_corr' := if Z.land max_dif 1 =? 0 then max_corr - 1 else max_corr in
    Some (mk_wrap_bounds mn mx max_dif min_corr max_corr').

(** PredictionSchemeWrapDecodingTransform::DecodeTransformData after the two Decode calls:
    additionally rejects min_value > max_value. *)
Definition wrap_dec_init (mn mx : Z) : option wrap_bounds :=
  if mn >? mx then None else wrap_init mn mx.

(** ClampPredictedValue, one component. *)
Definition wrap_clamp (b : wrap_bounds) (p : Z) : Z :=
  if p >? wb_max b then wb_max b else if p <? wb_min b then wb_min b else p.

(** PredictionSchemeWrapEncodingTransform::ComputeCorrection, one component.
      out_corr = original - clamped_predicted;            (int32 arithmetic, stored in int32)
      if (corr < min_correction) corr += max_dif; else if (corr > max_correction) corr -= max_dif;
    Every int32 store is an explicit [to_i32]; [wrap_enc_no_ub] says that none of the three
    signed operations overflows (overflow would be undefined behaviour). *)
Definition wrap_enc (b : wrap_bounds) (orig pred : Z) : Z :=
  let p := wrap_clamp b pred in
  let c0 := to_i32 (orig - p) in
  if c0 <? wb_min_corr b then to_i32 (c0 + wb_max_dif b)
  else if c0 >? wb_max_corr b then to_i32 (c0 - wb_max_dif b)
  else c0.

Definition wrap_enc_no_ub (b : wrap_bounds) (orig pred : Z) : bool :=
  let p := wrap_clamp b pred in
  let c0 := orig - p in
  in_i32 c0 &&
  (if c0 <? wb_min_corr b then in_i32 (c0 + wb_max_dif b)
   else if c0 >? wb_max_corr b then in_i32 (c0 - wb_max_dif b)
   else true).

(** PredictionSchemeWrapDecodingTransform::ComputeOriginalValue, one component.
      int64_t original_val = (int64)clamped_pred + (int64)corr;
      if (original_val > max_value) original_val -= max_dif;
      else if (original_val < min_value) original_val += max_dif;
      out = static_cast<int32_t>(static_cast<uint32_t>(original_val));
    The 64-bit arithmetic cannot overflow for int32 operands, so it is exact here; the
    final conversion is [to_i32].  Defined for every int32 [corr] (also hostile ones). *)
Definition wrap_dec (b : wrap_bounds) (pred corr : Z) : Z :=
  let p := wrap_clamp b pred in
  let v := p + corr in
  let v' := if v >? wb_max b then v - wb_max_dif b
            else if v <? wb_min b then v + wb_max_dif b else v in
  to_i32 v'.
