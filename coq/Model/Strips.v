(** C14 (strip clause) — model of [MeshStripifier] (src/draco/mesh/mesh_stripifier.{h,cc}), read line by line:
    [GetOppositeCorner], [GenerateStripsFromCorner], [FindLongestStripFromFace], [StoreStrip],
    [GenerateTriangleStripsWithPrimitiveRestart], [GenerateTriangleStripsWithDegenerateTriangles].

    The corner table built from the POSITION attribute ([CreateCornerTableFromPositionAttribute]) is NOT
    modelled here (it is property C13's subject): its [opposite_corners_] array is an INPUT of this model
    ([opp : list (option nat)], [None] = kInvalidCornerIndex) and the harness reads it off the library's
    table.  Everything else the stripifier uses of the table is arithmetic on corner ids:
    Face(c) = c / 3, Next / Previous inside the face, SwingLeft(c) = Next(Opposite(Next(c))).
    [Mesh::CornerToPointId(c)] = faces[c / 3][c mod 3].

    Remark on the source: [GetOppositeCorner] tests [oci < 0] on an unsigned index type, which is never true;
    the invalid corner is nevertheless handled because Next/Previous map it to itself and
    CornerToPointId maps it to kInvalidPointIndex, which differs from every real point id. *)
From Coq Require Import List ZArith Bool Arith.
From Draco Require Import Model.Dedup.
Import ListNotations.

Definition c_next (c : nat) : nat := if Nat.eqb ((S c) mod 3) 0 then c - 2 else S c.   (* LocalIndex(++c) ? c : c - 3 *)
Definition c_prev (c : nat) : nat := if Nat.eqb (c mod 3) 0 then c + 2 else c - 1.     (* LocalIndex(c) ? c - 1 : c + 2 *)
Definition c_face (c : nat) : nat := c / 3.

Definition face_corner (f : face) (k : nat) : nat :=
  let '(a, b, c) := f in match k with 0 => a | 1 => b | _ => c end.
(** [CornerToPointIndex] *)
Definition corner_point (faces : list face) (c : nat) : nat := face_corner (nth (c / 3) faces (0, 0, 0)) (c mod 3).

Section Stripifier.
  Variable faces : list face.
  Variable opp : list (option nat).           (* corner_table_->Opposite *)

  Definition opposite (c : nat) : option nat := nth c opp None.

  (** [GetOppositeCorner]: the opposite corner unless the shared edge is an attribute seam *)
  Definition get_opposite (ci : nat) : option nat :=
    match opposite ci with
    | None => None
    | Some oci =>
      if negb (Nat.eqb (corner_point faces (c_next ci)) (corner_point faces (c_prev oci))) then None
      else if negb (Nat.eqb (corner_point faces (c_prev ci)) (corner_point faces (c_next oci))) then None
      else Some oci
    end.

  (** the [while (!is_face_visited_[fi])] loop of one pass.  State: visited flags, strip faces so far,
      start corner, number of faces added in this pass.  Fuel = an upper bound on the iterations (every
      iteration visits a new face); [None] = fuel exhausted (excluded by the theorems / never seen). *)
  Fixpoint grow (fuel : nat) (backward : bool) (vis : list bool) (ci fi nadded start : nat) (acc : list nat)
    : option (list bool * list nat * nat * nat) :=
    match fuel with
    | O => None
    | S k =>
      if nth fi vis true then Some (vis, acc, start, nadded)
      else
        let vis' := upd fi true vis in
        let acc' := acc ++ [fi] in
        let n := S nadded in
        let '(ci1, start1) :=
            if Nat.ltb 1 n then
              if Nat.odd n then (c_next ci, start)                          (* odd number of faces added *)
              else (c_prev ci, if backward then ci else start)              (* even: backward pass moves the start *)
            else (ci, start) in
        match get_opposite ci1 with
        | None => Some (vis', acc', start1, n)                              (* break *)
        | Some ci2 => grow k backward vis' ci2 (c_face ci2) n start1 acc'
        end
    end.

  Fixpoint unvisit (fs : list nat) (vis : list bool) : list bool :=
    match fs with [] => vis | f :: r => unvisit r (upd f false vis) end.

  (** [GenerateStripsFromCorner]: returns strip_faces_[id] and strip_start_corners_[id]; the visited flags are
      restored before returning, so they are not part of the result. *)
  Definition strip_from_corner (vis : list bool) (ci : nat) : option (list nat * nat) :=
    let fuel := S (length faces) in
    match grow fuel false vis ci (c_face ci) 0 ci [] with
    | None => None
    | Some (vis1, acc1, start1, _) =>
      (* backward pass *)
      match get_opposite (c_prev start1) with
      | None => Some (acc1, start1)                                         (* seam or boundary: break *)
      | Some _ =>
        match opposite (c_next (c_next start1)) with                        (* SwingLeft(Next(start)) = Next(Opposite(Next(Next(start)))) *)
        | None => Some (acc1, start1)
        | Some o =>
          let ci := c_next o in
          match grow fuel true vis1 ci (c_face ci) 0 start1 acc1 with
          | None => None
          | Some (vis2, acc2, start2, n2) =>
            if Nat.odd n2 then Some (removelast acc2, start2)               (* drop the last face of an odd backward strip *)
            else Some (acc2, start2)
          end
        end
      end
    end.

  (** [FindLongestStripFromFace]: the first of the three directions with the strictly longest strip *)
  Definition find_longest (vis : list bool) (fi : nat) : option (list nat * nat) :=
    match strip_from_corner vis (3 * fi), strip_from_corner vis (3 * fi + 1), strip_from_corner vis (3 * fi + 2) with
    | Some s0, Some s1, Some s2 =>
      let best := if Nat.ltb 0 (length (fst s0)) then Some s0 else None in
      let best := match best with
                  | Some b => if Nat.ltb (length (fst b)) (length (fst s1)) then Some s1 else Some b
                  | None => if Nat.ltb 0 (length (fst s1)) then Some s1 else None end in
      match best with
      | Some b => if Nat.ltb (length (fst b)) (length (fst s2)) then Some s2 else Some b
      | None => if Nat.ltb 0 (length (fst s2)) then Some s2 else None
      end
    | _, _, _ => None
    end.

  (** [StoreStrip]: walks [n] faces from [ci] using the PLAIN Opposite; emits point ids; marks faces visited.
      Returns (emitted indices, visited flags, last_encoded_point_).  [None]: the walk left the mesh
      (Opposite returned kInvalidCornerIndex although faces remain) — undefined behaviour in the C++. *)
  Fixpoint store_strip (n i : nat) (ci : nat) (vis : list bool) (last : nat) : option (list nat * list bool * nat) :=
    match n with
    | O => Some ([], vis, last)
    | S k =>
      let vis' := upd (c_face ci) true vis in
      let '(out, last', ci1) :=
          if Nat.eqb i 0 then
            ([corner_point faces ci; corner_point faces (c_next ci); corner_point faces (c_prev ci)],
             corner_point faces (c_prev ci), ci)
          else
            ([corner_point faces ci], corner_point faces ci, if Nat.odd i then c_prev ci else c_next ci) in
      match k with
      | O => Some (out, vis', last')           (* the final Opposite() result is not used *)
      | S _ =>
        match opposite ci1 with
        | None => None
        | Some ci2 =>
          match store_strip k (S i) ci2 vis' last' with
          | None => None
          | Some (o2, v2, l2) => Some (out ++ o2, v2, l2)
          end
        end
      end
    end.

  (** the main loops; an emitted [None] is the primitive restart index *)
  Fixpoint gen_restart (todo fi : nat) (vis : list bool) (nstrips : nat) : option (list (option nat)) :=
    match todo with
    | O => Some []
    | S t =>
      if nth fi vis true then gen_restart t (S fi) vis nstrips
      else
        match find_longest vis fi with
        | None => None
        | Some (sf, start) =>
          match store_strip (length sf) 0 start vis 0 with
          | None => None
          | Some (out, vis', _) =>
            match gen_restart t (S fi) vis' (S nstrips) with
            | None => None
            | Some rest => Some ((if Nat.ltb 0 nstrips then [None] else []) ++ map Some out ++ rest)
            end
          end
        end
    end.

  Fixpoint gen_degenerate (todo fi : nat) (vis : list bool) (nstrips nenc last : nat) : option (list nat) :=
    match todo with
    | O => Some []
    | S t =>
      if nth fi vis true then gen_degenerate t (S fi) vis nstrips nenc last
      else
        match find_longest vis fi with
        | None => None
        | Some (sf, start) =>
          let sp := corner_point faces start in
          (* separators: last point again, the new start point, and once more if the face count is odd *)
          let '(sep, nenc1) :=
              if Nat.ltb 0 nstrips then
                if Nat.odd (nenc + 2) then ([last; sp; sp], nenc + 3) else ([last; sp], nenc + 2)
              else ([], nenc) in
          match store_strip (length sf) 0 start vis last with
          | None => None
          | Some (out, vis', last') =>
            match gen_degenerate t (S fi) vis' (S nstrips) (nenc1 + length sf) last' with
            | None => None
            | Some rest => Some (sep ++ out ++ rest)
            end
          end
        end
    end.

  (* ---- specification helpers (used by Proofs/Strips_proofs.v and evaluated by the driver) ---- *)
  (** the corner StoreStrip applies Opposite to at step [i] *)
  Definition step_corner (i ci : nat) : nat :=
    if Nat.eqb i 0 then ci else if Nat.odd i then c_prev ci else c_next ci.
  (** corners of the faces StoreStrip visits *)
  Fixpoint walk (n i ci : nat) : option (list nat) :=
    match n with
    | O => Some []
    | S k => match k with
             | O => Some [ci]
             | S _ => match opposite (step_corner i ci) with
                      | None => None
                      | Some c2 => option_map (cons ci) (walk k (S i) c2)
                      end
             end
    end.
  (** every edge the walk crosses passes GetOppositeCorner's seam test *)
  Fixpoint walk_ok (n i ci : nat) : bool :=
    match n with
    | O => true
    | S k => match k with
             | O => true
             | S _ => match get_opposite (step_corner i ci) with
                      | None => false
                      | Some c2 => walk_ok k (S i) c2
                      end
             end
    end.
  (** the (length, start corner) of every strip the main loop stores, in order *)
  Fixpoint gen_plan (todo fi : nat) (vis : list bool) : option (list (nat * nat)) :=
    match todo with
    | O => Some []
    | S t =>
      if nth fi vis true then gen_plan t (S fi) vis
      else
        match find_longest vis fi with
        | None => None
        | Some (sf, start) =>
          match store_strip (length sf) 0 start vis 0 with
          | None => None
          | Some (_, vis', _) =>
            match gen_plan t (S fi) vis' with
            | None => None
            | Some rest => Some ((length sf, start) :: rest)
            end
          end
        end
    end.
End Stripifier.

Definition strips_restart (faces : list face) (opp : list (option nat)) : option (list (option nat)) :=
  gen_restart faces opp (length faces) 0 (repeat false (length faces)) 0.
Definition strips_degenerate (faces : list face) (opp : list (option nat)) : option (list nat) :=
  gen_degenerate faces opp (length faces) 0 (repeat false (length faces)) 0 0 0.

(** every stored strip crosses only edges that pass the seam test (a consequence of [opp_wf], see
    Proofs/Strips_proofs.v [gen_plan_spec]; kept as an executable cross-check) *)
Definition strips_walks_ok (faces : list face) (opp : list (option nat)) : bool :=
  match gen_plan faces opp (length faces) 0 (repeat false (length faces)) with
  | None => false
  | Some pl => forallb (fun ns => walk_ok faces opp (fst ns) 0 (snd ns)) pl
  end.

(** decoding one strip with alternating winding: triangle j = (s_j, s_j+1, s_j+2), corners 0 and 1 swapped
    for odd j *)
Fixpoint decode_strip (j : nat) (s : list nat) : list face :=
  match s with
  | a :: r =>
    match r with
    | b :: c :: _ => (if Nat.odd j then (b, a, c) else (a, b, c)) :: decode_strip (S j) r
    | _ => []
    end
  | [] => []
  end.

(* ---- decoding the two output streams (specification side of C14's strip clause) ---- *)
(** primitive-restart stream: split at the restart index ([None]), every run is one strip *)
Fixpoint split_restart (s : list (option nat)) : list nat * list (list nat) :=
  match s with
  | [] => ([], [])
  | None :: r => let '(c, rs) := split_restart r in ([], c :: rs)
  | Some x :: r => let '(c, rs) := split_restart r in (x :: c, rs)
  end.
Definition restart_runs (s : list (option nat)) : list (list nat) := let '(c, rs) := split_restart s in c :: rs.
Definition decode_restart (s : list (option nat)) : list face := flat_map (decode_strip 0) (restart_runs s).
(** degenerate-triangle stream: ONE strip; triangles with two equal indices are dropped (zero area) *)
Definition tri_nondeg (f : face) : bool :=
  let '(a, b, c) := f in negb (Nat.eqb a b) && negb (Nat.eqb a c) && negb (Nat.eqb b c).
Definition decode_degenerate (s : list nat) : list face := filter tri_nondeg (decode_strip 0 s).
(** the well-formedness the strip theorems need of the opposite-corner table (symmetric pairing of existing
    corners, C13 clause 1a), as a computable test *)
Definition opp_wf_b (faces : list face) (opp : list (option nat)) : bool :=
  forallb (fun a => match nth a opp None with
                    | None => true
                    | Some b => Nat.ltb b (3 * length faces) &&
                                match nth b opp None with Some a' => Nat.eqb a' a | None => false end
                    end) (seq 0 (length opp)).
