(** The raw scheme of EncodeSymbols with the unique-symbols bit length as POLICY.
    EncodeRawSymbols derives the bit length from the number of unique symbols and the compression level
    ([default_raw_bit_length] = [raw_bit_length] of Model/SymbolCoding.v), STORES it in the stream (second byte of a
    raw block) and DecodeRawSymbols just reads it: every bit length for which Create accepts the histogram gives a
    decodable block.  So, like the tagged-vs-raw choice, the bit length is an input of the model encoder
    ([enc_raw_with], [enc_symbols_with]); the driver reads it off the implementation's bytes, the round-trip theorems
    quantify over it, and the level -> bit-length function of the current code is tied separately (case kind rbl).
    A retuning of that function is then a policy difference, not a disagreement about the coder. *)
From Coq Require Import FMapPositive.
From Draco Require Import Base.Codec Model.Varint Model.RansSymbol Model.RansFloat Model.SymbolCoding.
Local Open Scope Z_scope.

Definition default_raw_bit_length (num_unique lvl : Z) : Z := raw_bit_length num_unique lvl.

(** EncodeRawSymbols with the bit length [bl] chosen by the caller of the model.  [None]: more than 2^18 - 1 unique
    symbols (`return false` before any choice), a bit length outside 1..18 (no such encoder instance), or Create
    refusing the histogram at that precision (the C++ would go on with an unfinished table). *)
Definition enc_raw_with (bl : Z) (syms : list Z) : option bytes :=
  let cnt := count_syms syms (PositiveMap.empty Z) in
  let num_unique := Z.of_nat (PositiveMap.cardinal cnt) in
  let b := (if 0 <? num_unique then Z.log2 num_unique else 0) + 1 in
  if b >? 18 then None else
  if (bl <? 1) || (bl >? 18) then None else
  let freqs := dense cnt 0 (Z.to_nat (zmax_list syms + 1)) in
  match rans_symbol_encode (rans_precision_bits bl) freqs syms with
  | None => None
  | Some body => Some (bl :: body)
  end.

Definition enc_symbols_with (method bl nc : Z) (syms : list Z) : option bytes :=
  match syms with
  | [] => Some []
  | _ =>
    if negb (sym_guard nc syms) then None else
    let nc' := if nc <=? 0 then 1 else nc in
    let vbl := bit_length (zmax_list syms) in
    if vbl >=? 32 then None else
    if method =? 0 then
      match enc_tagged (Z.to_nat nc') syms with Some b => Some (0 :: b) | None => None end
    else if method =? 1 then
      if vbl >? 18 then None else
      match enc_raw_with bl syms with Some b => Some (1 :: b) | None => None end
    else None
  end.
