(** C19 — independent encoder/decoder instances can run concurrently: the abstract model.

    What is modelled.  A process is a pool of threads.  Thread [i] owns a local state (in the
    library: its Encoder/ExpertEncoder/Decoder object, its EncoderBuffer/DecoderBuffer, its
    Mesh/PointCloud, and everything those calls allocate) and executes a *program*: a list of
    atomic steps.  A step is an arbitrary total function of (its thread's local state, the
    process-shared state) returning the new local state, the new shared state and an output.
    A *schedule* is a list of thread ids; executing it performs, for each id in turn, the next
    step of that thread (a finished thread's turn is a no-op), so the schedules range over ALL
    interleavings that respect every thread's program order — for any number of threads (the
    pool is indexed by [nat]; threads beyond the ones in use have empty programs).

    What is NOT modelled (see Properties_C19.v and props/reg/C19.json): steps are atomic and
    sequentially consistent (no C++ memory model, no torn accesses), and "shared state" is exactly
    what the generated footprint (Gen/Footprint.v) enumerates: static-storage data of the library
    reachable from the codec entry points plus libc functions with hidden state.  Heap objects
    that a *caller* shares between threads and libc/allocator internals are outside the model.

    This file contains definitions only (no proofs), so it stays loadable if a proof breaks. *)
From Coq Require Import String List Arith PeanoNat.
Import ListNotations.

Set Implicit Arguments.

Section Interleave.
  (** [L]: thread-local state, [Sh]: process-shared state, [O]: observable outputs of a step
      (for the codec: the bytes appended / the geometry values produced / the Status). *)
  Variables (L Sh O : Type).

  Definition step := L -> Sh -> (L * Sh * O).
  Definition program := list step.

  (** [t_out] accumulates outputs, newest first. *)
  Record thread := mkThread { t_local : L; t_todo : program; t_out : list O }.

  Definition pool := nat -> thread.
  Definition upd (p : pool) (i : nat) (t : thread) : pool :=
    fun j => if Nat.eqb j i then t else p j.

  (** One turn of a thread against the shared state. *)
  Definition step_thread (t : thread) (sh : Sh) : thread * Sh :=
    match t_todo t with
    | [] => (t, sh)
    | s :: rest =>
        match s (t_local t) sh with
        | (l', sh', o) => (mkThread l' rest (o :: t_out t), sh')
        end
    end.

  (** Concurrent execution under a schedule. *)
  Fixpoint run (sched : list nat) (p : pool) (sh : Sh) : pool * Sh :=
    match sched with
    | [] => (p, sh)
    | i :: rest =>
        match step_thread (p i) sh with
        | (t', sh') => run rest (upd p i t') sh'
        end
    end.

  (** Thread run alone for [n] turns from the same initial shared state. *)
  Fixpoint run_alone (n : nat) (t : thread) (sh : Sh) : thread * Sh :=
    match n with
    | 0 => (t, sh)
    | S n' =>
        match step_thread t sh with
        | (t', sh') => run_alone n' t' sh'
        end
    end.

  (** Number of turns thread [i] gets in a schedule. *)
  Definition turns (i : nat) (sched : list nat) : nat := count_occ Nat.eq_dec sched i.

  (** A schedule is complete for a pool when every thread gets exactly as many turns as it has
      steps (i.e. the schedule is an interleaving of the whole programs). *)
  Definition complete (sched : list nat) (p : pool) : Prop :=
    forall i, turns i sched = length (t_todo (p i)).

  (** The sequential result of thread [i]: all its steps, alone. *)
  Definition alone_result (p : pool) (sh : Sh) (i : nat) : thread :=
    fst (run_alone (length (t_todo (p i))) (p i) sh).

  (** Every step still to be executed by any thread satisfies [P] (indexed by thread id). *)
  Definition all_steps (P : nat -> step -> Prop) (p : pool) : Prop :=
    forall i s, In s (t_todo (p i)) -> P i s.

  (** "No step writes the shared state" (relative to an invariant [Inv] of the shared state that
      delimits the states the statement is about; take [fun _ => True] for all states). *)
  Definition writes_nothing (Inv : Sh -> Prop) (s : step) : Prop :=
    forall l sh, Inv sh -> snd (fst (s l sh)) = sh.
End Interleave.

(** ** Shared state as a store of cells, with per-thread footprints (frame property). *)
Section Frame.
  Variables (L C V O : Type).

  Definition store := C -> V.
  Definition agree (A : C -> Prop) (s1 s2 : store) : Prop := forall c, A c -> s1 c = s2 c.

  (** A step respects access set [A] and write set [W]:
      it changes no cell outside [W], and its whole effect (new local state, output, and the new
      contents of the cells in [A]) depends on the shared store only through the cells in [A]. *)
  Record respects (A W : C -> Prop) (s : step L store O) : Prop := mkRespects {
    rs_write : forall l sh c, ~ W c -> snd (fst (s l sh)) c = sh c;
    rs_read : forall l sh1 sh2, agree A sh1 sh2 ->
        fst (fst (s l sh1)) = fst (fst (s l sh2)) /\
        snd (s l sh1) = snd (s l sh2) /\
        agree A (snd (fst (s l sh1))) (snd (fst (s l sh2)))
  }.

  (** Thread [j] writes nothing that thread [i] accesses. *)
  Definition separated (A W : nat -> C -> Prop) : Prop :=
    forall i j c, i <> j -> W j c -> A i c -> False.
End Frame.

(** ** Shared state = the named cells of a footprint list (what Gen/Footprint.v enumerates). *)
Section Cells.
  Variable V : Type.
  (** The process-shared state seen by the codec: one value per named cell. *)
  Definition cell_store := list (string * V).
  Definition has_domain (cells : list string) (st : cell_store) : Prop := map fst st = cells.

  (** A step is confined to a footprint when, started in a shared state consisting of exactly the
      listed cells, it leaves a shared state consisting of exactly the listed cells: the step has
      no other process-shared state to write to.  (This is the modelling assumption that ties
      steps to the code: a codec step can reach static-storage data only through a symbol that
      survives in the linked image, and those are what tools/footprint.py lists.) *)
  Definition confined (L O : Type) (cells : list string) (s : step L cell_store O) : Prop :=
    forall l sh, has_domain cells sh -> has_domain cells (snd (fst (s l sh))).
End Cells.

(** A concrete two-thread system used for the non-vacuity examples and for the tightness lemma:
    each step reads the first cell, outputs it and increments it. *)
Definition bump_step : step nat (cell_store nat) nat :=
  fun l sh =>
    match sh with
    | (k, v) :: r => (v, (k, S v) :: r, v)
    | [] => (l, [], 0)
    end.

Definition bump_pool : pool nat (cell_store nat) nat :=
  fun i => match i with
           | 0 | 1 => mkThread 0 [bump_step] []
           | _ => mkThread 0 [] []
           end.

Definition zero_store (cells : list string) : cell_store nat := map (fun k => (k, 0)) cells.
