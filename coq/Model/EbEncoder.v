(** Model of the Edgebreaker connectivity ENCODER state machine:
    compression/mesh/mesh_edgebreaker_encoder_impl.cc
      MeshEdgebreakerEncoderImpl<TraversalEncoder>::EncodeConnectivity        = [eb_encode]   (the loop over corners
          choosing start faces, interior / boundary start configuration, the counts written into the header)
      ::FindHoles                        = [find_holes]
      ::FindInitFaceConfiguration        = [find_init]
      ::EncodeHole                       = [encode_hole]
      ::EncodeConnectivityFromCorner     = [from_corner]  ([outer] = `while (!corner_traversal_stack_.empty())`,
                                                           [inner] = `while (num_visited_faces < num_faces)`)
      ::GetRightCorner/GetLeftCorner/IsRightFaceVisited/IsLeftFaceVisited, ::CheckAndStoreTopologySplitEvent,
      ::GetSplitSymbolIdOnFace.
    The corner table is the one of Model/CornerTable.v (CornerTable::Create, property C13): corner and vertex indices are
    [nat], kInvalidCornerIndex is [None].  The traversal encoder is abstract (standard traversal: EncodeSymbol stores the
    symbol, EncodeStartFaceConfiguration stores the bit, NewCornerReached is a no-op): the OUTPUT of the model is
        symbols in encoding order, topology split events in vector order, start-face bits in order,
        processed_connectivity_corners_ as it is at the end of EncodeConnectivity (reversed, init-face corners appended),
        and the four counts written into the stream header.
    Attribute seams (EncodeAttributeConnectivitiesOnFace) do not influence any of these and are outside this model.

    EVERY vector access goes through a bounds test and yields [EOob] where the C++ would index outside the vector
    (visited_faces_[Face(kInvalidCornerIndex)], visited_holes_[-1], back()/pop_back() of an empty stack ...); the
    loops that are not obviously bounded take fuel and yield [EFuel] on exhaustion.  The theorems of
    Proofs/EbEncoder_proofs.v exclude both for every well-formed corner table.  [EFail] is the clean error return
    ("All triangles are degenerate."). *)
From Coq Require Import List Arith Bool PeanoNat ZArith.
Import ListNotations.
From Draco Require Import Model.CornerTable.

Inductive eres (A : Type) : Type :=
| EOk (a : A)
| EFail          (* Status(DRACO_ERROR, ...) *)
| EOob           (* the C++ would index a vector out of range / pop an empty vector here *)
| EFuel.         (* loop fuel exhausted *)
Arguments EOk {A} a.
Arguments EFail {A}.
Arguments EOob {A}.
Arguments EFuel {A}.

Definition ebind {A B} (r : eres A) (f : A -> eres B) : eres B :=
  match r with EOk a => f a | EFail => EFail | EOob => EOob | EFuel => EFuel end.
Notation "x <-- e ;; k" := (ebind e (fun x => k)) (at level 61, e at next level, right associativity).

(** vector[i] / vector[i] = x with the bounds test *)
Definition eget {A} (l : list A) (i : nat) : eres A :=
  match nth_error l i with Some x => EOk x | None => EOob end.
Definition eset {A} (l : list A) (i : nat) (x : A) : eres (list A) :=
  if i <? length l then EOk (upd l i x) else EOob.

Definition TOPOLOGY_C : Z := 0%Z.
Definition TOPOLOGY_S : Z := 1%Z.
Definition TOPOLOGY_L : Z := 3%Z.
Definition TOPOLOGY_R : Z := 5%Z.
Definition TOPOLOGY_E : Z := 7%Z.
Definition LEFT_FACE_EDGE : Z := 0%Z.
Definition RIGHT_FACE_EDGE : Z := 1%Z.

(** the encoder's mutable members *)
Record est : Type := mk_est {
  vf : list bool;              (* visited_faces_           (size mesh_->num_faces()) *)
  vv : list bool;              (* visited_vertex_ids_      (size corner_table_->num_vertices()) *)
  vhole : list bool;           (* visited_holes_ *)
  last_id : Z;                 (* last_encoded_symbol_id_ *)
  nsplit : nat;                (* num_split_symbols_ *)
  evs : list (Z * Z * Z);      (* topology_split_event_data_ (source_symbol_id, split_symbol_id, source_edge); head = last pushed *)
  f2s : list (nat * Z);        (* face_to_split_symbol_map_; head = last assignment *)
  pcc : list nat;              (* processed_connectivity_corners_; head = last pushed *)
  syms : list Z;               (* the traversal encoder's symbols_; head = last pushed *)
  stack : list (option nat)    (* corner_traversal_stack_; head = back() *)
}.

Definition with_vf s x := mk_est x (vv s) (vhole s) (last_id s) (nsplit s) (evs s) (f2s s) (pcc s) (syms s) (stack s).
Definition with_vv s x := mk_est (vf s) x (vhole s) (last_id s) (nsplit s) (evs s) (f2s s) (pcc s) (syms s) (stack s).
Definition with_vhole s x := mk_est (vf s) (vv s) x (last_id s) (nsplit s) (evs s) (f2s s) (pcc s) (syms s) (stack s).
Definition with_last_id s x := mk_est (vf s) (vv s) (vhole s) x (nsplit s) (evs s) (f2s s) (pcc s) (syms s) (stack s).
Definition with_nsplit s x := mk_est (vf s) (vv s) (vhole s) (last_id s) x (evs s) (f2s s) (pcc s) (syms s) (stack s).
Definition with_evs s x := mk_est (vf s) (vv s) (vhole s) (last_id s) (nsplit s) x (f2s s) (pcc s) (syms s) (stack s).
Definition with_f2s s x := mk_est (vf s) (vv s) (vhole s) (last_id s) (nsplit s) (evs s) x (pcc s) (syms s) (stack s).
Definition with_pcc s x := mk_est (vf s) (vv s) (vhole s) (last_id s) (nsplit s) (evs s) (f2s s) x (syms s) (stack s).
Definition with_syms s x := mk_est (vf s) (vv s) (vhole s) (last_id s) (nsplit s) (evs s) (f2s s) (pcc s) x (stack s).
Definition with_stack s x := mk_est (vf s) (vv s) (vhole s) (last_id s) (nsplit s) (evs s) (f2s s) (pcc s) (syms s) x.

Section Encoder.
  Variable c2v : list nat.             (* corner_table_->corner_to_vertex_map_ *)
  Variable opp : list (option nat).    (* corner_table_->opposite_corners_ *)

  Definition NC : nat := length c2v.   (* num_corners() *)
  Definition NF : nat := NC / 3.       (* num_faces() = mesh_->num_faces() *)
  Definition swing_fuel : nat := S NC.

  (** CornerTable::Vertex / Opposite of a VALID corner index (reads corner_to_vertex_map_[c] / opposite_corners_[c]) *)
  Definition e_vertex (c : nat) : eres nat := eget c2v c.
  Definition e_opp (c : nat) : eres (option nat) := eget opp c.
  (** GetRightCorner = Opposite(Next(c)),  GetLeftCorner = Opposite(Previous(c)) *)
  Definition right_corner (c : nat) : eres (option nat) := e_opp (next_c c).
  Definition left_corner (c : nat) : eres (option nat) := e_opp (prev_c c).
  (** IsRightFaceVisited / IsLeftFaceVisited: `if (opp != kInvalid) return visited_faces_[Face(opp)]; return true;` *)
  Definition face_visited_opt (vfl : list bool) (o : option nat) : eres bool :=
    match o with Some oc => eget vfl (oc / 3) | None => EOk true end.

  (** the inner loop shared by FindHoles and EncodeHole:
        while (Opposite(corner_id) != kInvalid) { corner_id = Opposite(corner_id); corner_id = Next(corner_id); } *)
  Fixpoint bnd_swing (fuel : nat) (c : nat) : eres nat :=
    match fuel with
    | O => EFuel
    | S k => o <-- e_opp c ;; match o with None => EOk c | Some oc => bnd_swing k (next_c oc) end
    end.

  (** ---- FindHoles.  [hid] = vertex_hole_id_ (None = -1), [vh] = visited_holes_ *)
  (** `while (vertex_hole_id_[boundary_vert_id] == -1) { ... }` *)
  Fixpoint fh_walk (fuel : nat) (hid : list (option nat)) (bid : nat) (c bv : nat) : eres (list (option nat)) :=
    match fuel with
    | O => EFuel
    | S k =>
      h <-- eget hid bv ;;
      match h with
      | Some _ => EOk hid
      | None =>
        hid <-- eset hid bv (Some bid) ;;
        c <-- bnd_swing swing_fuel (next_c c) ;;
        bv <-- e_vertex (next_c c) ;;
        fh_walk k hid bid c bv
      end
    end.

  (** one iteration of `for (CornerIndex i(0); i < num_corners; ++i)` *)
  Definition fh_corner (st : eres (list (option nat) * list bool)) (i : nat) : eres (list (option nat) * list bool) :=
    st <-- st ;;
    let '(hid, vh) := st in
    if is_degenerated c2v (i / 3) then EOk (hid, vh) else
    o <-- e_opp i ;;
    match o with
    | Some _ => EOk (hid, vh)
    | None =>
      bv <-- e_vertex (next_c i) ;;
      h <-- eget hid bv ;;
      match h with
      | Some _ => EOk (hid, vh)
      | None =>
        let bid := length vh in
        hid <-- fh_walk (S (length hid)) hid bid i bv ;;
        EOk (hid, vh ++ [false])
      end
    end.

  (** [nv] = corner_table_->num_vertices() *)
  Definition find_holes (nv : nat) : eres (list (option nat) * list bool) :=
    fold_left fh_corner (seq 0 NC) (EOk (repeat None nv, [])).

  Variable hid : list (option nat).    (* vertex_hole_id_ after FindHoles (never written afterwards) *)

  (** ---- EncodeHole(start_corner_id, encode_first_vertex) *)
  (** `while (act_vertex_id != start_vertex_id) { ... }` *)
  Fixpoint eh_walk (fuel : nat) (vvl : list bool) (c act start_v : nat) : eres (list bool) :=
    match fuel with
    | O => EFuel
    | S k =>
      if act =? start_v then EOk vvl else
      vvl <-- eset vvl act true ;;
      c <-- bnd_swing swing_fuel (next_c c) ;;
      act <-- e_vertex (prev_c c) ;;
      eh_walk k vvl c act start_v
    end.

  Definition encode_hole (s : est) (start_c : nat) (first : bool) : eres est :=
    c <-- bnd_swing swing_fuel (prev_c start_c) ;;
    start_v <-- e_vertex start_c ;;
    vvl <-- (if first then eset (vv s) start_v true else EOk (vv s)) ;;
    h <-- eget hid start_v ;;
    match h with
    | None => EOob                                   (* visited_holes_[-1] *)
    | Some hole =>
      vhl <-- eset (vhole s) hole true ;;
      _sv <-- e_vertex (next_c c) ;;                 (* start_vert_id: read, never used *)
      act <-- e_vertex (prev_c c) ;;
      vvl <-- eh_walk swing_fuel vvl c act start_v ;;
      EOk (with_vhole (with_vv s vvl) vhl)
    end.

  (** ---- FindInitFaceConfiguration(face_id, &out_corner) : (out_corner, interior?) *)
  (** `while (right_corner != kInvalid) { corner_index = right_corner; right_corner = SwingRight(right_corner); }` *)
  Fixpoint fi_swing (fuel : nat) (c : nat) : eres nat :=
    match fuel with
    | O => EFuel
    | S k =>
      o <-- e_opp (prev_c c) ;;
      match o with None => EOk c | Some oc => fi_swing k (prev_c oc) end
    end.

  Fixpoint fi_loop (k : nat) (c : nat) : eres (nat * bool) :=
    match k with
    | O => EOk (c, true)
    | S k' =>
      o <-- e_opp c ;;
      match o with
      | None => EOk (c, false)
      | Some _ =>
        v <-- e_vertex c ;;
        h <-- eget hid v ;;
        match h with
        | Some _ => c' <-- fi_swing swing_fuel c ;; EOk (prev_c c', false)
        | None => fi_loop k' (next_c c)
        end
      end
    end.
  Definition find_init (f : nat) : eres (nat * bool) := fi_loop 3 (3 * f).

  (** ---- GetSplitSymbolIdOnFace (unordered_map::find; -1 when absent) *)
  Fixpoint split_symbol_on_face (m : list (nat * Z)) (f : nat) : option Z :=
    match m with [] => None | (f', id) :: r => if f' =? f then Some id else split_symbol_on_face r f end.

  (** CheckAndStoreTopologySplitEvent(src_symbol_id, _, src_edge, neighbor_face_id), called only when the neighbouring
      face id is valid: [o] = the corner whose face is the neighbour *)
  Definition check_split (s : est) (edge : Z) (o : option nat) : est :=
    match o with
    | None => s
    | Some oc =>
      match split_symbol_on_face (f2s s) (oc / 3) with
      | None => s
      | Some id => with_evs s ((last_id s, id, edge) :: evs s)
      end
    end.

  Definition emit (s : est) (sym : Z) : est := with_syms s (sym :: syms s).

  (** ---- EncodeConnectivityFromCorner: `while (num_visited_faces < num_faces)`; [k] = num_faces - num_visited_faces,
      [c] = corner_id.  Leaving through [k = 0] is the loop condition turning false (control returns to the outer
      `while`, the stack untouched). *)
  Fixpoint inner (k : nat) (s : est) (c : option nat) : eres est :=
    match k with
    | O => EOk s
    | S k' =>
      match c with
      | None => EOob                                 (* visited_faces_[Face(kInvalidCornerIndex).value()] *)
      | Some c =>
        let s := with_last_id s (last_id s + 1)%Z in
        let f := c / 3 in
        vfl <-- eset (vf s) f true ;;
        let s := with_pcc (with_vf s vfl) (c :: pcc s) in
        v <-- e_vertex c ;;
        h <-- eget hid v ;;
        let on_boundary := match h with Some _ => true | None => false end in
        vis <-- eget (vv s) v ;;
        s1 <-- (if vis then EOk s else vvl <-- eset (vv s) v true ;; EOk (with_vv s vvl)) ;;
        if negb vis && negb on_boundary then
          rc <-- right_corner c ;;
          inner k' (emit s1 TOPOLOGY_C) rc
        else
          let s := s1 in
          rc <-- right_corner c ;;
          lc <-- left_corner c ;;
          rfv <-- face_visited_opt (vf s) rc ;;
          if rfv then
            let s := check_split s RIGHT_FACE_EDGE rc in
            lfv <-- face_visited_opt (vf s) lc ;;
            if lfv then
              let s := check_split s LEFT_FACE_EDGE lc in
              let s := emit s TOPOLOGY_E in
              match stack s with
              | [] => EOob                           (* pop_back() of an empty vector *)
              | _ :: r => EOk (with_stack s r)
              end
            else
              inner k' (emit s TOPOLOGY_R) lc
          else
            lfv <-- face_visited_opt (vf s) lc ;;
            if lfv then
              let s := check_split s LEFT_FACE_EDGE lc in
              inner k' (emit s TOPOLOGY_L) rc
            else
              let s := emit s TOPOLOGY_S in
              let s := with_nsplit s (S (nsplit s)) in
              s <-- (match h with
                     | Some hole =>
                       b <-- eget (vhole s) hole ;;
                       if b then EOk s else encode_hole s c false
                     | None => EOk s
                     end) ;;
              let s := with_f2s s ((f, last_id s) :: f2s s) in
              match stack s with
              | [] => EOob                           (* back() of an empty vector *)
              | _ :: r => EOk (with_stack s (rc :: lc :: r))
              end
        end
    end.

  (** `while (!corner_traversal_stack_.empty())` *)
  Fixpoint outer (fuel : nat) (s : est) : eres est :=
    match fuel with
    | O => EFuel
    | S k =>
      match stack s with
      | [] => EOk s
      | None :: r => outer k (with_stack s r)
      | Some c :: r =>
        b <-- eget (vf s) (c / 3) ;;
        if b then outer k (with_stack s r)
        else s <-- inner NF s (Some c) ;; outer k s
      end
    end.

  Definition outer_fuel : nat := 2 * NF + 2.

  Definition from_corner (s : est) (c : option nat) : eres est :=
    outer outer_fuel (with_stack s [c]).

  (** ---- one iteration of the `for (int c_id = 0; c_id < num_corners; ++c_id)` loop of EncodeConnectivity;
      state = (members, start-face bits (head = last encoded), init_face_connectivity_corners (head = last pushed)) *)
  Definition ec_corner (st : eres (est * list bool * list nat)) (c_id : nat) : eres (est * list bool * list nat) :=
    st <-- st ;;
    let '(s, bits, inits) := st in
    let f := c_id / 3 in
    b <-- eget (vf s) f ;;
    if b then EOk (s, bits, inits) else
    if is_degenerated c2v f then EOk (s, bits, inits) else
    r <-- find_init f ;;
    let '(start, interior) := r in
    let bits := interior :: bits in
    if interior then
      v <-- e_vertex start ;;
      nv <-- e_vertex (next_c start) ;;
      pv <-- e_vertex (prev_c start) ;;
      vvl <-- eset (vv s) v true ;;
      vvl <-- eset vvl nv true ;;
      vvl <-- eset vvl pv true ;;
      vfl <-- eset (vf s) f true ;;
      let s := with_vf (with_vv s vvl) vfl in
      let inits := next_c start :: inits in
      o <-- e_opp (next_c start) ;;
      match o with
      | None => EOk (s, bits, inits)                 (* opp_face_id == kInvalidFaceIndex *)
      | Some oc =>
        b <-- eget (vf s) (oc / 3) ;;
        if b then EOk (s, bits, inits)
        else s <-- from_corner s (Some oc) ;; EOk (s, bits, inits)
      end
    else
      s <-- encode_hole s (next_c start) true ;;
      s <-- from_corner s (Some start) ;;
      EOk (s, bits, inits).
End Encoder.

(** what EncodeConnectivity hands to the traversal encoder / writes into the header *)
Record enc_out : Type := mk_out {
  o_nverts : Z;                (* num_vertices_to_be_encoded = num_vertices() - NumIsolatedVertices() *)
  o_nfaces : Z;                (* num_faces() - NumDegeneratedFaces() *)
  o_nsyms : Z;                 (* traversal_encoder_.NumEncodedSymbols() *)
  o_nsplit : Z;                (* num_split_symbols_ *)
  o_syms : list Z;             (* symbols in ENCODING order (the stream stores them reversed) *)
  o_events : list (Z * Z * Z); (* topology_split_event_data_ in vector order *)
  o_bits : list bool;          (* start-face configuration bits in encoding order *)
  o_pcc : list nat             (* processed_connectivity_corners_ at the end of EncodeConnectivity *)
}.

Definition init_est (nf nv : nat) (vh : list bool) : est :=
  mk_est (repeat false nf) (repeat false nv) vh (-1)%Z 0 [] [] [] [] [].

(** EncodeConnectivity on the table (c2v, opp) with [nv] vertices of which [niso] isolated, [ndeg] degenerated faces *)
Definition eb_encode (c2v : list nat) (opp : list (option nat)) (nv niso ndeg : nat) : eres enc_out :=
  let nf := NF c2v in
  if nf =? ndeg then EFail else                      (* "All triangles are degenerate." *)
  hv <-- find_holes c2v opp nv ;;
  let '(hid, vh) := hv in
  r <-- fold_left (ec_corner c2v opp hid) (seq 0 (NC c2v)) (EOk (init_est nf nv vh, [], [])) ;;
  let '(s, bits, inits) := r in
  EOk (mk_out (Z.of_nat nv - Z.of_nat niso) (Z.of_nat nf - Z.of_nat ndeg)
              (Z.of_nat (length (syms s))) (Z.of_nat (nsplit s))
              (rev (syms s)) (rev (evs s)) (rev bits)
              (pcc s ++ rev inits)).                 (* std::reverse(processed...), then insert(end, init corners) *)

Definition eb_encode_ct (t : ctable) : eres enc_out :=
  eb_encode (ct_c2v t) (ct_opp t) (length (ct_vcorn t)) (ct_niso t) (ct_ndeg t).

(** ------------------------------------------------------------------------------------------------------------------
    The round trip at model level: the decoder state machine (Model/Edgebreaker.v) run on the encoder's output, and
    the isomorphism between the encoder's corner table and the table the decoder builds.

    The decoder consumes the symbols in REVERSE encoding order and creates face k for its k-th symbol, then one face per
    interior start configuration; so decoder face k corresponds to the face of the corner  pcc[k]  (pcc =
    processed_connectivity_corners_ as left by EncodeConnectivity) and decoder corner 3k+i to  Next^i(pcc[k]).
    Hence the face bijection (with its rotation) is DETERMINED; [cmap] is that map on corners.  *)
Definition rot (i c : nat) : nat := match i with 0 => c | 1 => next_c c | _ => prev_c c end.
Definition cmap (pcc : list nat) (d : nat) : nat := rot (d mod 3) (nth (d / 3) pcc 0).

(** [eb_iso c2v opp pcc dv do]: the table (dv, do) on the corners 0 .. 3|pcc|-1 (dv : corner -> vertex, do : corner ->
    opposite, -1 = none) is the table (c2v, opp) restricted to its non-degenerated faces, up to the renaming [cmap] of
    corners (a bijection of faces and a rotation per face) and a bijection of the vertices that occur. *)
Definition eb_iso (c2v : list nat) (opp : list (option nat)) (pcc : list nat) (dv dopp : Z -> Z) : Prop :=
  let n := 3 * length pcc in
  (* faces: pcc lists corners of pairwise different, non-degenerated faces of the table, and all of them *)
  (forall k, k < length pcc -> nth k pcc 0 < length c2v /\ is_degenerated c2v (nth k pcc 0 / 3) = false) /\
  NoDup (map (fun c => c / 3) pcc) /\
  (forall f, f < length c2v / 3 -> is_degenerated c2v f = false -> In f (map (fun c => c / 3) pcc)) /\
  (* Opposite is carried over *)
  (forall d, d < n ->
     match opp_at opp (cmap pcc d) with
     | None => dopp (Z.of_nat d) = (-1)%Z
     | Some o => exists d', d' < n /\ dopp (Z.of_nat d) = Z.of_nat d' /\ cmap pcc d' = o
     end) /\
  (* Vertex is carried over by a bijection between the vertices that occur on either side *)
  (forall d d', d < n -> d' < n ->
     (dv (Z.of_nat d) = dv (Z.of_nat d') <-> vtx c2v (cmap pcc d) = vtx c2v (cmap pcc d'))).

Fixpoint nodup_b (l : list nat) : bool :=
  match l with [] => true | x :: r => negb (existsb (Nat.eqb x) r) && nodup_b r end.

Definition eb_iso_b (c2v : list nat) (opp : list (option nat)) (pcc : list nat) (dv dopp : Z -> Z) : bool :=
  let n := 3 * length pcc in
  let ds := seq 0 n in
  forallb (fun c => (c <? length c2v) && negb (is_degenerated c2v (c / 3))) pcc &&
  nodup_b (map (fun c => c / 3) pcc) &&
  forallb (fun f => is_degenerated c2v f || existsb (Nat.eqb f) (map (fun c => c / 3) pcc)) (seq 0 (length c2v / 3)) &&
  forallb (fun d =>
     match opp_at opp (cmap pcc d) with
     | None => Z.eqb (dopp (Z.of_nat d)) (-1)
     | Some o =>
       let z := dopp (Z.of_nat d) in
       Z.leb 0 z && (Z.to_nat z <? n) && (cmap pcc (Z.to_nat z) =? o)
     end) ds &&
  (let pairs := map (fun d => (dv (Z.of_nat d), vtx c2v (cmap pcc d))) ds in
   forallb (fun p => forallb (fun q => Bool.eqb (Z.eqb (fst p) (fst q)) (snd p =? snd q)) pairs) pairs).

(** The decoder of Model/Edgebreaker.v (header guards + state machine) on what the encoder wrote: declared counts
    (o_nverts, o_nfaces, o_nsplit), num_encoded_symbols = |symbols|, the symbols in reverse encoding order, the events,
    the start-face bits.  [rm] = the decoder's attribute_data_.empty(). *)
From Draco Require Model.Edgebreaker.

Definition eb_decode_of (o : enc_out) (rm : bool) : Edgebreaker.res (Z * Edgebreaker.st) :=
  Edgebreaker.eb_full (o_nverts o) (o_nfaces o) (o_nsplit o) rm (rev (o_syms o)) (o_events o)
                      (Edgebreaker.bits_of_list (o_bits o)).

(** accepted, and the decoder's table is the encoder's up to [eb_iso] *)
Definition eb_roundtrip_b (c2v : list nat) (opp : list (option nat)) (o : enc_out) (rm : bool) : bool :=
  match eb_decode_of o rm with
  | Edgebreaker.Ok (_, s) => eb_iso_b c2v opp (o_pcc o) (Edgebreaker.c2v s) (Edgebreaker.copp s)
  | _ => false
  end.
