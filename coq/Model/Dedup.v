(** C14 — model of the value / point-id deduplication and of the two builders.

    Sources (read line by line, /repo as it is now):
      src/draco/attributes/point_attribute.{h,cc}   DeduplicateValues / DeduplicateTypedValues /
                                                    DeduplicateFormattedValues, SetExplicitMapping, mapped_index
      src/draco/point_cloud/point_cloud.cc          DeduplicateAttributeValues, DeduplicatePointIds,
                                                    ApplyPointIdDeduplication
      src/draco/mesh/mesh.cc                        Mesh::ApplyPointIdDeduplication
      src/draco/mesh/triangle_soup_mesh_builder.cc  Start / AddAttribute / SetAttributeValuesForFace / Finalize
      src/draco/point_cloud/point_cloud_builder.cc  Start / AddAttribute / SetAttributeValueForPoint / Finalize

    Conventions.
    * An attribute value is the list of its bytes ([value := list Z]).  The C++ decides equality of two
      values by bit-copying them into [std::array<uintN_t, components>] and comparing those arrays, i.e.
      BYTEWISE (float -0.0 and +0.0 are different values, two NaNs with the same bits are the same value).
    * Indices (value ids, point ids) are [nat].  Reads are [nth i l default]; an out-of-range index is
      undefined behaviour in the C++ (unchecked [operator[]]) and is excluded by the boolean well-formedness
      predicates [wf_attr]/[wf_geo] that every theorem assumes.  [upd] outside the list is a no-op (same remark).
    * [std::unordered_map] is used by the C++ only through [find]/[insert] (never iterated), so the hash
      function cannot influence any result; the map is modelled as an association list searched front to back
      with the map's key-equality; [insert] appends (keys are unique at that moment because a failed [find], or
      [insert]'s own "already there" answer, precedes it).
    * In-place array updates (the C++ writes the compacted data into the buffer it is still reading) are
      modelled as such ([upd] on the list that later iterations read); that they never overwrite data that is
      still to be read is PROVED (Proofs/Dedup_proofs.v), not assumed. *)
From Coq Require Import List ZArith Bool Arith.
Import ListNotations.

(* ------------------------------------------------------------------------------------------- basics *)
Definition value := list Z.

Fixpoint veqb (a b : value) : bool :=
  match a, b with
  | [], [] => true
  | x :: a', y :: b' => Z.eqb x y && veqb a' b'
  | _, _ => false
  end.

Fixpoint lneqb (a b : list nat) : bool :=
  match a, b with
  | [], [] => true
  | x :: a', y :: b' => Nat.eqb x y && lneqb a' b'
  | _, _ => false
  end.

(** [buf[w] = y] *)
Fixpoint upd {A : Type} (w : nat) (y : A) (l : list A) : list A :=
  match l, w with
  | [], _ => []
  | _ :: r, O => y :: r
  | x :: r, S w' => x :: upd w' y r
  end.

(** [std::vector::resize(n, fill)] *)
Definition resize {A : Type} (n : nat) (fill : A) (l : list A) : list A :=
  firstn n l ++ repeat fill (n - length l).

(** [kInvalidAttributeValueIndex] / [kInvalidPointIndex] are 0xFFFFFFFF in the C++.  They only ever appear as
    padding of [indices_map_.resize] when the map was shorter than the requested size, which [wf_attr]
    excludes (lemma [resize_no_padding] in the proofs); the model pads with this marker. *)
Definition invalid_index : nat := 0.

(* ------------------------------------------------------------------------------- the hash maps *)
Section HashMap.
  Context {K : Type} (keq : K -> K -> bool).
  Definition hmap := list (K * nat).
  Fixpoint hm_find (m : hmap) (k : K) : option nat :=
    match m with
    | [] => None
    | (k', v) :: r => if keq k' k then Some v else hm_find r k
    end.
  Definition hm_add (m : hmap) (k : K) (v : nat) : hmap := m ++ [(k, v)].
End HashMap.

(* ------------------------------------------------------------------------------------ attributes *)
(** DataType codes of core/draco_types.h. *)
Definition DT_INT8 := 1%Z.   Definition DT_UINT8 := 2%Z.  Definition DT_INT16 := 3%Z.  Definition DT_UINT16 := 4%Z.
Definition DT_INT32 := 5%Z.  Definition DT_UINT32 := 6%Z. Definition DT_INT64 := 7%Z.  Definition DT_UINT64 := 8%Z.
Definition DT_FLOAT32 := 9%Z. Definition DT_FLOAT64 := 10%Z. Definition DT_BOOL := 11%Z.

(** the [switch (in_att.data_type())] of [PointAttribute::DeduplicateValues]: every other type "return -1". *)
Definition dtype_dedup_supported (dt : Z) : bool :=
  (Z.eqb dt DT_FLOAT32 || Z.eqb dt DT_INT8 || Z.eqb dt DT_UINT8 || Z.eqb dt DT_BOOL || Z.eqb dt DT_UINT16
   || Z.eqb dt DT_INT16 || Z.eqb dt DT_UINT32 || Z.eqb dt DT_INT32)%bool.

Record attr := mkAttr {
  a_ncomp : Z;            (* num_components() *)
  a_dtype : Z;            (* data_type() *)
  a_vals  : list value;   (* the first num_unique_entries_ (= size()) entries of the attribute buffer *)
  a_ident : bool;         (* identity_mapping_ *)
  a_map   : list nat      (* indices_map_ *)
}.

(** [PointAttribute::mapped_index] *)
Definition mapped_index (a : attr) (p : nat) : nat :=
  if a_ident a then p else nth p (a_map a) invalid_index.

(** the bytes point [p] carries in attribute [a] ([GetMappedValue]) *)
Definition att_value (a : attr) (p : nat) : value := nth (mapped_index a p) (a_vals a) [].

(** structural validity the C++ relies on for a geometry of [np] points *)
Definition wf_attr (np : nat) (a : attr) : bool :=
  if a_ident a then Nat.leb np (length (a_vals a))
  else Nat.leb np (length (a_map a)) && forallb (fun v => Nat.ltb v (length (a_vals a))) (a_map a).

(* ------------------------------------------------------------------- DeduplicateFormattedValues *)
(** The main loop [for (i = 0; i < num_unique_entries_; ++i)], with [in_att == *this], offset 0 (the way
    every caller in the library uses it).  [buf] is the attribute buffer that is read AND written,
    [tbl] is [value_to_index_map], [u] is [unique_vals]; the third result is [value_map]. *)
Fixpoint dv_loop (todo i : nat) (buf : list value) (tbl : hmap (K := value)) (u : nat)
  : list value * nat * list nat :=
  match todo with
  | O => (buf, u, [])
  | S t =>
    let v := nth i buf [] in                         (* att_value = in_att.GetValue(i); memcpy to hashable_value *)
    match hm_find veqb tbl v with                    (* value_to_index_map.insert(...) : (it, inserted) *)
    | Some j =>                                      (* !inserted: value_map[i] = it->second *)
      let '(b, u', vm) := dv_loop t (S i) buf tbl u in (b, u', j :: vm)
    | None =>                                        (* inserted: SetAttributeValue(unique_vals, &att_value);
                                                        value_map[i] = unique_vals; ++unique_vals *)
      let '(b, u', vm) := dv_loop t (S i) (upd u v buf) (hm_add tbl v u) (S u) in (b, u', u :: vm)
    end
  end.

(** [DeduplicateFormattedValues<T, n>]: returns the new attribute and the returned count. *)
Definition dedup_formatted (a : attr) : attr * Z :=
  let n := length (a_vals a) in
  let '(buf, u, vmap) := dv_loop n 0 (a_vals a) [] 0 in
  if Nat.eqb u n then
    (* "Nothing has changed" (the loop only rewrote every value onto itself) *)
    (mkAttr (a_ncomp a) (a_dtype a) (firstn u buf) (a_ident a) (a_map a), Z.of_nat u)
  else if a_ident a then
    (* SetExplicitMapping(num_unique_entries_) then SetPointMapEntry(i, value_map[i]) for every old value i *)
    (mkAttr (a_ncomp a) (a_dtype a) (firstn u buf) false vmap, Z.of_nat u)
  else
    (* SetPointMapEntry(i, value_map[indices_map_[i]]) for every entry of indices_map_ *)
    (mkAttr (a_ncomp a) (a_dtype a) (firstn u buf) false
            (map (fun k => nth k vmap invalid_index) (a_map a)), Z.of_nat u).

(** [PointAttribute::DeduplicateValues(in_att = *this)] with [DeduplicateTypedValues]'s component switch.
    KNOWN DEFECT D14: for more than 4 components (and for the 64-bit / unsupported data types) nothing is
    deduplicated and -1 is returned, which [PointCloud::DeduplicateAttributeValues] treats as success. *)
Definition dedup_guard (a : attr) : bool :=
  dtype_dedup_supported (a_dtype a) && Z.leb 1 (a_ncomp a) && Z.leb (a_ncomp a) 4.

Definition dedup_values (a : attr) : attr * Z :=
  if negb (dtype_dedup_supported (a_dtype a)) then (a, (-1)%Z)           (* default: return -1 *)
  else if Z.leb 1 (a_ncomp a) && Z.leb (a_ncomp a) 4 then
    let '(a', u) := dedup_formatted a in
    (a', if Z.eqb u 0 then (-1)%Z else u)                              (* unique_vals == 0 -> -1 *)
  else (a, (-1)%Z).                                                    (* DeduplicateTypedValues default: 0 -> -1 *)

(* ------------------------------------------------------------------------------------ geometries *)
Definition face := (nat * nat * nat)%type.
Record geo := mkGeo {
  g_np    : nat;          (* num_points_ *)
  g_atts  : list attr;
  g_faces : list face     (* empty for a point cloud *)
}.

Definition face_ok (np : nat) (f : face) : bool :=
  let '(a, b, c) := f in Nat.ltb a np && Nat.ltb b np && Nat.ltb c np.
Definition wf_geo (g : geo) : bool :=
  forallb (wf_attr (g_np g)) (g_atts g) && forallb (face_ok (g_np g)) (g_faces g).

(** "what the geometry describes": per point the tuple of its attribute value bytes; per face the three
    corner tuples in order. *)
Definition point_tuple (atts : list attr) (p : nat) : list value := map (fun a => att_value a p) atts.
Definition face_geom (atts : list attr) (f : face) : list value * list value * list value :=
  let '(a, b, c) := f in (point_tuple atts a, point_tuple atts b, point_tuple atts c).
Definition geom (g : geo) := map (face_geom (g_atts g)) (g_faces g).
Definition pc_geom (g : geo) := map (point_tuple (g_atts g)) (seq 0 (g_np g)).

(** [PointCloud::DeduplicateAttributeValues]: returns false only if a [DeduplicateValues] call returned 0,
    which it never does (0 is turned into -1). *)
Definition dedup_attribute_values (g : geo) : geo * bool :=
  if Nat.eqb (g_np g) 0 then (g, true)
  else
    let rs := map dedup_values (g_atts g) in
    (mkGeo (g_np g) (map fst rs) (g_faces g), forallb (fun r => negb (Z.eqb (snd r) 0)) rs).

(* ---------------------------------------------------------------------------- DeduplicatePointIds *)
(** the tuple of value indices of a point (what [point_hash]/[point_compare] look at) *)
Definition pkey (atts : list attr) (p : nat) : list nat := map (fun a => mapped_index a p) atts.
(** [point_compare] *)
Definition point_eqb (atts : list attr) (p q : nat) : bool := lneqb (pkey atts p) (pkey atts q).

(** [for (PointIndex i(0); i < num_points_; ++i)]: results [index_map], [unique_points], [num_unique_points]. *)
Fixpoint dp_loop (atts : list attr) (todo i : nat) (tbl : hmap (K := nat)) (nu : nat)
  : list nat * list nat * nat :=
  match todo with
  | O => ([], [], nu)
  | S t =>
    match hm_find (point_eqb atts) tbl i with
    | Some j => let '(im, up, n') := dp_loop atts t (S i) tbl nu in (j :: im, up, n')
    | None => let '(im, up, n') := dp_loop atts t (S i) (hm_add tbl i nu) (S nu) in (nu :: im, i :: up, n')
    end
  end.

(** [SetPointMapEntry]: the release build does not look at [identity_mapping_]. *)
Definition set_map_entry (p v : nat) (a : attr) : attr :=
  mkAttr (a_ncomp a) (a_dtype a) (a_vals a) (a_ident a) (upd p v (a_map a)).
(** [SetExplicitMapping(n)] *)
Definition set_explicit (n : nat) (a : attr) : attr :=
  mkAttr (a_ncomp a) (a_dtype a) (a_vals a) false (resize n invalid_index (a_map a)).

(** [PointCloud::ApplyPointIdDeduplication]: first loop (in place on every attribute's map). *)
Fixpoint apd_loop (ups : list nat) (im : list nat) (atts : list attr) (nu : nat) : list attr * nat :=
  match ups with
  | [] => (atts, nu)
  | i :: r =>
    let np := nth i im invalid_index in
    if Nat.leb nu np then
      apd_loop r im (map (fun a => set_map_entry np (mapped_index a i) a) atts) (S np)
    else apd_loop r im atts nu
  end.

Definition remap_face (im : list nat) (f : face) : face :=
  let '(a, b, c) := f in (nth a im invalid_index, nth b im invalid_index, nth c im invalid_index).

(** [PointCloud::DeduplicatePointIds] with [Mesh::ApplyPointIdDeduplication] (faces = [] for a point cloud). *)
Definition dedup_point_ids (g : geo) : geo :=
  let '(im, ups, nu) := dp_loop (g_atts g) (g_np g) 0 [] 0 in
  if Nat.eqb nu (g_np g) then g                                      (* all vertices are already unique *)
  else
    let '(atts, nu') := apd_loop ups im (g_atts g) 0 in
    mkGeo nu (map (set_explicit nu') atts) (map (remap_face im) (g_faces g)).

(* ----------------------------------------------------------------------------------- the builders *)
(** One attribute as given to a builder: its format and one value per (face corner | point), already in the
    order of the point ids the builder uses ([3 * face + corner], resp. the point index). *)
Record att_input := mkIn { in_ncomp : Z; in_dtype : Z; in_vals : list value }.

(** [AddAttribute(va, identity_mapping = true, num_points)] followed by [SetAttributeValue] of every entry. *)
Definition input_attr (x : att_input) : attr := mkAttr (in_ncomp x) (in_dtype x) (in_vals x) true [].

Definition soup_faces (nf : nat) : list face := map (fun f => (3 * f, 3 * f + 1, 3 * f + 2)) (seq 0 nf).

(** [TriangleSoupMeshBuilder]: Start(nf); AddAttribute…; SetAttributeValuesForFace / SetPerFaceAttributeValueForFace
    for every face; Finalize() = DeduplicateAttributeValues (nullptr if it fails) then DeduplicatePointIds. *)
Definition soup_start (nf : nat) (ins : list att_input) : geo :=
  mkGeo (3 * nf) (map input_attr ins) (soup_faces nf).
Definition soup_build (nf : nat) (ins : list att_input) : option geo :=
  let '(g1, ok) := dedup_attribute_values (soup_start nf ins) in
  if ok then Some (dedup_point_ids g1) else None.

(** [PointCloudBuilder]: Start(np); AddAttribute…; SetAttributeValueForPoint…; Finalize(deduplicate_points). *)
Definition pc_start (np : nat) (ins : list att_input) : geo := mkGeo np (map input_attr ins) [].
Definition pc_build (np : nat) (ins : list att_input) (dedup : bool) : geo :=
  if dedup then dedup_point_ids (fst (dedup_attribute_values (pc_start np ins))) else pc_start np ins.
