(** Sequential attribute coders: compression/attributes/sequential_attribute_encoder.cc (raw values),
    sequential_integer_attribute_encoder.cc / _decoder.cc (prediction byte, transform byte, zig-zag,
    EncodeSymbols or raw 1..4-byte integers, prediction data), prediction_scheme_delta_{en,de}coder.h with
    the wrap transform, sequential_quantization_attribute_{en,de}coder.cc.

    The symbol entropy coder (property C08) is a parameter of this file: [enc_syms method level nc syms]
    and [dec_syms n nc bytes]; the theorems assume exactly its round-trip law, which
    Model/SymbolCoding.v's coder is proved to satisfy. *)
From Draco Require Import Base.Codec Base.Float32 Gen.Constants Model.Varint Model.Wrap Model.Quantize Model.Octahedron.
Local Open Scope Z_scope.

Fixpoint map2 {A B C} (f : A -> B -> C) (a : list A) (b : list B) : list C :=
  match a, b with
  | x :: a', y :: b' => f x y :: map2 f a' b'
  | _, _ => []
  end.

(** int8_t <-> byte *)
Definition byte_of_i8 (v : Z) : Z := v mod 256.
Definition i8_of_byte (b : Z) : Z := if b <? 128 then b else b - 256.
Definition i32_of_u32 (w : Z) : Z := if w <? 2 ^ 31 then w else w - 2 ^ 32.

(** rows of [nc] values out of a flat list; None if the length is not a multiple *)
Fixpoint chunk (fuel : nat) (nc : nat) (l : list Z) : list (list Z) :=
  match fuel with
  | O => []
  | S f => match l with [] => [] | _ => firstn nc l :: chunk f nc (skipn nc l) end
  end.
Definition rows_of (nc : nat) (l : list Z) : list (list Z) := chunk (length l) nc l.

(** PredictionSchemeWrapEncodingTransform::Init: bounds over all values of all components.
    Init ignores InitCorrectionBounds' result, but EncodeTransformData re-checks it and reports failure
    (fix of defect D7): for a value range >= 2^31-1 the whole encode fails — [None]. *)
Definition flat_min_max (vals : list Z) : Z * Z :=
  match vals with
  | [] => (0, 0)
  | v :: r => fold_left (fun mm x => (if x <? fst mm then x else fst mm,
                                       if x <? fst mm then snd mm else if x >? snd mm then x else snd mm)) r (v, v)
  end.
Definition wrap_bounds_enc (vals : list Z) : option wrap_bounds :=
  let '(mn, mx) := flat_min_max vals in wrap_init mn mx.

(** PredictionSchemeDeltaEncoder::ComputeCorrectionValues: D(i) - D(i-1) through the transform,
    the first entry against zeros.  (The C++ walks backwards; every correction only reads originals.) *)
Fixpoint delta_corr (b : wrap_bounds) (prev : list Z) (rows : list (list Z)) : list (list Z) :=
  match rows with
  | [] => []
  | r :: rest => map2 (wrap_enc b) r prev :: delta_corr b r rest
  end.
(** PredictionSchemeDeltaDecoder::ComputeOriginalValues *)
Fixpoint delta_orig (b : wrap_bounds) (prev : list Z) (corrs : list (list Z)) : list (list Z) :=
  match corrs with
  | [] => []
  | c :: rest => let o := map2 (wrap_dec b) prev c in o :: delta_orig b o rest
  end.

Inductive pred_kind := PNone | PDelta.
Record int_opts := {
  io_pred : pred_kind;      (* prediction_scheme option: PREDICTION_NONE, or difference (the only scheme
                               available without a corner table) *)
  io_builtin : bool;        (* use_built_in_attribute_compression *)
  io_method : Z;            (* symbol coding scheme chosen by EncodeSymbols (policy, read off the stream) *)
  io_level : Z              (* 10 - speed *)
}.

Section SeqAttr.
  Variable enc_syms : Z -> Z -> Z -> list Z -> option bytes.
  Variable dec_syms : nat -> nat -> bytes -> option (list Z * bytes).

  Definition raw_num_bytes (syms : list Z) : Z :=
    let m := fold_left Z.lor syms 0 in
    1 + (if m =? 0 then 0 else Z.log2 m) / 8.

  (** SequentialIntegerAttributeEncoder::EncodeValues on the portable int32 rows.
      [rows = []] models attribute()->size() == 0: nothing is written (defect D11). *)
  Definition enc_int_block (o : int_opts) (nc : nat) (rows : list (list Z)) : option bytes :=
    match rows with
    | [] => Some []
    | _ =>
      let vals := concat rows in
      let parts :=
        match io_pred o with
        | PNone => Some ([byte_of_i8 PREDICTION_NONE_], vals, [])
        | PDelta =>
            match wrap_bounds_enc vals with
            | Some b =>
                Some ([byte_of_i8 PREDICTION_DIFFERENCE_; byte_of_i8 PREDICTION_TRANSFORM_WRAP_],
                      concat (delta_corr b (repeat 0 nc) rows),
                      enc_le 4 (wb_min b mod 2 ^ 32) ++ enc_le 4 (wb_max b mod 2 ^ 32))
            | None => None
            end
        end in
      match parts with
      | None => None
      | Some (hdr, src, tail) =>
      let syms := map (zigzag_enc 32) src in
      if io_builtin o then
        match enc_syms (io_method o) (io_level o) (Z.of_nat nc) syms with
        | Some body => Some (hdr ++ [1] ++ body ++ tail)
        | None => None
        end
      else
        let nb := raw_num_bytes syms in
        Some (hdr ++ [0; nb] ++ concat (map (enc_le (Z.to_nat nb)) syms) ++ tail)
      end
    end.

  Fixpoint dec_raw_vals (n : nat) (nb : nat) (bs : bytes) : option (list Z * bytes) :=
    match n with
    | O => Some ([], bs)
    | S k => match dec_le nb bs with
             | Some (v, r) => match dec_raw_vals k nb r with
                              | Some (vs, r') => Some (v :: vs, r')
                              | None => None
                              end
             | None => None
             end
    end.

  (** SequentialIntegerAttributeDecoder::DecodeValues + DecodeIntegerValues for [n] entries of [nc]
      components, bitstream >= 2.0, no corner table (sequential methods): any prediction method other
      than PREDICTION_NONE with the wrap transform yields the delta scheme; with another transform no
      scheme is created and the values are taken as they are.  Returns the int32 rows. *)
  Definition dec_int_block (nc : nat) (n : nat) (bs : bytes) : option (list (list Z) * bytes) :=
    match bs with
    | [] => None
    | pmb :: r0 =>
      let pm := i8_of_byte pmb in
      if (pm <? PREDICTION_NONE_) || (pm >=? NUM_PREDICTION_SCHEMES_) then None else
      let hdr :=
        if pm =? PREDICTION_NONE_ then Some (false, r0)
        else match r0 with
             | [] => None
             | ttb :: r1 =>
               let tt := i8_of_byte ttb in
               if (tt <? PREDICTION_TRANSFORM_NONE_) || (tt >=? NUM_PREDICTION_SCHEME_TRANSFORM_TYPES_) then None
               else Some (tt =? PREDICTION_TRANSFORM_WRAP_, r1)
             end in
      match hdr with
      | None => None
      | Some (delta, r1) =>
        if (nc =? 0)%nat then None else
        if (n =? 0)%nat then None else      (* GetPortableAttributeData() == nullptr for 0 entries *)
        let nv := (n * nc)%nat in
        match r1 with
        | [] => None
        | comp :: r2 =>
          let body :=
            if comp >? 0 then dec_syms nv nc r2
            else match r2 with
                 | [] => None
                 | nb :: r3 =>
                   if nb =? 4 then dec_raw_vals nv 4 r3
                   else if 4 * Z.of_nat nv <? nb * Z.of_nat nv then None
                   else if Z.of_nat (length r3) <? nb * Z.of_nat nv then None
                   else dec_raw_vals nv (Z.to_nat nb) r3
                 end in
          match body with
          | None => None
          | Some (syms, r4) =>
            let vals := map (zigzag_dec 32) syms in
            if delta then
              match dec_le 4 r4 with
              | None => None
              | Some (mnu, r5) =>
                match dec_le 4 r5 with
                | None => None
                | Some (mxu, r6) =>
                  match wrap_dec_init (i32_of_u32 mnu) (i32_of_u32 mxu) with
                  | None => None
                  | Some b => Some (delta_orig b (repeat 0 nc) (rows_of nc vals), r6)
                  end
                end
              end
            else Some (rows_of nc vals, r4)
          end
        end
      end
    end.

  (** ** Quantized normals: SequentialNormalAttributeEncoder / Decoder on the 2-component portable points.
      The encoder's prediction scheme is always the delta predictor (no corner table in the sequential
      methods; MESH_PREDICTION_GEOMETRIC_NORMAL falls back to it) with
      PredictionSchemeNormalOctahedronCanonicalizedEncodingTransform, or none at all when the option
      prediction_scheme is neither DIFFERENCE nor GEOMETRIC_NORMAL (CreateIntPredictionScheme returns nullptr).
      AreCorrectionsPositive() is true for the octahedral transforms: no zig-zag when a scheme exists. *)

  (** the compressed-or-raw symbol part shared by all integer-like coders (decoder side) *)
  Definition dec_sym_body (nv nc : nat) (r1 : bytes) : option (list Z * bytes) :=
    match r1 with
    | [] => None
    | comp :: r2 =>
      if comp >? 0 then dec_syms nv nc r2
      else match r2 with
           | [] => None
           | nb :: r3 =>
             if nb =? 4 then dec_raw_vals nv 4 r3
             else if 4 * Z.of_nat nv <? nb * Z.of_nat nv then None
             else if Z.of_nat (length r3) <? nb * Z.of_nat nv then None
             else dec_raw_vals nv (Z.to_nat nb) r3
           end
    end.
  (** ... and encoder side: [1] ++ EncodeSymbols, or [0; num_bytes] ++ raw values *)
  Definition enc_sym_body (o : int_opts) (nc : nat) (syms : list Z) : option bytes :=
    if io_builtin o then
      match enc_syms (io_method o) (io_level o) (Z.of_nat nc) syms with
      | Some body => Some ([1] ++ body)
      | None => None
      end
    else
      let nb := raw_num_bytes syms in
      Some ([0; nb] ++ concat (map (enc_le (Z.to_nat nb)) syms)).

  Definition flat_pts (l : list pt) : list Z := concat (map (fun p => [fst p; snd p]) l).
  Fixpoint pairs (l : list Z) : list pt :=
    match l with
    | a :: b :: r => (a, b) :: pairs r
    | _ => []
    end.

  (** PredictionSchemeDeltaEncoder::ComputeCorrectionValues with the canonicalized octahedral transform *)
  Fixpoint oct_delta_corr (b : obox) (prev : pt) (pts : list pt) : list pt :=
    match pts with
    | [] => []
    | p :: r => oct_canon_enc b p prev :: oct_delta_corr b p r
    end.

  (** ComputeOriginalValue of the canonicalized decoding transform as the machine executes it: the C++ does the
      translations and the rotations in int32_t; on hostile streams these can overflow (undefined behaviour,
      see [oct_canon_dec_no_ub]); the build wraps (two's complement), which [oct_canon_dec_w] spells out.
      Wherever no overflow occurs it is Model/Octahedron.v's [oct_canon_dec]. *)
  Definition wneg (x : Z) : Z := Wrap.to_i32 (- x).
  Definition rotate_point_w (p : pt) (k : Z) : pt :=
    let '(x, y) := p in
    if k =? 1 then (y, wneg x)
    else if k =? 2 then (wneg x, wneg y)
    else if k =? 3 then (wneg y, x)
    else p.
  Definition oct_canon_dec_w (b : obox) (pred corr : pt) : pt :=
    let c := ob_center b in
    let pred := (Wrap.to_i32 (fst pred - c), Wrap.to_i32 (snd pred - c)) in
    let ind := is_in_diamond b (fst pred) (snd pred) in
    let pred := if ind then pred else invert_diamond b pred in
    let bl := is_in_bottom_left pred in
    let k := rotation_count pred in
    let pred := if bl then pred else rotate_point_w pred k in
    let orig := (mod_max b (add_as_unsigned (fst pred) (fst corr)),
                 mod_max b (add_as_unsigned (snd pred) (snd corr))) in
    let orig := if bl then orig else rotate_point_w orig (Z.rem (4 - k) 4) in
    let orig := if ind then orig else invert_diamond b orig in
    (Wrap.to_i32 (fst orig + c), Wrap.to_i32 (snd orig + c)).
  Definition oct_dec_step (b : obox) (pred corr : pt) : pt :=
    if oct_canon_dec_no_ub b pred corr then oct_canon_dec b pred corr else oct_canon_dec_w b pred corr.

  (** PredictionSchemeDeltaDecoder::ComputeOriginalValues, [step] = the transform's ComputeOriginalValue *)
  Fixpoint oct_delta_orig (step : pt -> pt -> pt) (prev : pt) (corrs : list pt) : list pt :=
    match corrs with
    | [] => []
    | c :: r => let o := step prev c in o :: oct_delta_orig step o r
    end.

  (** SequentialIntegerAttributeEncoder::EncodeValues as inherited by the normal encoder, on the portable points;
      [q] = the option quantization_bits (the transform is built with max_quantized_value (1 << q) - 1; for the
      q that PrepareValues accepts, 2..30, this is SetQuantizationBits(q)).  EncodeTransformData writes
      max_quantized_value and center_value as int32. *)
  Definition enc_norm_block (o : int_opts) (q : Z) (pts : list pt) : option bytes :=
    match pts with
    | [] => Some []
    | _ =>
      match set_quantization_bits q with
      | None => None
      | Some b =>
        let '(hdr, syms, tail) :=
          match io_pred o with
          | PNone => ([byte_of_i8 PREDICTION_NONE_], map (zigzag_enc 32) (flat_pts pts), [])
          | PDelta =>
              ([byte_of_i8 PREDICTION_DIFFERENCE_; byte_of_i8 PREDICTION_TRANSFORM_NORMAL_OCTAHEDRON_CANONICALIZED_],
               map (fun v => v mod 2 ^ 32) (flat_pts (oct_delta_corr b (0, 0) pts)),
               enc_le 4 (ob_mqv b mod 2 ^ 32) ++ enc_le 4 (ob_center b mod 2 ^ 32))
          end in
        match enc_sym_body o 2 syms with
        | Some body => Some (hdr ++ body ++ tail)
        | None => None
        end
      end
    end.

  (** SequentialNormalAttributeDecoder: DecodeValues / DecodeIntegerValues with GetNumValueComponents() = 2 for [n]
      entries.  [ver] = bitstream version (major * 256 + minor): the legacy octahedral transform reads the
      center value only below 2.2.  Transform types other than the two octahedral ones create no scheme. *)
  Definition dec_norm_block (ver : Z) (n : nat) (bs : bytes) : option (list pt * bytes) :=
    match bs with
    | [] => None
    | pmb :: r0 =>
      let pm := i8_of_byte pmb in
      if (pm <? PREDICTION_NONE_) || (pm >=? NUM_PREDICTION_SCHEMES_) then None else
      let hdr :=
        if pm =? PREDICTION_NONE_ then Some (PREDICTION_TRANSFORM_NONE_, r0)
        else match r0 with
             | [] => None
             | ttb :: r1 =>
               let trt := i8_of_byte ttb in
               if (trt <? PREDICTION_TRANSFORM_NONE_) || (trt >=? NUM_PREDICTION_SCHEME_TRANSFORM_TYPES_) then None
               else Some (trt, r1)
             end in
      match hdr with
      | None => None
      | Some (trt, r1) =>
        if (n =? 0)%nat then None else      (* GetPortableAttributeData() == nullptr for 0 entries *)
        match dec_sym_body (n * 2) 2 r1 with
        | None => None
        | Some (syms, r4) =>
          if trt =? PREDICTION_TRANSFORM_NORMAL_OCTAHEDRON_CANONICALIZED_ then
            match dec_le 4 r4 with
            | None => None
            | Some (mqv, r5) =>
              match dec_le 4 r5 with
              | None => None
              | Some (_, r6) =>
                match oct_canon_dec_init (i32_of_u32 mqv) with
                | None => None
                | Some b => Some (oct_delta_orig (oct_dec_step b) (0, 0) (pairs (map i32_of_u32 syms)), r6)
                end
              end
            end
          else if trt =? PREDICTION_TRANSFORM_NORMAL_OCTAHEDRON_ then
            match dec_le 4 r4 with
            | None => None
            | Some (mqv, r5) =>
              let cr := if ver <? bitstream_version_2_2 then
                          match dec_le 4 r5 with Some (_, r6) => Some r6 | None => None end
                        else Some r5 in
              match cr with
              | None => None
              | Some r6 =>
                match set_max_quantized_value (i32_of_u32 mqv) with
                | None => None
                | Some b => Some (oct_delta_orig (oct_dec b) (0, 0) (pairs (map i32_of_u32 syms)), r6)
                end
              end
            end
          else Some (pairs (map (zigzag_dec 32) syms), r4)
        end
      end
    end.
End SeqAttr.

(** ** Attribute values and the three sequential attribute coders *)

(** A component value is its bit pattern (unsigned, [w] bytes).  ConvertValue<int32_t> for the integer
    data types: fails when the value does not fit int32 (uint32 >= 2^31). *)
Definition dt_is_int (dt : Z) : bool :=
  (dt =? DT_INT8_) || (dt =? DT_UINT8_) || (dt =? DT_INT16_) || (dt =? DT_UINT16_) || (dt =? DT_INT32_) || (dt =? DT_UINT32_).
Definition dt_signed (dt : Z) : bool := (dt =? DT_INT8_) || (dt =? DT_INT16_) || (dt =? DT_INT32_) || (dt =? DT_INT64_).
Definition dt_len (dt : Z) : Z := nth (Z.to_nat dt) data_type_lengths 0.

Definition to_int32_value (dt : Z) (bits : Z) : option Z :=
  let w := 8 * dt_len dt in
  let v := if dt_signed dt then (if bits <? 2 ^ (w - 1) then bits else bits - 2 ^ w) else bits in
  if (v <? - 2 ^ 31) || (v >? 2 ^ 31 - 1) then None else Some v.
(** StoreTypedValues: static_cast<T>(int32) — the low bytes. *)
Definition of_int32_value (dt : Z) (v : Z) : Z := v mod 2 ^ (8 * dt_len dt).

Fixpoint omap {A B} (f : A -> option B) (l : list A) : option (list B) :=
  match l with
  | [] => Some []
  | a :: t => match f a, omap f t with
              | Some b, Some bs => Some (b :: bs)
              | _, _ => None
              end
  end.

(** SequentialAttributeEncoder::EncodeValues (generic): the raw bytes of every point's value. *)
Definition enc_generic (w : nat) (rows : list (list Z)) : bytes :=
  concat (map (fun row => concat (map (enc_le w) row)) rows).
Fixpoint dec_row (w : nat) (nc : nat) (bs : bytes) : option (list Z * bytes) :=
  match nc with
  | O => Some ([], bs)
  | S k => match dec_le w bs with
           | Some (v, r) => match dec_row w k r with
                            | Some (vs, r') => Some (v :: vs, r')
                            | None => None
                            end
           | None => None
           end
  end.
Fixpoint dec_generic (w : nat) (nc : nat) (n : nat) (bs : bytes) : option (list (list Z) * bytes) :=
  match n with
  | O => Some ([], bs)
  | S k => match dec_row w nc bs with
           | Some (row, r) => match dec_generic w nc k r with
                              | Some (rows, r') => Some (row :: rows, r')
                              | None => None
                              end
           | None => None
           end
  end.
