(** Model of the SERIALISATION LAYER between the Edgebreaker state machines and the byte stream
    (property C01, connectivity stream; C06 self-delimitation; C02/C03 on the decoder side).

    Sources (bitstream 2.2, the version the encoder writes):
      compression/mesh/mesh_edgebreaker_shared.h             bit patterns, pattern lengths, symbol ids
      compression/mesh/mesh_edgebreaker_traversal_encoder.h  Start / EncodeSymbol / EncodeStartFaceConfiguration /
                                                             EncodeAttributeSeam / Done = EncodeTraversalSymbols,
                                                             EncodeStartFaces, EncodeAttributeSeams
      compression/mesh/mesh_edgebreaker_traversal_decoder.h  Start = DecodeTraversalSymbols, DecodeStartFaces,
                                                             DecodeAttributeSeams; DecodeSymbol; DecodeStartFaceConfiguration;
                                                             DecodeAttributeSeam
      compression/mesh/mesh_edgebreaker_traversal_valence_encoder.h / _decoder.h
      compression/mesh/mesh_edgebreaker_encoder.cc           InitializeEncoder (traversal method byte)
      compression/mesh/mesh_edgebreaker_encoder_impl.cc      EncodeConnectivity (the framing), EncodeSplitData
      compression/mesh/mesh_edgebreaker_decoder.cc           InitializeDecoder
      compression/mesh/mesh_edgebreaker_decoder_impl.cc      DecodeConnectivity() (the framing and its guards),
                                                             DecodeHoleAndTopologySplitEvents
    Built on Model/Varint.v, Model/BitBuffer.v (bit sequences of Encoder/DecoderBuffer), Model/BitCoders.v
    (RAnsBitEncoder/Decoder) and Model/SymbolCoding.v (EncodeSymbols/DecodeSymbols).

    INTERFACE with the state machines (Model/Edgebreaker.v is the decoder side):
      symbols      list Z   EdgebreakerTopologyBitPattern values C=0 S=1 L=3 R=5 E=7, in the order the ENCODER's
                            traversal produced them (EncodeSymbol calls); the decoder hands them out reversed
      start bits   list bool  EncodeStartFaceConfiguration calls, in order
      seams        list (list bool)  one bit list per attribute data (EncodeAttributeSeam(attribute, bit) calls)
      events       list (Z*Z*Z)  topology_split_event_data_: (source_symbol_id, split_symbol_id, source_edge)
      valence method: the list of (context, symbol id) pairs in the order the encoder appended them to
                            context_symbols_[context] (see [enc_trav_val]).

    OUTSIDE the model (legacy branches, all `#ifdef DRACO_BACKWARDS_COMPATIBILITY_SUPPORTED`, bitstream < 2.2):
      fixed-width instead of varint counts (< 2.0); num_new_vertices (< 2.2); encoded_connectivity_size and the
      event block placed behind the traversal (< 2.2); hole events (< 2.1); 2-bit source edges (< 2.2) and the
      byte-per-event format (< 1.2); start-face configurations as a raw bit sequence (< 2.2); the valence decoder's
      num_split_symbols/mode prefix and its direct symbol decoding (< 2.2); uint64 / uint32 fixed sizes of bit
      sequences and rANS blocks (< 2.2).  MESH_EDGEBREAKER_PREDICTIVE_ENCODING (method byte 1) exists only in the
      decoder and only under backwards compatibility: MeshEdgebreakerEncoder::InitializeEncoder consults
      "edgebreaker_method" and creates an implementation only for the values 0 (standard) and 2 (valence); with the
      value 1 it returns false.  The model rejects method 1 (the harness does not send it). *)
From Draco Require Import Base.Codec Model.Varint Model.BitBuffer Model.Ans Model.BitCoders
  Model.RansSymbol Model.SymbolCoding.
Local Open Scope Z_scope.

Definition cur_ver : Z := 514.                        (* DRACO_BITSTREAM_VERSION(2, 2) *)
Definition to_i32 (x : Z) : Z := let y := x mod 2 ^ 32 in if y <? 2 ^ 31 then y else y - 2 ^ 32.

(** * mesh_edgebreaker_shared.h *)
Definition TOPOLOGY_C : Z := 0.
Definition TOPOLOGY_S : Z := 1.
Definition TOPOLOGY_L : Z := 3.
Definition TOPOLOGY_R : Z := 5.
Definition TOPOLOGY_E : Z := 7.
Definition TOPOLOGY_INVALID : Z := 9.                 (* enum value after TOPOLOGY_INIT_FACE = 8 *)
Definition is_topo (s : Z) : bool := (s =? 0) || (s =? 1) || (s =? 3) || (s =? 5) || (s =? 7).

(** edge_breaker_topology_bit_pattern_length[]; an index outside the array is [None]. *)
Definition pattern_length_table : list Z := [1; 3; 0; 3; 0; 3; 0; 3].
Definition pattern_length (s : Z) : option Z :=
  if s <? 0 then None else nth_error pattern_length_table (Z.to_nat s).
(** edge_breaker_topology_to_symbol_id[] (5 = EDGEBREAKER_SYMBOL_INVALID) and edge_breaker_symbol_to_topology_id[] *)
Definition topology_to_symbol_id_table : list Z := [0; 1; 5; 2; 5; 3; 5; 4].
Definition topology_to_symbol_id (s : Z) : option Z :=
  if s <? 0 then None else nth_error topology_to_symbol_id_table (Z.to_nat s).
Definition symbol_to_topology_table : list Z := [0; 1; 3; 5; 7].
Definition symbol_to_topology (id : Z) : option Z :=
  if id <? 0 then None else nth_error symbol_to_topology_table (Z.to_nat id).

(** * Standard traversal: encoder (MeshEdgebreakerTraversalEncoder::Done) *)

(** The puts of EncodeTraversalSymbols for symbols taken in the given order:
    EncodeLeastSignificantBits32(pattern_length[s], s). *)
Fixpoint sym_puts (syms : list Z) : option (list (Z * Z)) :=
  match syms with
  | [] => Some []
  | s :: r => match pattern_length s, sym_puts r with
              | Some n, Some t => Some ((n, s) :: t)
              | _, _ => None
              end
  end.

(** EncodeTraversalSymbols: StartBitEncoding(mesh()->num_faces() * 3, true) (a uint32 product), the symbols from the
    LAST to the first, EndBitEncoding.  [mesh_faces] = mesh()->num_faces() (all faces of the input mesh, degenerate
    ones included; every symbol is one of them).  [None]: StartBitEncoding refused (0 faces: EncodeConnectivity has
    failed before with "All triangles are degenerate"), or more bits than reserved (out-of-bounds write in the C++;
    excluded by length syms <= mesh_faces < 2^32 / 3, see the proofs). *)
Definition enc_symbol_block (mesh_faces : Z) (syms : list Z) : option bytes :=
  match sym_puts (rev syms) with
  | None => None
  | Some puts => enc_block ((mesh_faces * 3) mod 2 ^ 32) true puts
  end.

(** One RAnsBitEncoder per list: EndEncoding(&traversal_buffer_) in order. *)
Fixpoint enc_bit_seqs (l : list (list bool)) : option bytes :=
  match l with
  | [] => Some []
  | b :: r => match ransbit_encode b, enc_bit_seqs r with
              | Some x, Some y => Some (x ++ y)
              | _, _ => None
              end
  end.

(** Done(): EncodeTraversalSymbols(); EncodeStartFaces(); EncodeAttributeSeams().  Result: traversal_buffer_. *)
Definition enc_trav_std (mesh_faces : Z) (syms : list Z) (start_bits : list bool) (seams : list (list bool))
  : option bytes :=
  match enc_symbol_block mesh_faces syms, ransbit_encode start_bits, enc_bit_seqs seams with
  | Some a, Some b, Some c => Some (a ++ b ++ c)
  | _, _, _ => None
  end.

(** * Standard traversal: decoder *)

(** symbol_buffer_ in bit mode.  StartBitDecoding resets the bit decoder to data_head() .. END OF THE WHOLE BUFFER (not
    to the decoded size): [sb_D] is the little-endian value of everything behind the size field, [sb_L] its length in
    bits.  BitDecoder::GetBits: a bit at or behind the end reads as 0 and does not advance the offset. *)
Record symbuf := { sb_D : Z; sb_L : Z; sb_off : Z }.
Definition sb_get (b : symbuf) (n : Z) : Z * symbuf :=
  (Z.land (Z.shiftr (sb_D b) (sb_off b)) (Z.ones n),    (* = (D / 2^off) mod 2^n, see sb_get_spec; linear time when extracted *)
   {| sb_D := sb_D b; sb_L := sb_L b; sb_off := Z.min (sb_off b + n) (sb_L b) |}).
Fixpoint sb_get_list (ns : list Z) (b : symbuf) : list Z * symbuf :=
  match ns with
  | [] => ([], b)
  | n :: r => let '(v, b1) := sb_get b n in
              let '(vs, b2) := sb_get_list r b1 in (v :: vs, b2)
  end.
(** StartBitDecoding(false, nullptr); DecodeLeastSignificantBits32(n) for n in [ns]; EndBitDecoding: the values and
    the buffer behind the (bits_decoded + 7) / 8 consumed bytes.  Equal to BitBuffer.dec_block without size
    (EbTraversal_proofs.dec_bit_block_spec). *)
Definition dec_bit_block (ns : list Z) (bs : bytes) : list Z * bytes :=
  let '(vals, b) := sb_get_list ns {| sb_D := le_val bs; sb_L := 8 * zlen bs; sb_off := 0 |} in
  (vals, skipn (Z.to_nat ((sb_off b + 7) / 8)) bs).

(** MeshEdgebreakerTraversalDecoder::DecodeSymbol: one bit; if it is not TOPOLOGY_C two more. *)
Definition dec_symbol (b : symbuf) : Z * symbuf :=
  let '(s, b1) := sb_get b 1 in
  if s =? TOPOLOGY_C then (s, b1)
  else let '(suffix, b2) := sb_get b1 2 in (Z.lor s (Z.shiftl suffix 1), b2).
Fixpoint dec_symbols_n (n : nat) (b : symbuf) : list Z * symbuf :=
  match n with
  | O => ([], b)
  | S k => let '(s, b1) := dec_symbol b in
           let '(l, b2) := dec_symbols_n k b1 in (s :: l, b2)
  end.

(** [n] times RAnsBitDecoder::StartDecoding(&buffer_) (DecodeAttributeSeams). *)
Fixpoint start_bit_seqs (n : nat) (bs : bytes) : option (list rans_st * bytes) :=
  match n with
  | O => Some ([], bs)
  | S k => match ransbit_start cur_ver bs with
           | None => None
           | Some (st, r) => match start_bit_seqs k r with
                             | None => None
                             | Some (l, r') => Some (st :: l, r')
                             end
           end
  end.

(** What Start() leaves behind: the symbol bit reader, the start-face decoder, one seam decoder per attribute data. *)
Record std_dec := { sd_sym : symbuf; sd_start : rans_st; sd_seams : list rans_st }.

(** Start(): DecodeTraversalSymbols (size varint, guard `traversal_size > remaining_size`, Advance), DecodeStartFaces,
    DecodeAttributeSeams; the returned rest is *out_buffer. *)
Definition dec_trav_std_start (nattr : nat) (bs : bytes) : option (std_dec * bytes) :=
  match dec_varint_u 64 bs with
  | None => None
  | Some (sz, r) =>
    if sz >? zlen r then None else
    match ransbit_start cur_ver (skipn (Z.to_nat sz) r) with
    | None => None
    | Some (sf, r2) =>
      match start_bit_seqs nattr r2 with
      | None => None
      | Some (ss, r3) =>
        Some ({| sd_sym := {| sb_D := le_val r; sb_L := 8 * zlen r; sb_off := 0 |};
                 sd_start := sf; sd_seams := ss |}, r3)
      end
    end
  end.

(** Reading [n] bits from every decoder of a list (DecodeAttributeSeam(i) calls of attribute i). *)
Fixpoint read_seams (ns : list nat) (sts : list rans_st) : list (list bool) :=
  match ns, sts with
  | n :: nr, st :: sr => fst (read_n ransbit_next n st) :: read_seams nr sr
  | _, _ => []
  end.

(** Everything the state machine pulls out of a started decoder when it calls DecodeSymbol [nsym] times,
    DecodeStartFaceConfiguration [nstart] times and DecodeAttributeSeam(i) [nseams_i] times. *)
Definition drain_std (nsym nstart : nat) (nseams : list nat) (d : std_dec) : list Z * list bool * list (list bool) :=
  (fst (dec_symbols_n nsym (sd_sym d)), fst (read_n ransbit_next nstart (sd_start d)), read_seams nseams (sd_seams d)).

(** * Topology split events: EncodeSplitData / DecodeHoleAndTopologySplitEvents *)
Definition event : Type := (Z * Z * Z)%type.            (* source_symbol_id, split_symbol_id, source_edge *)
Definition ev_src (e : event) : Z := fst (fst e).
Definition ev_spl (e : event) : Z := snd (fst e).
Definition ev_edge (e : event) : Z := snd e.

(** the delta loop; [last] = last_source_symbol_id (an int).  uint32 - int and uint32 - uint32 are computed in
    unsigned 32-bit arithmetic. *)
Fixpoint enc_event_ids (last : Z) (evs : list event) : option bytes :=
  match evs with
  | [] => Some []
  | e :: r =>
    match enc_varint_u (u32 (ev_src e - last)), enc_varint_u (u32 (ev_src e - ev_spl e)),
          enc_event_ids (to_i32 (ev_src e)) r with
    | Some a, Some b, Some c => Some (a ++ b ++ c)
    | _, _, _ => None
    end
  end.

(** EncodeSplitData.  The count is a uint32; [None] for 2^32 or more events (not representable). *)
Definition enc_events (evs : list event) : option bytes :=
  let n := zlen evs in
  if n >=? 2 ^ 32 then None else
  match enc_varint_u n with
  | None => None
  | Some nb =>
    if n =? 0 then Some nb else
    match enc_event_ids 0 evs, enc_block n false (map (fun e => (1, ev_edge e)) evs) with
    | Some ids, Some blk => Some (nb ++ ids ++ blk)
    | _, _ => None
    end
  end.

(** The decoder's delta loop, [n] iterations.  Every iteration consumes at least two bytes or fails, so fuel
    [length bs] is never the reason of a failure: when it runs out the buffer is empty and DecodeVarint fails. *)
Fixpoint dec_event_ids (fuel : nat) (n : Z) (last : Z) (bs : bytes) : option (list (Z * Z) * bytes) :=
  if n <=? 0 then Some ([], bs) else
  match fuel with
  | O => None
  | S f =>
    match dec_varint_u 32 bs with
    | None => None
    | Some (d1, r1) =>
      let src := u32 (d1 + last) in                     (* delta + last_source_symbol_id, stored in a uint32 *)
      match dec_varint_u 32 r1 with
      | None => None
      | Some (d2, r2) =>
        if d2 >? src then None else                      (* delta > event_data.source_symbol_id *)
        let spl := u32 (src - to_i32 d2) in             (* source_symbol_id - static_cast<int32_t>(delta) *)
        match dec_event_ids f (n - 1) (to_i32 src) r2 with
        | None => None
        | Some (l, r3) => Some ((src, spl) :: l, r3)
        end
      end
    end
  end.

Fixpoint zip_events (ids : list (Z * Z)) (edges : list Z) : list event :=
  match ids, edges with
  | (s, p) :: ir, e :: er => (s, p, Z.land e 1) :: zip_events ir er
  | _, _ => []
  end.

(** DecodeHoleAndTopologySplitEvents on a >= 2.2 stream; [nf] = corner_table_->num_faces() (the declared face count).
    The result of StartBitDecoding(false, nullptr) is not tested (it cannot fail). *)
Definition dec_events (nf : Z) (bs : bytes) : option (list event * bytes) :=
  match dec_varint_u 32 bs with
  | None => None
  | Some (n, r) =>
    if n =? 0 then Some ([], r) else
    if n >? nf then None else
    match dec_event_ids (length r) n 0 r with
    | None => None
    | Some (ids, r1) =>
      let '(edges, r2) := dec_bit_block (repeat 1 (Z.to_nat n)) r1 in
      Some (zip_events ids edges, r2)
    end
  end.

(** * Valence traversal *)

(** ** encoder.  [pairs]: (context, symbol id) in the order of the push_back calls of EncodeSymbol
    (context = clamped valence - min_valence in 0..5, symbol id = edge_breaker_topology_to_symbol_id[prev_symbol_]). *)
Definition num_contexts : nat := 6.                   (* max_valence_ - min_valence_ + 1 = 7 - 2 + 1 *)
Definition ctx_list (pairs : list (Z * Z)) (c : Z) : list Z :=
  map snd (filter (fun p => fst p =? c) pairs).

(** `for i < context_symbols_.size()`: EncodeVarint<uint32_t>(size); if size > 0 EncodeSymbols(data, size, 1, nullptr, buf).
    [methods]: the scheme EncodeSymbols chooses for context i (its size estimates are not modelled, see SymbolCoding.v);
    options = nullptr, so the compression level is the default 7. *)
Fixpoint enc_contexts (methods : list Z) (lists : list (list Z)) : option bytes :=
  match lists with
  | [] => Some []
  | l :: lr =>
    let m := match methods with m :: _ => m | [] => 0 end in
    if zlen l >=? 2 ^ 32 then None else
    match enc_varint_u (zlen l), enc_symbols m 7 1 l, enc_contexts (tl methods) lr with
    | Some a, Some b, Some c => Some (a ++ b ++ c)
    | _, _, _ => None
    end
  end.

Definition all_contexts : list Z := [0; 1; 2; 3; 4; 5].
(** MeshEdgebreakerTraversalValenceEncoder::Done(): EncodeStartFaces, EncodeAttributeSeams, the contexts. *)
Definition enc_trav_val (methods : list Z) (pairs : list (Z * Z)) (start_bits : list bool) (seams : list (list bool))
  : option bytes :=
  match ransbit_encode start_bits, enc_bit_seqs seams, enc_contexts methods (map (ctx_list pairs) all_contexts) with
  | Some a, Some b, Some c => Some (a ++ b ++ c)
  | _, _, _ => None
  end.

(** ** decoder *)
(** Start() ignores the result of DecodeSymbols: after a failed DecodeSymbols the position of out_buffer and the
    content of the context array are whatever the failed call left.  That state is not modelled: [VIgnoredFailure]. *)
Inductive vres (A : Type) : Type := VOk (a : A) | VReject | VIgnoredFailure.
Arguments VOk {A} _. Arguments VReject {A}. Arguments VIgnoredFailure {A}.

Fixpoint dec_contexts (k : nat) (nf : Z) (bs : bytes) : vres (list (list Z) * bytes) :=
  match k with
  | O => VOk ([], bs)
  | S k' =>
    match dec_varint_u 32 bs with
    | None => VReject
    | Some (n, r) =>
      if n >? nf then VReject else                       (* num_symbols > corner_table_->num_faces() *)
      if n =? 0 then
        match dec_contexts k' nf r with
        | VOk (ls, r') => VOk ([] :: ls, r')
        | VReject => VReject | VIgnoredFailure => VIgnoredFailure
        end
      else
        match dec_symbols cur_ver (Z.to_nat n) 1 [] r with
        | Ok (l, r1) =>
          match dec_contexts k' nf r1 with
          | VOk (ls, r') => VOk (l :: ls, r')
          | VReject => VReject | VIgnoredFailure => VIgnoredFailure
          end
        | _ => VIgnoredFailure
        end
    end
  end.

(** The decoder's per-context state: the symbol ids and context_counters_ (symbols are taken from the back). *)
Record val_dec := { vd_start : rans_st; vd_seams : list rans_st; vd_lists : list (list Z); vd_counters : list Z }.

(** MeshEdgebreakerTraversalValenceDecoder::Start() on a 2.2 stream.  [num_vertices] = the int handed to
    SetNumEncodedVertices (num_encoded_vertices_ + num_encoded_split_symbols), [nf] = corner_table_->num_faces(). *)
Definition dec_trav_val_start (num_vertices nf : Z) (nattr : nat) (bs : bytes) : vres (val_dec * bytes) :=
  match ransbit_start cur_ver bs with
  | None => VReject
  | Some (sf, r1) =>
    match start_bit_seqs nattr r1 with
    | None => VReject
    | Some (ss, r2) =>
      if num_vertices <? 0 then VReject else
      match dec_contexts num_contexts nf r2 with
      | VOk (ls, r3) =>
        VOk ({| vd_start := sf; vd_seams := ss; vd_lists := ls; vd_counters := map zlen ls |}, r3)
      | VReject => VReject
      | VIgnoredFailure => VIgnoredFailure
      end
    end
  end.

Fixpoint list_set {A} (l : list A) (i : nat) (v : A) : list A :=
  match l, i with
  | [], _ => []
  | _ :: r, O => v :: r
  | x :: r, S j => x :: list_set r j v
  end.

(** DecodeSymbol() of the valence decoder on a 2.2 stream, [ctx] = active_context_ (-1: none yet), [last] = last_symbol_.
    Returns (returned symbol, new last_symbol_, new counters).  The counter is decremented before it is tested. *)
Definition vd_decode_symbol (ctx last : Z) (lists : list (list Z)) (counters : list Z) : Z * Z * list Z :=
  if ctx =? -1 then (TOPOLOGY_E, TOPOLOGY_E, counters)             (* "The first symbol must be E." *)
  else
    match nth_error counters (Z.to_nat ctx), nth_error lists (Z.to_nat ctx) with
    | Some c, Some l =>
      let c' := c - 1 in
      let counters' := list_set counters (Z.to_nat ctx) c' in
      if c' <? 0 then (TOPOLOGY_INVALID, last, counters') else
      match nth_error l (Z.to_nat c') with
      | None => (TOPOLOGY_INVALID, last, counters')                 (* unreachable: c' < size of the list *)
      | Some id =>
        if id >? 4 then (TOPOLOGY_INVALID, last, counters') else
        match symbol_to_topology id with
        | Some s => (s, s, counters')
        | None => (TOPOLOGY_INVALID, last, counters')
        end
      end
    | _, _ => (TOPOLOGY_INVALID, last, counters)                    (* unreachable: 0 <= active_context_ < 6 *)
    end.

(** The symbol loop of DecodeConnectivity(num_symbols) as the valence decoder sees it: DecodeSymbol, then (after the
    state machine processed the symbol) NewActiveCornerReached, which computes the context of the next symbol.
    The environment [env_step env last_symbol] stands for the state machine + the valence bookkeeping: it returns
    the new active_context_, or [None] when the state machine stops (it rejects the symbol).  The loop stops after
    an invalid symbol ("Unknown symbol decoded": return -1).
    Result: the symbols DecodeSymbol returned, the contexts that were active at each call, the final counters. *)
Section ValenceRun.
  Context {Env : Type} (env_step : Env -> Z -> option (Env * Z)).
  Fixpoint vd_run (n : nat) (env : Env) (ctx last : Z) (lists : list (list Z)) (counters : list Z)
    : list Z * list Z * list Z :=
    match n with
    | O => ([], [], counters)
    | S k =>
      let '(s, last', counters') := vd_decode_symbol ctx last lists counters in
      if negb (is_topo s) then ([s], [ctx], counters') else
      match env_step env last' with
      | None => ([s], [ctx], counters')
      | Some (env', ctx') =>
        let '(ss, cs, cf) := vd_run k env' ctx' last' lists counters' in
        (s :: ss, ctx :: cs, cf)
      end
    end.
End ValenceRun.

(** ** The valence bookkeeping of the decoder, exactly as written (NewActiveCornerReached, MergeVertices).
    vertex_valences_ is a vector<int> of size num_vertices_; an index outside it is [None] (out-of-bounds access in
    the C++: IndexTypeVector::operator[] does not test).  Valences are C++ ints: every update adds at most 2 and the
    sum of all valences is at most 6 * num_symbols, so there is no signed overflow below 357913941 symbols; the
    model computes in Z. *)
Definition val_add (vals : list Z) (v : Z) (d : Z) : option (list Z) :=
  if v <? 0 then None else
  match nth_error vals (Z.to_nat v) with
  | None => None
  | Some x => Some (list_set vals (Z.to_nat v) (x + d))
  end.

(** MergeVertices(dest, source): vertex_valences_[dest] += vertex_valences_[source]. *)
Definition val_merge (vals : list Z) (dest source : Z) : option (list Z) :=
  if source <? 0 then None else
  match nth_error vals (Z.to_nat source) with
  | None => None
  | Some x => val_add vals dest x
  end.

Definition obind3 (o : option (list Z)) (f : list Z -> option (list Z)) : option (list Z) :=
  match o with Some a => f a | None => None end.

(** NewActiveCornerReached(corner) with vc = Vertex(corner), vn = Vertex(Next(corner)), vp = Vertex(Previous(corner)),
    [last] = last_symbol_.  Returns the valences and the new active_context_. *)
Definition new_active_corner (vals : list Z) (last vc vn vp : Z) : option (list Z * Z) :=
  let upd :=
    if (last =? TOPOLOGY_C) || (last =? TOPOLOGY_S) then
      obind3 (val_add vals vn 1) (fun v => val_add v vp 1)
    else if last =? TOPOLOGY_R then
      obind3 (obind3 (val_add vals vc 1) (fun v => val_add v vn 1)) (fun v => val_add v vp 2)
    else if last =? TOPOLOGY_L then
      obind3 (obind3 (val_add vals vc 1) (fun v => val_add v vn 2)) (fun v => val_add v vp 1)
    else if last =? TOPOLOGY_E then
      obind3 (obind3 (val_add vals vc 2) (fun v => val_add v vn 2)) (fun v => val_add v vp 2)
    else Some vals in
  match upd with
  | None => None
  | Some vals' =>
    if vn <? 0 then None else
    match nth_error vals' (Z.to_nat vn) with
    | None => None
    | Some active_valence =>
      let clamped := if active_valence <? 2 then 2 else if active_valence >? 7 then 7 else active_valence in
      Some (vals', clamped - 2)
    end
  end.

(** What the state machine does between two DecodeSymbol calls, seen from the traversal decoder: an optional
    MergeVertices(dest, source) (symbol S), then NewActiveCornerReached with these three vertices. *)
Record vstep := { vs_merge : option (Z * Z); vs_c : Z; vs_n : Z; vs_p : Z }.
Definition val_env : Type := (list Z * list vstep)%type.
Definition val_env_step (env : val_env) (last : Z) : option (val_env * Z) :=
  match snd env with
  | [] => None
  | stp :: r =>
    let merged := match vs_merge stp with
                  | Some (d, s) => val_merge (fst env) d s
                  | None => Some (fst env)
                  end in
    match merged with
    | None => None
    | Some vals =>
      match new_active_corner vals last (vs_c stp) (vs_n stp) (vs_p stp) with
      | None => None
      | Some (vals', ctx) => Some ((vals', r), ctx)
      end
    end
  end.

(** * The framing: InitializeEncoder + EncodeConnectivity / InitializeDecoder + DecodeConnectivity() *)
Record conn_hdr := {
  ch_method : Z;        (* uint8: 0 = MESH_EDGEBREAKER_STANDARD_ENCODING, 2 = MESH_EDGEBREAKER_VALENCE_ENCODING *)
  ch_nv : Z;            (* num_vertices_to_be_encoded / num_encoded_vertices (uint32) *)
  ch_nf : Z;            (* num_faces (uint32) *)
  ch_nattr : Z;         (* num_attribute_data (uint8) *)
  ch_nsym : Z;          (* num_encoded_symbols (uint32) *)
  ch_nsplit : Z         (* num_split_symbols_ / num_encoded_split_symbols (uint32) *)
}.

(** Everything is written to the encoder's main buffer in this order: method byte; num_vertices, num_faces (varints);
    num_attribute_data (byte; the encode fails before it with more than 128 attribute data: the decoder addresses them
    with an int8_t id); [the traversal runs; Done() fills traversal_buffer_]; num_encoded_symbols,
    num_split_symbols_ (varints); EncodeSplitData(); the traversal buffer. *)
Definition enc_conn (h : conn_hdr) (evs : list event) (trav : bytes) : option bytes :=
  if ch_nattr h >? 128 then None else                 (* attribute_data_.size() > 128: "Too many attributes." *)
  match enc_varint_u (ch_nv h), enc_varint_u (ch_nf h), enc_varint_u (ch_nsym h), enc_varint_u (ch_nsplit h),
        enc_events evs with
  | Some a, Some b, Some c, Some d, Some e =>
    Some ([ch_method h] ++ a ++ b ++ [ch_nattr h] ++ c ++ d ++ e ++ trav)
  | _, _, _, _, _ => None
  end.

(** The guards of DecodeConnectivity() on the declared counts, in source order (G1..G7; G8 = the event count and G9 = the
    split delta are in [dec_events]; G10 = traversal size in [dec_trav_std_start]). *)
Definition conn_guards (nv nf nsym nsplit : Z) : bool :=
  let nev64 := to_i32 nv mod 2 ^ 64 in                            (* static_cast<uint64_t>(num_encoded_vertices_), an int *)
  let max_edges := ((nev64 * (nev64 - 1)) mod 2 ^ 64) / 2 in
  negb (nf >? 1431655765) &&                                      (* G1: > numeric_limits<uint32>::max() / 3 *)
  negb (u32 (to_i32 nv) >? u32 (nf * 3)) &&                       (* G2: more vertices than 3 * num_faces *)
  negb (max_edges <? (u32 (3 * nf)) / 2) &&                       (* G3: fewer vertex pairs than 3 * num_faces / 2 *)
  negb (nf <? nsym) &&                                            (* G4 *)
  negb (nf >? u32 (nsym + nsym / 3)) &&                           (* G5: max_encoded_faces *)
  negb (nsplit >? nsym) &&                                        (* G6 *)
  negb (to_i32 (u32 (to_i32 nv + nsplit)) <? 0).                  (* G7: CornerTable::Reset(num_faces, int num_vertices) *)

(** num_encoded_vertices_ + num_encoded_split_symbols (int + uint32, computed as uint32): the size of is_vert_hole_, and
    (converted to int) the vertex budget given to CornerTable::Reset and SetNumEncodedVertices. *)
Definition conn_max_vertices (nv nsplit : Z) : Z := u32 (to_i32 nv + nsplit).

Inductive trav_dec := TStd (d : std_dec) | TVal (d : val_dec).

(** InitializeDecoder + DecodeConnectivity() up to and including traversal_decoder_.Start(): header, guards, events,
    Start.  The result carries the readers from which the state machine then pulls symbols and bits; [rest] is
    traversal_end_buffer, where the attribute data continue. *)
Definition dec_conn (bs : bytes) : vres (conn_hdr * list event * trav_dec * bytes) :=
  match bs with
  | [] => VReject
  | method :: r0 =>
    if negb ((method =? 0) || (method =? 2)) then VReject else
    match dec_varint_u 32 r0 with None => VReject | Some (nv, r1) =>
    match dec_varint_u 32 r1 with None => VReject | Some (nf, r2) =>
    match r2 with [] => VReject | nattr :: r3 =>
    match dec_varint_u 32 r3 with None => VReject | Some (nsym, r4) =>
    match dec_varint_u 32 r4 with None => VReject | Some (nsplit, r5) =>
      if negb (conn_guards nv nf nsym nsplit) then VReject else
      match dec_events nf r5 with None => VReject | Some (evs, r6) =>
        let h := {| ch_method := method; ch_nv := nv; ch_nf := nf; ch_nattr := nattr;
                    ch_nsym := nsym; ch_nsplit := nsplit |} in
        if method =? 0 then
          match dec_trav_std_start (Z.to_nat nattr) r6 with
          | None => VReject
          | Some (d, rest) => VOk (h, evs, TStd d, rest)
          end
        else
          match dec_trav_val_start (to_i32 (conn_max_vertices nv nsplit)) nf (Z.to_nat nattr) r6 with
          | VOk (d, rest) => VOk (h, evs, TVal d, rest)
          | VReject => VReject
          | VIgnoredFailure => VIgnoredFailure
          end
      end
    end end end end end
  end.
