(** Sizes around RAnsSymbolEncoder<N>::StartEncoding / EncodeSymbol / EndEncoding (rans_symbol_encoder.h) and the
    quantities the write-area theorem (Proofs/RansBound_proofs.v) talks about.

    StartEncoding:   required_bits  = 2 * num_expected_bits_ + 32            (uint64)
                     required_bytes = (required_bits + 7) / 8
                     buffer->Resize(buffer_offset_ + required_bytes + sizeof(buffer_offset_))     (+ 8)
                     ans_.write_init(data + buffer_offset_)
    EncodeSymbol:    ans_.rans_write(&probability_table_[symbol]) : buf[buf_offset++] = ..., NO bounds check
    EndEncoding:     bytes_written = ans_.write_end()  (1..4 more bytes at buf[buf_offset..], NO bounds check)
                     memmove(src + size_len, src, bytes_written); memcpy(src, varint(bytes_written), size_len)
                     buffer->Resize(buffer_offset_ + bytes_written + size_len)
    so the highest byte touched in the area that starts at buffer_offset_ is at index
    bytes_written + size_len - 1, and the area holds [rans_reserved num_expected_bits_] bytes.

    Create computes, in double precision and with libm's log2,
        num_bits = sum over the table entries i with prob_i != 0 of double(frequencies[i]) * log2(prob_i / 2^P)
        num_expected_bits_ = static_cast<uint64_t>(ceil(-num_bits))
    libm is outside the model: [E] (the value of num_expected_bits_) is an input of the statements, constrained by
    [ebits_ok], which is written with integer powers only (no real logarithm):
        cross = sum_i f_i * log2(2^P / p_i)  is the exact value of -num_bits,  2^cross = tbl_num / tbl_den,
        ebits_ok  <->  5 * cross <= 8 * E + 96  <->  E >= 0.625 * cross - 12. *)
From Coq Require Import FMapPositive.
From Draco Require Import Base.Codec Model.Varint Model.RansSymbol.
Local Open Scope Z_scope.

(** Bytes available from buffer_offset_ on after StartEncoding. *)
Definition rans_reserved (E : Z) : Z := (((2 * E + 32) mod 2 ^ 64 + 7) mod 2 ^ 64) / 8 + 8.

(** Bytes of that area EndEncoding has touched when it returns: the block moved behind its length prefix.
    [None]: the length does not fit a varint (never for a uint64). *)
Definition rans_area_used (P : Z) (st : rstate) : option Z :=
  let w := zlen (rans_block P st) in
  match enc_varint_u w with Some l => Some (w + zlen l) | None => None end.

(** The exact counterpart of Create's loop over the table: numerator and denominator of 2^cross,
    entries with probability 0 skipped as the C++ `continue`s over them. *)
Fixpoint tbl_num (M : Z) (probs freqs : list Z) : Z :=
  match probs, freqs with
  | p :: pr, f :: fr => (if p =? 0 then 1 else M ^ f) * tbl_num M pr fr
  | _, _ => 1
  end.
Fixpoint tbl_den (probs freqs : list Z) : Z :=
  match probs, freqs with
  | p :: pr, f :: fr => (if p =? 0 then 1 else p ^ f) * tbl_den pr fr
  | _, _ => 1
  end.
Definition ebits_ok (P : Z) (probs freqs : list Z) (E : Z) : Prop :=
  tbl_num (2 ^ P) probs freqs ^ 5 <= 2 ^ (8 * E + 96) * tbl_den probs freqs ^ 5.
(** The stronger, more familiar accuracy statement  E >= cross - 12  (it implies [ebits_ok] for E >= 0). *)
Definition ebits_close (P : Z) (probs freqs : list Z) (E : Z) : Prop :=
  tbl_num (2 ^ P) probs freqs <= 2 ^ (E + 12) * tbl_den probs freqs.

(** How the symbol sequence relates to the frequency table handed to Create: symbol s occurs at most
    frequencies[s] times.  EncodeRawSymbolsInternal / EncodeTaggedSymbols count the frequencies from the very
    sequence they encode, so there it holds with equality ([hist_eq]). *)
Fixpoint zcount (s : Z) (l : list Z) : Z :=
  match l with [] => 0 | x :: r => (if x =? s then 1 else 0) + zcount s r end.
Definition hist_le (syms freqs : list Z) : Prop :=
  forall s, 0 <= s -> zcount s syms <= nth (Z.to_nat s) freqs 0.
Definition hist_eq (syms freqs : list Z) : Prop :=
  forall s, 0 <= s -> zcount s syms = nth (Z.to_nat s) freqs 0.

(** The number of used symbols of a frequency table (entries are uint64 counts, so min(1, f) is 1 exactly for f > 0). *)
Definition nused (freqs : list Z) : Z := zsum (map (Z.min 1) freqs).

(** * A numerical checker for [ebits_ok] that runs in the extracted model (used by the driver to test, case by case,
      the accuracy assumption made about the double/libm computation of num_expected_bits_).  It is NOT used by any
      theorem and its soundness is not proved (it is part of the tested tie, like the generators).
    [log2_lo k p]: a lower bound of 2^k * log2 p in fixed point, by repeated squaring of the mantissa
    m / 2^LMB in [1, 2), every product truncated (so the result can only be too small).
    [log2_hi k p]: the same with every product rounded up (an upper bound). *)
Definition LMB : Z := 40.
Fixpoint log2_frac_lo (k : nat) (m : Z) : Z :=
  match k with
  | O => 0
  | S k' => let m2 := Z.shiftr (m * m) LMB in
            if m2 >=? 2 ^ (LMB + 1) then 2 ^ Z.of_nat k' + log2_frac_lo k' (Z.shiftr m2 1) else log2_frac_lo k' m2
  end.
Fixpoint log2_frac_hi (k : nat) (m : Z) : Z :=
  match k with
  | O => 1
  | S k' => let m2 := Z.shiftr (m * m + 2 ^ LMB - 1) LMB in
            if m2 >=? 2 ^ (LMB + 1) then 2 ^ Z.of_nat k' + log2_frac_hi k' (Z.shiftr (m2 + 1) 1) else log2_frac_hi k' m2
  end.
Definition log2_lo (k : nat) (p : Z) : Z :=
  let e := Z.log2 p in e * 2 ^ Z.of_nat k + log2_frac_lo k (Z.shiftl p (LMB - e)).
Definition log2_hi (k : nat) (p : Z) : Z :=
  let e := Z.log2 p in e * 2 ^ Z.of_nat k + log2_frac_hi k (Z.shiftl p (LMB - e)).

(** 2^k * cross, from above ([lg] = log2_lo) resp. from below ([lg] = log2_hi): sum_i f_i * (P * 2^k - lg p_i).
    Powers of two (probability 1 above all: the many symbols that occur once) need no squaring. *)
Definition lg_cached (lg : Z -> Z) (k : nat) (p : Z) : Z :=
  if p =? 1 then 0 else if p =? 2 ^ Z.log2 p then Z.log2 p * 2 ^ Z.of_nat k else lg p.
Fixpoint cross_fix (lg : Z -> Z) (P : Z) (k : nat) (probs freqs : list Z) : Z :=
  match probs, freqs with
  | p :: pr, f :: fr => (if (p =? 0) || (f =? 0) then 0 else f * (P * 2 ^ Z.of_nat k - lg p)) + cross_fix lg P k pr fr
  | _, _ => 0
  end.
Definition LFB : nat := 24.
Definition cross_hi (P : Z) (probs freqs : list Z) : Z := cross_fix (lg_cached (log2_lo LFB) LFB) P LFB probs freqs.
Definition cross_lo (P : Z) (probs freqs : list Z) : Z :=
  cross_fix (lg_cached (log2_hi LFB) LFB) P LFB probs freqs.
(** 5 * cross <= 8 * E + 96, decided with the upper bound of cross. *)
Definition ebits_check_with (chi E : Z) : bool := 5 * chi <=? (8 * E + 96) * 2 ^ Z.of_nat LFB.
Definition ebits_check (P : Z) (probs freqs : list Z) (E : Z) : bool := ebits_check_with (cross_hi P probs freqs) E.
(** The two-sided comparison the driver prints: ceil(cross) lies in [ceil(cross_lo / 2^24), ceil(cross_hi / 2^24)];
    the double computation may be off by rounding, hence one unit of slack on both sides. *)
Definition ebits_window (P : Z) (probs freqs : list Z) : Z * Z :=
  let u := 2 ^ Z.of_nat LFB in
  ((cross_lo P probs freqs + u - 1) / u - 1, (cross_hi P probs freqs + u - 1) / u + 1).
(** Both at once (the upper bound of cross computed once): (lo, hi, check). *)
Definition ebits_report (P : Z) (probs freqs : list Z) (E : Z) : Z * Z * bool :=
  let u := 2 ^ Z.of_nat LFB in
  let chi := cross_hi P probs freqs in
  ((cross_lo P probs freqs + u - 1) / u - 1, (chi + u - 1) / u + 1, ebits_check_with chi E).
