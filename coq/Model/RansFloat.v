(** The double-precision steps of RAnsSymbolEncoder<N>::Create (rans_symbol_encoder.h), bit-exact, with
    Flocq's binary64 (round to nearest even; x86-64 SSE2 arithmetic, no contraction is possible here because the
    only product that feeds a sum is a multiplication by a power of two, which is exact).
      prob      = static_cast<double>(freq) / total_freq_d;
      rans_prob = static_cast<uint32_t>(prob * rans_precision_d + 0.5f);
      act_rel_error_d = rans_precision_d / act_total_prob_d;
      new_prob  = static_cast<int32_t>(floor(act_rel_error_d * static_cast<double>(prob)));
    All values are non-negative and far below 2^31, so both casts are truncations of the exact double. *)
From Coq Require Import ZArith.
From Flocq Require Import Core IEEE754.BinarySingleNaN.
Local Open Scope Z_scope.

Definition f64 := binary_float 53 1024.
#[export] Instance Hprec64 : FLX.Prec_gt_0 53. Proof. reflexivity. Qed.
#[export] Instance Hmax64 : Prec_lt_emax 53 1024. Proof. reflexivity. Qed.
(** static_cast<double>(uint64/uint32/int): round to nearest even *)
Definition f64_of_Z (z : Z) : f64 := binary_normalize 53 1024 _ _ mode_NE z 0 false.
Definition f64_div (a b : f64) : f64 := Bdiv mode_NE a b.
Definition f64_mul (a b : f64) : f64 := Bmult mode_NE a b.
Definition f64_add (a b : f64) : f64 := Bplus mode_NE a b.
Definition f64_half : f64 := f64_div (f64_of_Z 1) (f64_of_Z 2).

Definition f64_rnd (P total : Z) : Z -> Z :=
  let t := f64_of_Z total in
  let pr := f64_of_Z (2 ^ P) in
  let h := f64_half in
  fun freq => Btrunc (f64_add (f64_mul (f64_div (f64_of_Z freq) t) pr) h).
Definition f64_rel (P total : Z) : f64 := f64_div (f64_of_Z (2 ^ P)) (f64_of_Z total).
Definition f64_scale (rel : f64) (p : Z) : Z := Btrunc (f64_mul rel (f64_of_Z p)).
