(** Model of the integer part of OctahedronToolBox
      (compression/attributes/normal_compression_utils.h)
    and of the two octahedral prediction transforms for DataTypeT = int32_t:
      prediction_scheme_normal_octahedron_transform_base.h (+ encoding/decoding transform)
      prediction_scheme_normal_octahedron_canonicalized_transform_base.h (+ encoding/decoding).
    Conventions: signed int32 operations whose overflow would be undefined behaviour are
    written with exact Z arithmetic and listed in a [*_trace] (every signed intermediate
    result); [*_no_ub] says that all of them are representable.  Unsigned (uint32_t)
    arithmetic is explicit [u32], conversions back to int32_t are explicit [to_i32].
    Every function is parameterised by the tool box state; for all states the C++ can
    reach that state is determined by center_value_ = c:
      max_quantized_value_ = 2c+1, max_value_ = 2c.   (see [set_quantization_bits]) *)
From Coq Require Import ZArith Bool List.
From Draco Require Import Model.Wrap.
Import ListNotations.
Local Open Scope Z_scope.

Definition u32 (x : Z) : Z := x mod 4294967296.

Definition pt := (Z * Z)%type.

(** ---- OctahedronToolBox state ---- *)
Record obox := mk_obox { ob_q : Z; ob_mqv : Z; ob_maxv : Z; ob_center : Z }.

(** SetQuantizationBits(q): q in [2,30];
      max_quantized_value_ = (1u << q) - 1; max_value_ = mqv - 1; center_value_ = max_value_ / 2 *)
Definition set_quantization_bits (q : Z) : option obox :=
  if (q <? 2) || (q >? 30) then None
  else
    let mqv := to_i32 (u32 (u32 (Z.shiftl 1 q) - 1)) in
    let maxv := mqv - 1 in
    Some (mk_obox q mqv maxv (Z.quot maxv 2)).

(** The state as a function of the center value (what all theorems quantify over). *)
Definition obox_of_center (c : Z) : obox := mk_obox (Z.log2 (2 * c + 1) + 1) (2 * c + 1) (2 * c) c.

(** PredictionSchemeNormalOctahedronTransformBase::set_max_quantized_value(m) for int32 m:
      if (m % 2 == 0) return false;  q = MostSignificantBit(m) + 1;  SetQuantizationBits(q)
    MostSignificantBit takes uint32_t (m converted), = floor(log2) for m != 0.
    C++ % truncates toward zero: [Z.rem]. *)
Definition set_max_quantized_value (m : Z) : option obox :=
  if Z.rem m 2 =? 0 then None
  else set_quantization_bits (Z.log2 (u32 m) + 1).

(** ...CanonicalizedDecodingTransform::DecodeTransformData after the two Decode calls
    (center_value read from the stream is ignored); the extra q < 2 / q > 30 tests are
    implied by SetQuantizationBits having succeeded but are modelled as written. *)
Definition oct_canon_dec_init (m : Z) : option obox :=
  match set_max_quantized_value m with
  | None => None
  | Some b => if (ob_q b <? 2) || (ob_q b >? 30) then None else Some b
  end.

(** ---- integer leaf functions of the tool box (b = state) ---- *)

(** IsInDiamond(s,t): st = uint32(abs(s)) + uint32(abs(t));  return st <= center_value_
    (comparison in uint32_t).  std::abs(INT_MIN) is UB: precondition s,t > INT_MIN. *)
Definition is_in_diamond (b : obox) (s t : Z) : bool :=
  u32 (u32 (Z.abs s) + u32 (Z.abs t)) <=? u32 (ob_center b).

(** InvertDiamond(&s,&t): the sign computation is signed, the mirroring is done in
    uint32_t, the result is converted to int32_t and halved with C++ '/' ([Z.quot]). *)
Definition invert_signs (s t : Z) : Z * Z :=
  if (s >=? 0) && (t >=? 0) then (1, 1)
  else if (s <=? 0) && (t <=? 0) then (-1, -1)
  else ((if s >? 0 then 1 else -1), (if t >? 0 then 1 else -1)).

Definition invert_diamond (b : obox) (p : pt) : pt :=
  let '(s, t) := p in
  let '(sign_s, sign_t) := invert_signs s t in
  let corner_s := u32 (sign_s * ob_center b) in
  let corner_t := u32 (sign_t * ob_center b) in
  let us := u32 s in
  let ut := u32 t in
  let us := u32 (u32 (us + us) - corner_s) in
  let ut := u32 (u32 (ut + ut) - corner_t) in
  let '(us, ut) := if sign_s * sign_t >=? 0 then (u32 (- ut), u32 (- us)) else (ut, us) in
  let us := u32 (us + corner_s) in
  let ut := u32 (ut + corner_t) in
  (Z.quot (to_i32 us) 2, Z.quot (to_i32 ut) 2).

(** ModMax(x) / MakePositive(x) (no overflow possible for any int32 x when 0 < mqv). *)
Definition mod_max (b : obox) (x : Z) : Z :=
  if x >? ob_center b then x - ob_mqv b
  else if x <? - ob_center b then x + ob_mqv b
  else x.
Definition make_positive (b : obox) (x : Z) : Z := if x <? 0 then x + ob_mqv b else x.

(** CanonicalizeOctahedralCoords(s,t,&out_s,&out_t) *)
Definition canonicalize (b : obox) (p : pt) : pt :=
  let '(s, t) := p in
  let mx := ob_maxv b in
  let c := ob_center b in
  if ((s =? 0) && (t =? 0)) || ((s =? 0) && (t =? mx)) || ((s =? mx) && (t =? 0)) then (mx, mx)
  else if (s =? 0) && (t >? c) then (s, c - (t - c))
  else if (s =? mx) && (t <? c) then (s, c + (c - t))
  else if (t =? mx) && (s <? c) then (c + (c - s), t)
  else if (t =? 0) && (s >? c) then (c - (s - c), t)
  else (s, t).
(** signed intermediates of the branch taken (for the no-UB domain of the harness) *)
Definition canonicalize_trace (b : obox) (p : pt) : list Z :=
  let '(s, t) := p in
  let mx := ob_maxv b in
  let c := ob_center b in
  if ((s =? 0) && (t =? 0)) || ((s =? 0) && (t =? mx)) || ((s =? mx) && (t =? 0)) then []
  else if (s =? 0) && (t >? c) then [t - c; c - (t - c)]
  else if (s =? mx) && (t <? c) then [c - t; c + (c - t)]
  else if (t =? mx) && (s <? c) then [c - s; c + (c - s)]
  else if (t =? 0) && (s >? c) then [s - c; c - (s - c)]
  else [].

(** ---- canonicalized transform base ---- *)
(** GetRotationCount(pred) *)
Definition rotation_count (p : pt) : Z :=
  let '(sign_x, sign_y) := p in
  if sign_x =? 0 then
    (if sign_y =? 0 then 0 else if sign_y >? 0 then 3 else 1)
  else if sign_x >? 0 then
    (if sign_y >=? 0 then 2 else 1)
  else
    (if sign_y <=? 0 then 0 else 3).

(** RotatePoint(p, rotation_count); unary minus on INT_MIN would be UB. *)
Definition rotate_point (p : pt) (k : Z) : pt :=
  let '(x, y) := p in
  if k =? 1 then (y, - x)
  else if k =? 2 then (- x, - y)
  else if k =? 3 then (- y, x)
  else p.

(** IsInBottomLeft(p) *)
Definition is_in_bottom_left (p : pt) : bool :=
  let '(x, y) := p in
  if (x =? 0) && (y =? 0) then true else (x <? 0) && (y <=? 0).

(** AddAsUnsigned(a, b) for int32_t *)
Definition add_as_unsigned (a b : Z) : Z := to_i32 (u32 (u32 a + u32 b)).

Definition psub (a b : pt) : pt := (fst a - fst b, snd a - snd b).
Definition padd (a b : pt) : pt := (fst a + fst b, snd a + snd b).

(** ---- PredictionSchemeNormalOctahedronCanonicalizedEncodingTransform::ComputeCorrection ---- *)
Definition oct_canon_enc (b : obox) (orig pred : pt) : pt :=
  let t := (ob_center b, ob_center b) in
  let orig := psub orig t in
  let pred := psub pred t in
  let ind := is_in_diamond b (fst pred) (snd pred) in
  let orig := if ind then orig else invert_diamond b orig in
  let pred := if ind then pred else invert_diamond b pred in
  let bl := is_in_bottom_left pred in
  let k := rotation_count pred in
  let orig := if bl then orig else rotate_point orig k in
  let pred := if bl then pred else rotate_point pred k in
  let corr := psub orig pred in
  (make_positive b (fst corr), make_positive b (snd corr)).

(** all signed int32 results computed on the way (in program order) *)
Definition oct_canon_enc_trace (b : obox) (orig pred : pt) : list Z :=
  let t := (ob_center b, ob_center b) in
  let orig0 := psub orig t in
  let pred0 := psub pred t in
  let ind := is_in_diamond b (fst pred0) (snd pred0) in
  let orig1 := if ind then orig0 else invert_diamond b orig0 in
  let pred1 := if ind then pred0 else invert_diamond b pred0 in
  let bl := is_in_bottom_left pred1 in
  let k := rotation_count pred1 in
  let orig2 := if bl then orig1 else rotate_point orig1 k in
  let pred2 := if bl then pred1 else rotate_point pred1 k in
  let corr := psub orig2 pred2 in
  [fst orig0; snd orig0; fst pred0; snd pred0;
   - fst orig1; - snd orig1; - fst pred1; - snd pred1;      (* operands of RotatePoint's unary minus *)
   fst orig2; snd orig2; fst pred2; snd pred2;
   fst corr; snd corr;
   make_positive b (fst corr); make_positive b (snd corr)].

(** ---- PredictionSchemeNormalOctahedronCanonicalizedDecodingTransform::ComputeOriginalValue ---- *)
Definition oct_canon_dec (b : obox) (pred corr : pt) : pt :=
  let t := (ob_center b, ob_center b) in
  let pred := psub pred t in
  let ind := is_in_diamond b (fst pred) (snd pred) in
  let pred := if ind then pred else invert_diamond b pred in
  let bl := is_in_bottom_left pred in
  let k := rotation_count pred in
  let pred := if bl then pred else rotate_point pred k in
  let orig := (mod_max b (add_as_unsigned (fst pred) (fst corr)),
               mod_max b (add_as_unsigned (snd pred) (snd corr))) in
  let orig := if bl then orig else rotate_point orig (Z.rem (4 - k) 4) in
  let orig := if ind then orig else invert_diamond b orig in
  padd orig t.

Definition oct_canon_dec_trace (b : obox) (pred corr : pt) : list Z :=
  let t := (ob_center b, ob_center b) in
  let pred0 := psub pred t in
  let ind := is_in_diamond b (fst pred0) (snd pred0) in
  let pred1 := if ind then pred0 else invert_diamond b pred0 in
  let bl := is_in_bottom_left pred1 in
  let k := rotation_count pred1 in
  let pred2 := if bl then pred1 else rotate_point pred1 k in
  let orig0 := (mod_max b (add_as_unsigned (fst pred2) (fst corr)),
                mod_max b (add_as_unsigned (snd pred2) (snd corr))) in
  let orig1 := if bl then orig0 else rotate_point orig0 (Z.rem (4 - k) 4) in
  let orig2 := if ind then orig1 else invert_diamond b orig1 in
  [fst pred0; snd pred0; - fst pred1; - snd pred1; fst pred2; snd pred2;
   fst orig0; snd orig0; - fst orig0; - snd orig0; fst orig1; snd orig1;
   fst (padd orig2 t); snd (padd orig2 t)].

(** ---- PredictionSchemeNormalOctahedronEncodingTransform::ComputeCorrection (no rotation) ---- *)
Definition oct_enc (b : obox) (orig pred : pt) : pt :=
  let t := (ob_center b, ob_center b) in
  let orig := psub orig t in
  let pred := psub pred t in
  let ind := is_in_diamond b (fst pred) (snd pred) in
  let orig := if ind then orig else invert_diamond b orig in
  let pred := if ind then pred else invert_diamond b pred in
  let corr := psub orig pred in
  (make_positive b (fst corr), make_positive b (snd corr)).

(** ---- PredictionSchemeNormalOctahedronDecodingTransform::ComputeOriginalValue ----
    pred - t, pred + corr and orig + t are all done in uint32_t (Point2u) and converted back. *)
Definition oct_dec (b : obox) (pred corr : pt) : pt :=
  let c := ob_center b in
  let pred := (to_i32 (u32 (u32 (fst pred) - u32 c)), to_i32 (u32 (u32 (snd pred) - u32 c))) in
  let ind := is_in_diamond b (fst pred) (snd pred) in
  let pred := if ind then pred else invert_diamond b pred in
  let orig := (add_as_unsigned (fst pred) (fst corr), add_as_unsigned (snd pred) (snd corr)) in
  let orig := (mod_max b (fst orig), mod_max b (snd orig)) in
  let orig := if ind then orig else invert_diamond b orig in
  (add_as_unsigned (fst orig) c, add_as_unsigned (snd orig) c).

Definition all_in_i32 (l : list Z) : bool := forallb in_i32 l.
Definition oct_canon_enc_no_ub b orig pred := all_in_i32 (oct_canon_enc_trace b orig pred).
Definition oct_canon_dec_no_ub b pred corr := all_in_i32 (oct_canon_dec_trace b pred corr).
