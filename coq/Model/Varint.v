(** Model of core/varint_encoding.h, core/varint_decoding.h and the zig-zag maps of
    core/bit_utils.h, for an integer type of [w] bits (w = 8, 16, 32, 64). *)
From Draco Require Import Base.Codec Gen.Constants.
Local Open Scope Z_scope.

(** constexpr max_depth = sizeof(T) + 1 + (sizeof(T) >> 3): the expression is regenerated from
    core/varint_decoding.h by tools/cxx2v.py (Gen/Constants.v). *)
Definition varint_max_depth (w : Z) : nat := Z.to_nat (varint_max_depth_of_sizeof (w / 8)).

(** EncodeVarint<unsigned T>: recursion on val >> 7.  The C++ recursion has no depth
    limit; [fuel] only makes the Gallina definition structural, and [None] (fuel
    exhausted) is shown unreachable for every value of the type. *)
Fixpoint enc_varint_u_fuel (fuel : nat) (v : Z) : option bytes :=
  match fuel with
  | O => None
  | S f =>
    if v >=? 128 then
      match enc_varint_u_fuel f (Z.shiftr v 7) with
      | Some r => Some (Z.lor (Z.land v 127) 128 :: r)
      | None => None
      end
    else Some [Z.land v 127]
  end.
Definition enc_varint_u (v : Z) : option bytes := enc_varint_u_fuel 11 v.

(** DecodeVarintUnsigned<T>(depth = 1): fails when depth exceeds max_depth or the
    buffer is exhausted; the accumulated value is truncated to the type on `<<= 7`. *)
Fixpoint dec_varint_u_fuel (w : Z) (fuel : nat) (bs : bytes) : option (Z * bytes) :=
  match fuel with
  | O => None
  | S f =>
    match bs with
    | [] => None
    | b :: r =>
      if Z.land b 128 =? 0 then Some (b, r)
      else match dec_varint_u_fuel w f r with
           | Some (v, r') => Some (Z.lor (Z.shiftl v 7 mod 2 ^ w) (Z.land b 127), r')
           | None => None
           end
    end
  end.
Definition dec_varint_u (w : Z) (bs : bytes) : option (Z * bytes) :=
  dec_varint_u_fuel w (varint_max_depth w) bs.

(** ConvertSignedIntToSymbol / ConvertSymbolToSignedInt for a w-bit type. *)
Definition to_signed (w x : Z) : Z := if x <? 2 ^ (w - 1) then x else x - 2 ^ w.
Definition zigzag_enc (w v : Z) : Z :=
  if v >=? 0 then Z.shiftl (v mod 2 ^ w) 1 mod 2 ^ w
  else Z.lor (Z.shiftl ((- (v + 1)) mod 2 ^ w) 1 mod 2 ^ w) 1.
Definition zigzag_dec (w s : Z) : Z :=
  let is_positive := Z.land s 1 =? 0 in
  let val := Z.shiftr s 1 in
  if is_positive then to_signed w val else - (to_signed w val) - 1.

Definition enc_varint_s (w v : Z) : option bytes := enc_varint_u (zigzag_enc w v).
Definition dec_varint_s (w : Z) (bs : bytes) : option (Z * bytes) :=
  match dec_varint_u w bs with
  | Some (s, r) => Some (zigzag_dec w s, r)
  | None => None
  end.

(** Byte-aligned little-endian scalars: EncoderBuffer::Encode<T> / DecoderBuffer::Decode<T>. *)
Fixpoint enc_le (n : nat) (v : Z) : bytes :=
  match n with O => [] | S k => (v mod 256) :: enc_le k (v / 256) end.
Fixpoint dec_le (n : nat) (bs : bytes) : option (Z * bytes) :=
  match n with
  | O => Some (0, bs)
  | S k => match bs with
           | [] => None
           | b :: r => match dec_le k r with
                       | Some (v, r') => Some (b + 256 * v, r')
                       | None => None
                       end
           end
  end.
