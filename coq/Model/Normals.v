(** Model of the octahedral quantisation of normal vectors, float part, BIT-EXACT
    (IEEE binary32 / binary64 via Flocq; x86-64 SSE2 scalar arithmetic: every C++ float/double
    operation is one correctly rounded operation, round-to-nearest-even; no extended precision,
    no FMA contraction on baseline x86-64):

      compression/attributes/normal_compression_utils.h   OctahedronToolBox::
            FloatVectorToQuantizedOctahedralCoords<float>, IntegerVectorToQuantizedOctahedralCoords,
            CanonicalizeIntegerVector<int32_t>, QuantizedOctahedralCoordsToUnitVector,
            OctahedralCoordsToUnitVector
      attributes/attribute_octahedron_transform.cc        AttributeOctahedronTransform::
            GeneratePortableAttribute (= TransformAttribute), InverseTransformAttribute,
            EncodeParameters, DecodeParameters
      compression/attributes/sequential_normal_attribute_{encoder,decoder}.cc  (wiring only, see the end)

    The integer part of the tool box (SetQuantizationBits, CanonicalizeOctahedralCoords, the
    prediction transforms) is Model/Octahedron.v and is reused, not re-modelled.

    Only +, -, *, /, sqrt, floor, abs, comparisons and int<->float conversions occur: no libm
    transcendental function is involved anywhere in this code.

    Results ([res] of Model/Quantize.v): [Ok v]; [Fail] = the C++ returns false; [UB] = the C++
    executes undefined behaviour (double -> int32_t conversion of a NaN / out-of-range value).

    No proofs in this file. *)
From Coq Require Import ZArith Bool List.
From Flocq Require Import Core IEEE754.BinarySingleNaN IEEE754.Binary IEEE754.Bits.
From Draco Require Import Base.Codec Base.Float32 Base.Float64 Model.Quantize Model.Octahedron.
Import ListNotations.
Local Open Scope Z_scope.

Definition vec3 := (f32 * f32 * f32)%type.
Definition ivec3 := (Z * Z * Z)%type.

(** ---- binary32 operations not in Base/Float32.v ---- *)
(** [std::abs(float)] (andps) / unary minus (xorps): act on the sign bit only, of a NaN too. *)
Definition f32_abs (x : f32) : f32 :=
  match x with
  | B754_zero _ _ _ => B754_zero 24 128 false
  | B754_infinity _ _ _ => B754_infinity 24 128 false
  | B754_nan _ _ _ pl H => B754_nan 24 128 false pl H
  | B754_finite _ _ _ m e H => B754_finite 24 128 false m e H
  end.
Definition f32_neg (x : f32) : f32 :=
  match x with
  | B754_zero _ _ s => B754_zero 24 128 (negb s)
  | B754_infinity _ _ s => B754_infinity 24 128 (negb s)
  | B754_nan _ _ s pl H => B754_nan 24 128 (negb s) pl H
  | B754_finite _ _ s m e H => B754_finite 24 128 (negb s) m e H
  end.
(** [std::sqrt(float)] (sqrtss): correctly rounded. *)
Definition f32_sqrt : f32 -> f32 := b32_sqrt mode_NE.
Definition f_two : f32 := f32_of_bits 1073741824.            (* 0x40000000 = 2.0f *)
(** the double literal 1e-6 = 0x3EB0C6F7A0B5ED8D *)
Definition d_1em6 : f64 := f64_of_bits 4517329193108106637.

(** * Encoder side: FloatVectorToQuantizedOctahedralCoords<float> *)

(** abs_sum = std::abs(double(v0)) + std::abs(double(v1)) + std::abs(double(v2))   (left to right) *)
Definition nv_abs_sum (v : vec3) : f64 :=
  let '(v0, v1, v2) := v in
  dadd (dadd (dabs (d_of_f32 v0)) (dabs (d_of_f32 v1))) (dabs (d_of_f32 v2)).

(** if (abs_sum > 1e-6) { scale = 1.0 / abs_sum; scaled[i] = vector[i] * scale; }   (float * double: in double)
    else scaled = (1.0, 0, 0).    A NaN abs_sum fails the test: fallback. *)
Definition nv_scaled (v : vec3) : f64 * f64 * f64 :=
  let '(v0, v1, v2) := v in
  let a := nv_abs_sum v in
  if d_gt a d_1em6 then
    let scale := ddiv d_one a in
    (dmul (d_of_f32 v0) scale, dmul (d_of_f32 v1) scale, dmul (d_of_f32 v2) scale)
  else (d_one, d_zero, d_zero).

(** static_cast<int32_t>(floor(x * center_value_ + 0.5))       (int32_t -> double is exact) *)
Definition nv_round (c : Z) (x : f64) : res Z :=
  match d_floorZ (dadd (dmul x (d_of_Z c)) d_half) with
  | Some k => if Float32.in_i32 k then Ok k else UB
  | None => UB
  end.

(** The integer repair:  int_vec[2] = center - |int_vec[0]| - |int_vec[1]|;
      if (int_vec[2] < 0) { if (int_vec[1] > 0) int_vec[1] += int_vec[2]; else int_vec[1] -= int_vec[2]; int_vec[2] = 0; }
      if (scaled_vector[2] < 0) int_vec[2] *= -1;
    exact Z arithmetic; [nv_repair_trace] lists the signed int32 intermediates. *)
Definition nv_repair (c i0 i1 : Z) (neg2 : bool) : ivec3 :=
  let i2 := c - Z.abs i0 - Z.abs i1 in
  let '(i1, i2) :=
    if i2 <? 0 then ((if i1 >? 0 then i1 + i2 else i1 - i2), 0) else (i1, i2) in
  (i0, i1, if neg2 then i2 * -1 else i2).
Definition nv_repair_trace (c i0 i1 : Z) : list Z :=
  let i2 := c - Z.abs i0 - Z.abs i1 in
  [Z.abs i0; Z.abs i1; c - Z.abs i0; i2; (if i1 >? 0 then i1 + i2 else i1 - i2); - i2].

(** IntegerVectorToQuantizedOctahedralCoords (precondition of the C++: abs sum = center, DCHECK only) *)
Definition int_vec_to_oct (b : obox) (v : ivec3) : pt :=
  let '(i0, i1, i2) := v in
  let c := ob_center b in
  let mx := ob_maxv b in
  let st :=
    if i0 >=? 0 then (i1 + c, i2 + c)
    else ((if i1 <? 0 then Z.abs i2 else mx - Z.abs i2),
          (if i2 <? 0 then Z.abs i1 else mx - Z.abs i1)) in
  canonicalize b st.

(** the (s,t) before canonicalisation (used by the theorems) *)
Definition int_vec_to_st (b : obox) (v : ivec3) : pt :=
  let '(i0, i1, i2) := v in
  let c := ob_center b in
  let mx := ob_maxv b in
  if i0 >=? 0 then (i1 + c, i2 + c)
  else ((if i1 <? 0 then Z.abs i2 else mx - Z.abs i2),
        (if i2 <? 0 then Z.abs i1 else mx - Z.abs i1)).

(** the int_vec the float step hands to IntegerVectorToQuantizedOctahedralCoords *)
Definition float_vector_to_int_vec (b : obox) (v : vec3) : res ivec3 :=
  let '(s0, s1, s2) := nv_scaled v in
  rdo i0 <- nv_round (ob_center b) s0;
  rdo i1 <- nv_round (ob_center b) s1;
  Ok (nv_repair (ob_center b) i0 i1 (d_lt s2 d_zero)).

Definition float_vector_to_oct (b : obox) (v : vec3) : res pt :=
  rdo iv <- float_vector_to_int_vec b v; Ok (int_vec_to_oct b iv).

(** CanonicalizeIntegerVector<int32_t> (used by the geometric-normal predictor): products and the
    division in int64_t (C++ '/' truncates: [Z.quot]), results stored back into int32_t.
    std::abs(INT_MIN) is undefined: precondition v_i > INT_MIN. *)
Definition canonicalize_int_vector (b : obox) (v : ivec3) : ivec3 :=
  let '(v0, v1, v2) := v in
  let c := ob_center b in
  let abs_sum := Z.abs v0 + Z.abs v1 + Z.abs v2 in
  if abs_sum =? 0 then (c, v1, v2)
  else
    let w0 := Float32.to_i32 (Z.quot (v0 * c) abs_sum) in
    let w1 := Float32.to_i32 (Z.quot (v1 * c) abs_sum) in
    let w2 := c - Z.abs w0 - Z.abs w1 in
    (w0, w1, if v2 >=? 0 then w2 else - w2).

(** * Decoder side: QuantizedOctahedralCoordsToUnitVector *)

(** dequantization_scale_ = 2.f / max_value_           (int32_t -> float rounds for q >= 26) *)
Definition dequant_scale (b : obox) : f32 := fdiv f_two (f32_of_Z (ob_maxv b)).

(** OctahedralCoordsToUnitVector(in_s_scaled, in_t_scaled, out) *)
Definition oct_to_unit_vector (ys zs : f32) : vec3 :=
  let x := fsub (fsub f_one (f32_abs ys)) (f32_abs zs) in
  let x_offset := f32_neg x in
  let x_offset := if f_lt x_offset f_zero then f_zero else x_offset in
  let y := fadd ys (if f_lt ys f_zero then x_offset else f32_neg x_offset) in
  let z := fadd zs (if f_lt zs f_zero then x_offset else f32_neg x_offset) in
  let norm_squared := fadd (fadd (fmul x x) (fmul y y)) (fmul z z) in
  (* norm_squared < 1e-6 : float against a double literal, compared in double *)
  if d_lt (d_of_f32 norm_squared) d_1em6 then (f_zero, f_zero, f_zero)
  else
    let d := fdiv f_one (f32_sqrt norm_squared) in
    (fmul x d, fmul y d, fmul z d).

(** QuantizedOctahedralCoordsToUnitVector(in_s, in_t, out):
      OctahedralCoordsToUnitVector(in_s * dequantization_scale_ - 1.f, in_t * dequantization_scale_ - 1.f, out)
    (int32_t * float: the integer is converted to float first — rounded above 2^24).
    Total for every int32 s, t: the C++ performs no range check on s, t here. *)
Definition quantized_oct_to_unit_vector (b : obox) (s t : Z) : vec3 :=
  let sc := dequant_scale b in
  oct_to_unit_vector (fsub (fmul (f32_of_Z s) sc) f_one) (fsub (fmul (f32_of_Z t) sc) f_one).

(** * AttributeOctahedronTransform *)

(** GeneratePortableAttribute (both loops have the same body; [rows] = the values in the order
    visited): SetQuantizationBits(quantization_bits_) must succeed (q in 2..30), then per value
    FloatVectorToQuantizedOctahedralCoords. *)
Definition oct_generate_portable (q : Z) (rows : list vec3) : res (list pt) :=
  match set_quantization_bits q with
  | None => Fail
  | Some b => rmap (float_vector_to_oct b) rows
  end.

(** InverseTransformAttribute: (target must be DT_FLOAT32 with 3 components — not modelled, the
    decoder checks it in SequentialNormalAttributeDecoder::Init);  SetQuantizationBits must succeed;
    per (s,t) of the portable attribute QuantizedOctahedralCoordsToUnitVector.  No check of s,t
    against max_quantized_value. *)
Definition oct_inverse_transform (q : Z) (pts : list pt) : res (list vec3) :=
  match set_quantization_bits q with
  | None => Fail
  | Some b => Ok (map (fun p => quantized_oct_to_unit_vector b (fst p) (snd p)) pts)
  end.

(** EncodeParameters: if (is_initialized()) buffer->Encode(static_cast<uint8_t>(quantization_bits_)) else false;
    is_initialized() = quantization_bits_ != -1. *)
Definition oct_encode_parameters (q : Z) : option (list Z) :=
  if q =? -1 then None else Some [q mod 256].
(** DecodeParameters: one byte, no validation here (InverseTransformAttribute rejects q outside 2..30). *)
Definition oct_decode_parameters (bs : list Z) : option (Z * list Z) :=
  match bs with
  | q :: rest => Some (q, rest)
  | [] => None
  end.

(** SequentialNormalAttributeEncoder::Init accepts quantization_bits >= 1 (the option, default -1);
    PrepareValues (= GeneratePortableAttribute) then rejects q < 2 and q > 30, before
    EncodeDataNeededByPortableTransform writes the byte.  The decoder (bitstream >= 2.0) reads the
    byte in DecodeDataNeededByPortableTransform and rejects q outside 2..30 in StoreValues
    (InverseTransformAttribute).  Prediction: the canonicalized octahedron transform of
    Model/Octahedron.v with max_quantized_value = (1 << q) - 1. *)
Definition seq_normal_encoder_accepts (q : Z) : bool := (2 <=? q) && (q <=? 30).

(** * Bit-pattern level API (for drivers and for other models) *)
Definition vec3_of_bits (b0 b1 b2 : Z) : vec3 := (f32_of_bits b0, f32_of_bits b1, f32_of_bits b2).
Definition obs_vec3 (v : vec3) : list Z := let '(x, y, z) := v in [obs_bits x; obs_bits y; obs_bits z].

(** (a) float32 3-vector (bit patterns) + q -> (s,t) *)
Definition normal_to_oct_bits (q b0 b1 b2 : Z) : res pt :=
  match set_quantization_bits q with
  | None => Fail
  | Some b => float_vector_to_oct b (vec3_of_bits b0 b1 b2)
  end.
(** (b) (s,t) + q -> three float32 bit patterns (a NaN — impossible for int32 s,t — would print as -1) *)
Definition oct_to_normal_bits (q s t : Z) : res (list Z) :=
  match set_quantization_bits q with
  | None => Fail
  | Some b => Ok (obs_vec3 (quantized_oct_to_unit_vector b s t))
  end.
(** decode (encode v): what the decoder reconstructs for an input normal *)
Definition requant_normal (q : Z) (v : vec3) : res vec3 :=
  match set_quantization_bits q with
  | None => Fail
  | Some b => rdo p <- float_vector_to_oct b v; Ok (quantized_oct_to_unit_vector b (fst p) (snd p))
  end.
