(** C14 — model of [MeshCleanup::Cleanup] (src/draco/mesh/mesh_cleanup.{h,cc}), read line by line:
    [RemoveDegeneratedFaces], [RemoveDuplicateFaces] (with its rotation loop), [RemoveUnusedAttributes]
    (isolated point removal, unused value compaction, the identity-mapping branch).
    Same conventions as Model/Dedup.v: in-place writes are modelled as in-place writes, out-of-range indices
    (undefined behaviour in the C++) are excluded by [wf_geo]. *)
From Coq Require Import List ZArith Bool Arith.
From Draco Require Import Model.Dedup.
Import ListNotations.

Definition face0 : face := (0, 0, 0).

(* -------------------------------------------------------------------------- RemoveDegeneratedFaces *)
(** a face is degenerate when two corners share the same POSITION value index *)
Definition degenerate (pa : attr) (f : face) : bool :=
  let '(a, b, c) := f in
  let i0 := mapped_index pa a in let i1 := mapped_index pa b in let i2 := mapped_index pa c in
  Nat.eqb i0 i1 || Nat.eqb i0 i2 || Nat.eqb i1 i2.

(** [for (FaceIndex f(0); f < mesh->num_faces(); ++f)]; [nd] = num_degenerated_faces *)
Fixpoint rdg_loop (pa : attr) (todo f nd : nat) (faces : list face) : list face * nat :=
  match todo with
  | O => (faces, nd)
  | S t =>
    let fc := nth f faces face0 in
    if degenerate pa fc then rdg_loop pa t (S f) (S nd) faces
    else if Nat.ltb 0 nd then rdg_loop pa t (S f) nd (upd (f - nd) fc faces)   (* SetFace(f - nd, face) *)
    else rdg_loop pa t (S f) nd faces
  end.

Definition remove_degenerate_faces (pa : attr) (faces : list face) : list face :=
  let '(fs, nd) := rdg_loop pa (length faces) 0 0 faces in
  if Nat.ltb 0 nd then firstn (length faces - nd) fs else fs.               (* SetNumFaces(num_faces - nd) *)

(* ---------------------------------------------------------------------------- RemoveDuplicateFaces *)
Definition face_eqb (f g : face) : bool :=
  let '(a, b, c) := f in let '(a', b', c') := g in Nat.eqb a a' && Nat.eqb b b' && Nat.eqb c c'.
(** [std::swap(face[0], face[1]); std::swap(face[1], face[2])] : shift to the left *)
Definition rot_left (f : face) : face := let '(a, b, c) := f in (b, c, a).
(** the loop condition [face[0] > face[1] || face[0] > face[2]] *)
Definition not_min_first (f : face) : bool := let '(a, b, c) := f in Nat.ltb b a || Nat.ltb c a.

(** [while (cond) rotate]; fuel with explicit exhaustion (the proofs show 3 is never exhausted) *)
Fixpoint norm_fuel (fuel : nat) (f : face) : option face :=
  match fuel with
  | O => None
  | S k => if not_min_first f then norm_fuel k (rot_left f) else Some f
  end.
Definition normalize_face (f : face) : face := match norm_fuel 3 f with Some x => x | None => f end.

(** [is_face_used] : unordered_set<Face>, only [find]/[insert] are used *)
Definition fset_mem (s : list face) (f : face) : bool := existsb (face_eqb f) s.

Fixpoint rdf_loop (todo fi nd : nat) (used : list face) (faces : list face) : list face * nat :=
  match todo with
  | O => (faces, nd)
  | S t =>
    let fc := normalize_face (nth fi faces face0) in
    if fset_mem used fc then rdf_loop t (S fi) (S nd) used faces
    else
      rdf_loop t (S fi) nd (used ++ [fc])
               (if Nat.ltb 0 nd then upd (fi - nd) fc faces else faces)     (* SetFace(fi - nd, face): the ROTATED face *)
  end.

Definition remove_duplicate_faces (faces : list face) : list face :=
  let '(fs, nd) := rdf_loop (length faces) 0 0 [] faces in
  if Nat.ltb 0 nd then firstn (length faces - nd) fs else fs.

(* -------------------------------------------------------------------------- RemoveUnusedAttributes *)
(** marking loop shared by "is_point_used" and "is_att_index_used": visits the ids in order, counts the
    first visits *)
Fixpoint mark_used (ids : list nat) (used : list bool) (cnt : nat) : list bool * nat :=
  match ids with
  | [] => (used, cnt)
  | p :: r => if nth p used false then mark_used r used cnt else mark_used r (upd p true used) (S cnt)
  end.

Definition face_ids (faces : list face) : list nat := flat_map (fun f : face => let '(a, b, c) := f in [a; b; c]) faces.

(** [point_map[i] = num_new_points++] for used points, [kInvalidPointIndex] (= None) otherwise *)
Fixpoint build_point_map (used : list bool) (n : nat) : list (option nat) * nat :=
  match used with
  | [] => ([], n)
  | true :: r => let '(m, n') := build_point_map r (S n) in (Some n :: m, n')
  | false :: r => let '(m, n') := build_point_map r n in (None :: m, n')
  end.

(** [face[p] = point_map[face[p]]]; a face never refers to an unused point (proved), the marker stands for
    kInvalidPointIndex *)
Definition pm_get (pm : list (option nat)) (p : nat) : nat :=
  match nth p pm None with Some q => q | None => invalid_index end.
Definition remap_face_pm (pm : list (option nat)) (f : face) : face :=
  let '(a, b, c) := f in (pm_get pm a, pm_get pm b, pm_get pm c).

(** value compaction: [for (i = 0; i < att->size(); ++i) if (is_att_index_used[i]) { att_index_map[i] = n;
    if (i > n) buffer.Write(pos(n), address(i)); ++n; }] — in place on [buf] *)
Fixpoint compact_values (used : list bool) (i n : nat) (buf : list value) : list value * list nat * nat :=
  match used with
  | [] => (buf, [], n)
  | true :: r =>
    let buf' := if Nat.ltb n i then upd n (nth i buf []) buf else buf in
    let '(b, aim, n') := compact_values r (S i) (S n) buf' in (b, n :: aim, n')
  | false :: r =>
    let '(b, aim, n') := compact_values r (S i) n buf in (b, 0 :: aim, n')   (* att_index_map.resize: entry stays 0, never read *)
  end.

(** the final loop over the original points, in place on the attribute's explicit map *)
Fixpoint remap_points (pm : list (option nat)) (i : nat) (aic : bool) (aim : list nat) (m : list nat) : list nat :=
  match pm with
  | [] => m
  | None :: r => remap_points r (S i) aic aim m                         (* continue *)
  | Some q :: r =>
    let e := nth i m invalid_index in                                   (* att->mapped_index(i), explicit mapping *)
    let e' := if aic then nth e aim invalid_index else e in
    remap_points r (S i) aic aim (upd q e' m)                           (* SetPointMapEntry(new_point_id, new_entry_index) *)
  end.

(** body of [for (int a = 0; a < mesh->num_attributes(); ++a)] *)
Definition cleanup_attr (norig nnew : nat) (points_changed : bool) (pm : list (option nat)) (a : attr) : attr :=
  let size := length (a_vals a) in
  let used_points := filter (fun i => match nth i pm None with Some _ => true | None => false end) (seq 0 norig) in
  let '(used, nue) := mark_used (map (mapped_index a) used_points) (repeat false size) 0 in
  let aic := Nat.ltb nue size in                                         (* att_indices_changed *)
  let '(vals, aim, nue2) :=
      if aic then let '(b, aim, n) := compact_values used 0 0 (a_vals a) in (firstn n b, aim, n)   (* att->Resize(n) *)
      else (a_vals a, [], nue) in
  if points_changed || aic then
    (* identity mapping stays only if #used entries == new #points *)
    let '(ident, m) :=
        if a_ident a then
          if negb (Nat.eqb nue2 nnew)
          then (false, seq 0 norig)       (* SetExplicitMapping(norig); SetPointMapEntry(i, i) for all i *)
          else (true, a_map a)
        else (false, a_map a) in
    if negb ident then
      mkAttr (a_ncomp a) (a_dtype a) vals false
             (resize nnew invalid_index (remap_points pm 0 aic aim m))   (* … SetExplicitMapping(mesh->num_points()) *)
    else mkAttr (a_ncomp a) (a_dtype a) vals true m
  else mkAttr (a_ncomp a) (a_dtype a) vals (a_ident a) (a_map a).

Definition remove_unused_attributes (g : geo) : geo :=
  let np := g_np g in
  let '(used, nnew) := mark_used (face_ids (g_faces g)) (repeat false np) 0 in
  if Nat.ltb nnew np then
    let '(pm, nnew') := build_point_map used 0 in
    mkGeo nnew' (map (cleanup_attr np nnew' true pm) (g_atts g)) (map (remap_face_pm pm) (g_faces g))
  else
    let pm := map Some (seq 0 np) in
    mkGeo np (map (cleanup_attr np np false pm) (g_atts g)) (g_faces g).

(* ----------------------------------------------------------------------------------------- Cleanup *)
Record cleanup_opts := mkOpts { o_degenerate : bool; o_duplicate : bool; o_unused : bool; o_manifold : bool }.

(** [pos] = index of the first POSITION attribute ([GetNamedAttribute(POSITION)]), if any.
    [None] result = error Status "Missing position attribute." *)
Definition cleanup (pos : option nat) (o : cleanup_opts) (g : geo) : option geo :=
  if negb (o_degenerate o) && negb (o_unused o) && negb (o_duplicate o) && negb (o_manifold o) then Some g
  else
    match pos with
    | None => None
    | Some pi =>
      match nth_error (g_atts g) pi with
      | None => None
      | Some pa =>
        let f1 := if o_degenerate o then remove_degenerate_faces pa (g_faces g) else g_faces g in
        let f2 := if o_duplicate o then remove_duplicate_faces f1 else f1 in
        let g2 := mkGeo (g_np g) (g_atts g) f2 in
        Some (if o_unused o then remove_unused_attributes g2 else g2)
      end
    end.
