(** Model of mesh/corner_table.{h,cc}: CornerTable::Create / Init =
    ComputeOppositeCorners ; BreakNonManifoldEdges ; ComputeVertexCorners.

    Representation.  Corner and vertex indices are [nat] (they are array positions);
    kInvalidCornerIndex / kInvalidVertexIndex (2^32-1) are [None].  The model is faithful to
    the C++ for inputs with  3*|faces| + max vertex id + 1 < 2^31  (then no index collides
    with the sentinel, `static_cast<int>(size)` does not overflow, and the new vertex ids
    `num_vertices++` stay below 2^31); outside that range the C++ itself allocates > 8 GiB or
    overflows an [int].  All array reads below are in range (|c2v| = |opp| = 3*|faces|,
    vertex ids < |vertex_corners|); this is part of the proved invariants, [nth]'s default is
    never what a theorem relies on.

    Loops: the two `for` loops over corners/faces are [fold_left] over [seq]; the swing loops
    and the do-while fix-point of BreakNonManifoldEdges take fuel [S (number of corners)] and
    return [None] on exhaustion ([ct_create_total] excludes it). *)
From Coq Require Import List Arith Bool PeanoNat.
Import ListNotations.

(** list update (an out-of-range write is UB in C++; never happens, see invariants) *)
Fixpoint upd {A} (l : list A) (i : nat) (x : A) : list A :=
  match l, i with
  | [], _ => []
  | _ :: t, O => x :: t
  | h :: t, S j => h :: upd t j x
  end.

(** CornerTable::Next:  LocalIndex(++corner) ? corner : corner - 3 *)
Definition next_c (c : nat) : nat := if (S c) mod 3 =? 0 then c - 2 else S c.
(** CornerTable::Previous:  LocalIndex(corner) ? corner - 1 : corner + 2 *)
Definition prev_c (c : nat) : nat := if c mod 3 =? 0 then c + 2 else c - 1.
(** CornerTable::Vertex / corner_to_vertex_map_[c] *)
Definition vtx (c2v : list nat) (c : nat) : nat := nth c c2v 0.
(** CornerTable::Opposite *)
Definition opp_at (opp : list (option nat)) (c : nat) : option nat := nth c opp None.
(** SwingLeft(c) = Next(Opposite(Next(c))),  SwingRight(c) = Previous(Opposite(Previous(c)));
    Next/Previous/Opposite of the invalid corner are invalid. *)
Definition swing_left (opp : list (option nat)) (c : nat) : option nat :=
  match opp_at opp (next_c c) with Some o => Some (next_c o) | None => None end.
Definition swing_right (opp : list (option nat)) (c : nat) : option nat :=
  match opp_at opp (prev_c c) with Some o => Some (prev_c o) | None => None end.

(** Init: corner_to_vertex_map_[3*fi + i] = faces[fi][i] *)
Definition c2v_of_faces (faces : list (nat * nat * nat)) : list nat :=
  flat_map (fun f => match f with (a, b, c) => [a; b; c] end) faces.

(** CornerTable::IsDegenerated(face) (also the in-line test of ComputeOppositeCorners) *)
Definition is_degenerated (c2v : list nat) (f : nat) : bool :=
  let v0 := vtx c2v (3 * f) in
  let v1 := vtx c2v (3 * f + 1) in
  let v2 := vtx c2v (3 * f + 2) in
  (v0 =? v1) || (v0 =? v2) || (v1 =? v2).

(** * ComputeOppositeCorners

    The C++ keeps, per vertex s, a region of the flat array [vertex_edges] holding the
    still unmatched half-edges (sink vertex, corner) that start at s.  A new half-edge is
    written into the first unused slot of its source vertex' region (the region's capacity
    = number of corners on that vertex is never exceeded because every corner contributes
    at most one half-edge to the vertex of its Next corner), and a matched one is removed
    by shifting the rest of the region one slot down.  So a region is exactly the list of
    unmatched half-edges of that source vertex *in insertion order*, and the search
    "scan the region of sink_v for an entry with sink == source_v that is not mirrored" is
    "first entry of the global insertion-ordered list with (src = sink_v, snk = source_v,
    tip differs)".  [pending] is that global list of (source vertex, sink vertex, corner). *)
Definition hedge := (nat * nat * nat)%type.

Fixpoint find_match (c2v : list nat) (pend : list hedge) (sink_v source_v tip_v : nat)
  : option (nat * list hedge) :=
  match pend with
  | [] => None
  | (s, t, k) :: r =>
    if (s =? sink_v) && (t =? source_v) && negb (tip_v =? vtx c2v k)   (* not mirrored *)
    then Some (k, r)
    else match find_match c2v r sink_v source_v tip_v with
         | Some (o, r') => Some (o, (s, t, k) :: r')
         | None => None
         end
  end.

Definition oc_state := (list (option nat) * list hedge * nat)%type. (* opposite_corners_, pending, num_degenerated_faces_ *)

Definition oc_corner (c2v : list nat) (st : oc_state) (c : nat) : oc_state :=
  match st with (opp, pend, nd) =>
    let tip_v := vtx c2v c in
    let source_v := vtx c2v (next_c c) in
    let sink_v := vtx c2v (prev_c c) in
    match find_match c2v pend sink_v source_v tip_v with
    | Some (o, pend') => (upd (upd opp c (Some o)) o (Some c), pend', nd)
    | None => (opp, pend ++ [(source_v, sink_v, c)], nd)
    end
  end.

Definition oc_face (c2v : list nat) (st : oc_state) (f : nat) : oc_state :=
  if is_degenerated c2v f
  then match st with (opp, pend, nd) => (opp, pend, S nd) end       (* ++num_degenerated_faces_; c += 2 *)
  else oc_corner c2v (oc_corner c2v (oc_corner c2v st (3 * f)) (3 * f + 1)) (3 * f + 2).

Definition compute_opposite (c2v : list nat) (nf : nat) : oc_state :=
  fold_left (oc_face c2v) (seq 0 nf) (repeat None (length c2v), [], 0).

(** *num_vertices = num_corners_on_vertices.size() = 1 + the largest vertex id of any corner *)
Definition num_vertices_of (c2v : list nat) : nat := fold_left (fun m v => Nat.max m (S v)) c2v 0.

(** ** The literal flat-array version (this is what [ct_create] runs).

    [vertex_edges] is one array of num_corners() slots; a slot is [None] when its sink_vert is
    kInvalidVertexIndex, else [Some (sink_vert, edge_corner)] (the stale edge_corner of an unused slot is
    never read: every write of a valid sink writes the corner too, and the shift copies both).
    Vertex v owns the region [vertex_offset[v], vertex_offset[v] + num_corners_on_vertices[v]).
    First pass: num_corners_on_vertices[v] = number of corners whose vertex is v, for v < 1 + max id
    (the C++ grows the vector on demand and increments; that is this histogram).
    [compute_opposite_flat_refines] (Proofs) shows this computes exactly [compute_opposite] above, the
    array being the rendering of [pending] into the regions; in particular no region ever overflows. *)
Definition slot := option (nat * nat).

(** num_corners_on_vertices *)
Definition corners_on_vertices (c2v : list nat) : list nat :=
  map (fun v => count_occ Nat.eq_dec c2v v) (seq 0 (num_vertices_of c2v)).

(** vertex_offset: prefix sums *)
Fixpoint offsets_from (off : nat) (cnt : list nat) : list nat :=
  match cnt with [] => [] | k :: r => off :: offsets_from (off + k) r end.

(** `for (int i = 0; i < num_corners_on_vert; ++i, ++offset)`: [k] = iterations left.  Result: opposite_c, the
    offset of the matching slot and the number of iterations the shift loop `for (j = i+1; j < n; ..)` will make *)
Fixpoint fl_search (k : nat) (c2v : list nat) (ve : list slot) (offset source_v tip_v : nat)
  : option (nat * nat * nat) :=
  match k with
  | O => None
  | S k' =>
    match nth offset ve None with
    | None => None
    | Some (other_v, ec) =>
      if (other_v =? source_v) && negb (tip_v =? vtx c2v ec) then Some (ec, offset, k')
      else fl_search k' c2v ve (S offset) source_v tip_v
    end
  end.

(** the shift loop and the final `vertex_edges[offset].sink_vert = kInvalidVertexIndex` *)
Fixpoint fl_shift (k : nat) (ve : list slot) (offset : nat) : list slot :=
  match k with
  | O => upd ve offset None
  | S k' =>
    let ve' := upd ve offset (nth (S offset) ve None) in
    match nth (S offset) ve None with
    | None => upd ve' offset None
    | Some _ => fl_shift k' ve' (S offset)
    end
  end.

(** `for (i < num_corners_on_source_vert)`: write into the first unused slot (none free: nothing is written) *)
Fixpoint fl_insert (k : nat) (ve : list slot) (offset : nat) (e : nat * nat) : list slot :=
  match k with
  | O => ve
  | S k' =>
    match nth offset ve None with
    | None => upd ve offset (Some e)
    | Some _ => fl_insert k' ve (S offset) e
    end
  end.

Definition fl_state := (list (option nat) * list slot * nat)%type.

Definition fl_corner (c2v cnt off : list nat) (st : fl_state) (c : nat) : fl_state :=
  match st with (opp, ve, nd) =>
    let tip_v := vtx c2v c in
    let source_v := vtx c2v (next_c c) in
    let sink_v := vtx c2v (prev_c c) in
    match fl_search (nth sink_v cnt 0) c2v ve (nth sink_v off 0) source_v tip_v with
    | Some (o, offset, rest) => (upd (upd opp c (Some o)) o (Some c), fl_shift rest ve offset, nd)
    | None => (opp, fl_insert (nth source_v cnt 0) ve (nth source_v off 0) (sink_v, c), nd)
    end
  end.

Definition fl_face (c2v cnt off : list nat) (st : fl_state) (f : nat) : fl_state :=
  if is_degenerated c2v f
  then match st with (opp, ve, nd) => (opp, ve, S nd) end
  else fl_corner c2v cnt off (fl_corner c2v cnt off (fl_corner c2v cnt off st (3 * f)) (3 * f + 1)) (3 * f + 2).

Definition compute_opposite_flat (c2v : list nat) (nf : nat) : fl_state :=
  let cnt := corners_on_vertices c2v in
  let off := offsets_from 0 cnt in
  fold_left (fl_face c2v cnt off) (seq 0 nf) (repeat None (length c2v), repeat None (length c2v), 0).


(** * BreakNonManifoldEdges *)

(** `while (next_c = SwingLeft(current_c), next_c != first_c && next_c != kInvalid && !visited[next_c])` *)
Fixpoint nm_leftmost (fuel : nat) (opp : list (option nat)) (visited : list bool) (c cur : nat) : option nat :=
  match fuel with
  | O => None
  | S k =>
    match swing_left opp cur with
    | None => Some cur
    | Some nx => if (nx =? c) || nth nx visited false then Some cur
                 else nm_leftmost k opp visited c nx
    end
  end.

(** the `for (auto &&attached_sink_vertex : sink_vertices)` scan: the other edge corner whose
    connectivity must be broken, if any ("closing the loop" entries are skipped) *)
Fixpoint find_nm (sinks : list (nat * nat)) (sink_v : nat) (opp_edge : option nat) : option nat :=
  match sinks with
  | [] => None
  | (sv, oc) :: r =>
    if sv =? sink_v then
      match opp_edge with
      | Some oe => if oe =? oc then find_nm r sink_v opp_edge else Some oc
      | None => Some oc
      end
    else find_nm r sink_v opp_edge
  end.

Definition clear_opt (opp : list (option nat)) (o : option nat) : list (option nat) :=
  match o with Some x => upd opp x None | None => opp end.

(** the four SetOppositeCorner(.., kInvalidCornerIndex) calls, both opposites read first *)
Definition break_edges (opp : list (option nat)) (edge_corner other_edge_corner : nat) : list (option nat) :=
  let opp_edge := opp_at opp edge_corner in
  let opp_other := opp_at opp other_edge_corner in
  upd (upd (clear_opt (clear_opt opp opp_edge) opp_other) edge_corner None) other_edge_corner None.

(** the do { ... } while (current_c != first_c && current_c != kInvalid) walk to the right.
    Result: (opposite_corners_, visited_corners, vertex_connectivity_updated) *)
Fixpoint nm_walk (fuel : nat) (c2v : list nat) (opp : list (option nat)) (visited : list bool)
         (sinks : list (nat * nat)) (first_c cur : nat) : option (list (option nat) * list bool * bool) :=
  match fuel with
  | O => None
  | S k =>
    let visited' := upd visited cur true in
    let sink_c := next_c cur in
    let sink_v := vtx c2v sink_c in
    let edge_corner := prev_c cur in
    match find_nm sinks sink_v (opp_at opp edge_corner) with
    | Some other => Some (break_edges opp edge_corner other, visited', true)
    | None =>
      let sinks' := sinks ++ [(vtx c2v (prev_c cur), sink_c)] in
      match swing_right opp cur with
      | None => Some (opp, visited', false)
      | Some nx => if nx =? first_c then Some (opp, visited', false)
                   else nm_walk k c2v opp visited' sinks' first_c nx
      end
    end
  end.

(** one iteration of `for (CornerIndex c(0); c < num_corners(); ++c)`;
    state = (opp, visited, mesh_connectivity_updated) *)
Definition nm_corner (c2v : list nat) (st : option (list (option nat) * list bool * bool)) (c : nat)
  : option (list (option nat) * list bool * bool) :=
  match st with
  | None => None
  | Some (opp, visited, updated) =>
    if nth c visited false then Some (opp, visited, updated)
    else
      let fuel := S (length opp) in
      match nm_leftmost fuel opp visited c c with
      | None => None
      | Some first_c =>
        match nm_walk fuel c2v opp visited [] first_c first_c with
        | None => None
        | Some (opp', visited', u) => Some (opp', visited', updated || u)
        end
      end
  end.

Definition nm_pass (c2v : list nat) (opp : list (option nat)) (visited : list bool)
  : option (list (option nat) * list bool * bool) :=
  fold_left (nm_corner c2v) (seq 0 (length opp)) (Some (opp, visited, false)).

(** do { ... } while (mesh_connectivity_updated); [visited_corners] is NOT reset between rounds *)
Fixpoint nm_rounds (fuel : nat) (c2v : list nat) (opp : list (option nat)) (visited : list bool)
  : option (list (option nat)) :=
  match fuel with
  | O => None
  | S k =>
    match nm_pass c2v opp visited with
    | None => None
    | Some (opp', visited', updated) =>
      if updated then nm_rounds k c2v opp' visited' else Some opp'
    end
  end.

Definition break_non_manifold_edges (c2v : list nat) (opp : list (option nat)) : option (list (option nat)) :=
  nm_rounds (S (length opp)) c2v opp (repeat false (length opp)).

(** * ComputeVertexCorners *)
Record vc_state := mk_vc {
  vs_c2v : list nat;              (* corner_to_vertex_map_ *)
  vs_vcorn : list (option nat);   (* vertex_corners_ *)
  vs_par : list nat;              (* non_manifold_vertex_parents_ *)
  vs_visv : list bool;            (* visited_vertices *)
  vs_visc : list bool             (* visited_corners *)
}.

Definition vc_mark (nm : bool) (v act : nat) (set_corner : bool) (s : vc_state) : vc_state :=
  mk_vc (if nm then upd (vs_c2v s) act v else vs_c2v s)
        (if set_corner then upd (vs_vcorn s) v (Some act) else vs_vcorn s)
        (vs_par s) (vs_visv s) (upd (vs_visc s) act true).

(** `while (act_c != kInvalid) { mark; vertex_corners_[v] = act_c; act_c = SwingLeft(act_c);
     if (act_c == c) break; }`   result flag: true = full circle, false = open boundary reached *)
Fixpoint vc_left (fuel : nat) (opp : list (option nat)) (nm : bool) (v c act : nat) (s : vc_state)
  : option (vc_state * bool) :=
  match fuel with
  | O => None
  | S k =>
    let s' := vc_mark nm v act true s in
    match swing_left opp act with
    | None => Some (s', false)
    | Some a' => if a' =? c then Some (s', true) else vc_left k opp nm v c a' s'
    end
  end.

(** `act_c = SwingRight(c); while (act_c != kInvalid) { mark; act_c = SwingRight(act_c); }` *)
Fixpoint vc_right (fuel : nat) (opp : list (option nat)) (nm : bool) (v : nat) (act : option nat) (s : vc_state)
  : option vc_state :=
  match act with
  | None => Some s
  | Some a =>
    match fuel with
    | O => None
    | S k => vc_right k opp nm v (swing_right opp a) (vc_mark nm v a false s)
    end
  end.

Definition vc_corner (opp : list (option nat)) (st : option vc_state) (c : nat) : option vc_state :=
  match st with
  | None => None
  | Some s =>
    if nth c (vs_visc s) false then Some s
    else
      let v0 := vtx (vs_c2v s) c in
      let nm := nth v0 (vs_visv s) false in
      (* a visited vertex of an unvisited corner: create a new vertex *)
      let v := if nm then length (vs_vcorn s) else v0 in
      let s1 := if nm then mk_vc (vs_c2v s) (vs_vcorn s ++ [None]) (vs_par s ++ [v0]) (vs_visv s ++ [false]) (vs_visc s)
                else s in
      let s2 := mk_vc (vs_c2v s1) (vs_vcorn s1) (vs_par s1) (upd (vs_visv s1) v true) (vs_visc s1) in
      let fuel := S (length opp) in
      match vc_left fuel opp nm v c c s2 with
      | None => None
      | Some (s3, true) => Some s3
      | Some (s3, false) => vc_right fuel opp nm v (swing_right opp c) s3
      end
  end.

Definition vc_face (opp : list (option nat)) (st : option vc_state) (f : nat) : option vc_state :=
  match st with
  | None => None
  | Some s =>
    if is_degenerated (vs_c2v s) f then Some s
    else vc_corner opp (vc_corner opp (vc_corner opp (Some s) (3 * f)) (3 * f + 1)) (3 * f + 2)
  end.

Definition compute_vertex_corners (c2v : list nat) (opp : list (option nat)) (nv nf : nat) : option vc_state :=
  fold_left (vc_face opp) (seq 0 nf)
            (Some (mk_vc c2v (repeat None nv) [] (repeat false nv) (repeat false (length c2v)))).

(** * The constructed table *)
Record ctable := mk_ct {
  ct_c2v : list nat;               (* corner_to_vertex_map_ *)
  ct_opp : list (option nat);      (* opposite_corners_ *)
  ct_vcorn : list (option nat);    (* vertex_corners_; num_vertices() = its length *)
  ct_par : list nat;               (* non_manifold_vertex_parents_ *)
  ct_norig : nat;                  (* num_original_vertices_ *)
  ct_ndeg : nat;                   (* num_degenerated_faces_ *)
  ct_niso : nat                    (* num_isolated_vertices_ *)
}.

Definition count_false (l : list bool) : nat := length (filter negb l).

(** CornerTable::Create(faces); [None] only on fuel exhaustion (excluded by [ct_create_total]);
    the C++ Init never returns false for a non-null table. *)
Definition ct_create (faces : list (nat * nat * nat)) : option ctable :=
  let c2v := c2v_of_faces faces in
  let nf := length faces in
  match compute_opposite_flat c2v nf with
  | (opp0, _, ndeg) =>
    let nv := num_vertices_of c2v in
    match break_non_manifold_edges c2v opp0 with
    | None => None
    | Some opp1 =>
      match compute_vertex_corners c2v opp1 nv nf with
      | None => None
      | Some s => Some (mk_ct (vs_c2v s) opp1 (vs_vcorn s) (vs_par s) nv ndeg (count_false (vs_visv s)))
      end
    end
  end.

(** CornerTable::VertexParent *)
Definition vertex_parent (t : ctable) (v : nat) : nat :=
  if v <? ct_norig t then v else nth (v - ct_norig t) (ct_par t) 0.

