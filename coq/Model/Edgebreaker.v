(** Model of the Edgebreaker connectivity decoder state machine:
    compression/mesh/mesh_edgebreaker_decoder_impl.cc
      MeshEdgebreakerDecoderImpl<TraversalDecoder>::DecodeConnectivity(int num_symbols)   (the symbol loop,
      the start-face phase, the invalid-vertex compaction)  = [eb_core]
      the guards of its caller DecodeConnectivity() on the declared counts                  = [eb_full]
    compression/mesh/mesh_edgebreaker_decoder_impl.h   IsTopologySplit, SetOppositeCorners
    mesh/corner_table.h   Next/Previous/Opposite/Vertex/LeftMostCorner/SwingLeft/SwingRight, MapCornerToVertex,
      SetOppositeCorner, SetLeftMostCorner, AddNewVertex, MakeVertexIsolated;  corner_table.cc Reset
    mesh/corner_table_iterators.h  VertexCornersIterator (used by the compaction)

    INPUTS of the model (everything the traversal decoder / the split-event parser can hand to the state machine):
      syms   : list Z      what traversal_decoder_.DecodeSymbol() returns, one per symbol (a uint32_t: any value);
                           num_symbols = length syms
      events : list (Z*Z*Z) topology_split_data_ in vector order: (source_symbol_id, split_symbol_id, source_edge),
                           the two ids arbitrary uint32 values, source_edge a 1-bit field
      bits   : nat -> bool  the k-th call of traversal_decoder_.DecodeStartFaceConfiguration()
      rm     : bool         remove_invalid_vertices = attribute_data_.empty()
    MergeVertices / NewActiveCornerReached are no-ops of the standard traversal decoder (the model's scope; the valence
    decoder's own arrays are not modelled).

    REPRESENTATION.  Indices are [Z]; kInvalidCornerIndex = kInvalidVertexIndex = 2^32-1 is represented by [-1].
    This is exact: Reset() accepts at most 1431655765 faces, so every valid corner index is < 2^32-1 and every vertex id
    is < 2^31 (num_vertices() is an int compared with max_num_vertices before use), i.e. no valid index collides with
    the sentinel and no index computation wraps.  The three arrays of the corner table and is_vert_hole_ are total
    functions Z -> _ together with their sizes:
        corner_to_vertex_map_, opposite_corners_ : size NC = 3 * num_faces   (Reset: all -1)
        vertex_corners_                          : size [nv]  (Reset only reserves: starts EMPTY; AddNewVertex appends)
        is_vert_hole_                            : size maxv = num_encoded_vertices + num_encoded_split_symbols
    EVERY access goes through a bounds test on the size and yields [OOB] when the C++ would index outside the vector
    (that includes index -1, i.e. vector[0xFFFFFFFF]).  [OOB] is distinct from the clean failure [Reject] (`return -1`).
    [Fuel] is the exhaustion of the fuel of the two swing loops (S-case relabelling, VertexCornersIterator); the theorems
    show neither [OOB] nor [Fuel] is reachable. *)
From Coq Require Import ZArith List Bool.
Import ListNotations.
Local Open Scope Z_scope.

Inductive res (A : Type) : Type :=
| Ok (a : A)
| Reject      (* return -1 / return false *)
| OOB         (* the C++ would index a vector out of range here *)
| Fuel.       (* loop fuel exhausted (= the C++ loop would not have ended within NC+1 iterations) *)
Arguments Ok {A} a.
Arguments Reject {A}.
Arguments OOB {A}.
Arguments Fuel {A}.

Definition bind {A B} (r : res A) (f : A -> res B) : res B :=
  match r with Ok a => f a | Reject => Reject | OOB => OOB | Fuel => Fuel end.
Notation "x <- e ;; k" := (bind e (fun x => k)) (at level 61, e at next level, right associativity).

Definition upd {A} (f : Z -> A) (i : Z) (v : A) : Z -> A := fun j => if j =? i then v else f j.
Definition in_rng (i n : Z) : bool := (0 <=? i) && (i <? n).

(** CornerTable::Next:  corner == kInvalid ? corner : (LocalIndex(++corner) ? corner : corner - 3) *)
Definition next_c (c : Z) : Z := if c =? -1 then -1 else if (c + 1) mod 3 =? 0 then c - 2 else c + 1.
(** CornerTable::Previous: corner == kInvalid ? corner : (LocalIndex(corner) ? corner - 1 : corner + 2) *)
Definition prev_c (c : Z) : Z := if c =? -1 then -1 else if c mod 3 =? 0 then c + 2 else c - 1.

Record st : Type := mkst {
  c2v : Z -> Z;              (* corner_to_vertex_map_ *)
  copp : Z -> Z;              (* opposite_corners_ *)
  vc : Z -> Z;               (* vertex_corners_ *)
  nv : Z;                    (* vertex_corners_.size() = corner_table_->num_vertices() *)
  hole : Z -> bool;          (* is_vert_hole_ *)
  stack : list Z;            (* active_corner_stack, head = back() *)
  splits : list (Z * Z);     (* topology_split_active_corners: newest assignment first *)
  events : list (Z * Z * Z); (* topology_split_data_, head = back() *)
  invalid : list Z;          (* invalid_vertices, head = last pushed *)
  nfaces : Z;                (* local num_faces *)
  inits : list (bool * Z)    (* init_face_configurations_ / init_corners_, head = last pushed *)
}.

Definition with_c2v s f := mkst f (copp s) (vc s) (nv s) (hole s) (stack s) (splits s) (events s) (invalid s) (nfaces s) (inits s).
Definition with_opp s f := mkst (c2v s) f (vc s) (nv s) (hole s) (stack s) (splits s) (events s) (invalid s) (nfaces s) (inits s).
Definition with_vc s f := mkst (c2v s) (copp s) f (nv s) (hole s) (stack s) (splits s) (events s) (invalid s) (nfaces s) (inits s).
Definition with_vc_nv s f n := mkst (c2v s) (copp s) f n (hole s) (stack s) (splits s) (events s) (invalid s) (nfaces s) (inits s).
Definition with_hole s f := mkst (c2v s) (copp s) (vc s) (nv s) f (stack s) (splits s) (events s) (invalid s) (nfaces s) (inits s).
Definition with_stack s l := mkst (c2v s) (copp s) (vc s) (nv s) (hole s) l (splits s) (events s) (invalid s) (nfaces s) (inits s).
Definition with_splits s l := mkst (c2v s) (copp s) (vc s) (nv s) (hole s) (stack s) l (events s) (invalid s) (nfaces s) (inits s).
Definition with_events s l := mkst (c2v s) (copp s) (vc s) (nv s) (hole s) (stack s) (splits s) l (invalid s) (nfaces s) (inits s).
Definition with_invalid s l := mkst (c2v s) (copp s) (vc s) (nv s) (hole s) (stack s) (splits s) (events s) l (nfaces s) (inits s).
Definition with_nfaces s n := mkst (c2v s) (copp s) (vc s) (nv s) (hole s) (stack s) (splits s) (events s) (invalid s) n (inits s).
Definition with_inits s l := mkst (c2v s) (copp s) (vc s) (nv s) (hole s) (stack s) (splits s) (events s) (invalid s) (nfaces s) l.

Section Machine.
  Variable NC : Z.     (* corner_table_->num_corners() = 3 * declared num_faces *)
  Variable maxv : Z.   (* is_vert_hole_.size() = max_num_vertices *)

  (** CornerTable::Vertex:  kInvalid -> kInvalidVertexIndex, else corner_to_vertex_map_[corner] *)
  Definition vertex (s : st) (c : Z) : res Z :=
    if c =? -1 then Ok (-1) else if in_rng c NC then Ok (c2v s c) else OOB.
  (** CornerTable::Opposite: kInvalid -> kInvalid, else opposite_corners_[corner] *)
  Definition opposite (s : st) (c : Z) : res Z :=
    if c =? -1 then Ok (-1) else if in_rng c NC then Ok (copp s c) else OOB.
  (** CornerTable::LeftMostCorner: vertex_corners_[v]  (no test for kInvalidVertexIndex) *)
  Definition lmc (s : st) (v : Z) : res Z := if in_rng v (nv s) then Ok (vc s v) else OOB.
  (** CornerTable::SwingLeft = Next(Opposite(Next(c))), SwingRight = Previous(Opposite(Previous(c))) *)
  Definition swing_left (s : st) (c : Z) : res Z := o <- opposite s (next_c c) ;; Ok (next_c o).
  Definition swing_right (s : st) (c : Z) : res Z := o <- opposite s (prev_c c) ;; Ok (prev_c o).
  (** CornerTable::SetOppositeCorner: opposite_corners_[c] = o, unchecked *)
  Definition set_opp (s : st) (c o : Z) : res st :=
    if in_rng c NC then Ok (with_opp s (upd (copp s) c o)) else OOB.
  (** MeshEdgebreakerDecoderImpl::SetOppositeCorners (the decoder's own: NO test for kInvalid, unlike CornerTable's) *)
  Definition set_opps (s : st) (c0 c1 : Z) : res st := s1 <- set_opp s c0 c1 ;; set_opp s1 c1 c0.
  (** CornerTable::MapCornerToVertex: corner_to_vertex_map_[c] = v, unchecked *)
  Definition map_cv (s : st) (c v : Z) : res st :=
    if in_rng c NC then Ok (with_c2v s (upd (c2v s) c v)) else OOB.
  (** CornerTable::SetLeftMostCorner: if (vert != kInvalidVertexIndex) vertex_corners_[vert] = corner *)
  Definition set_lmc (s : st) (v c : Z) : res st :=
    if v =? -1 then Ok s else if in_rng v (nv s) then Ok (with_vc s (upd (vc s) v c)) else OOB.
  (** CornerTable::AddNewVertex: push_back(kInvalid); returns size-1 *)
  Definition add_vertex (s : st) : Z * st := (nv s, with_vc_nv s (upd (vc s) (nv s) (-1)) (nv s + 1)).
  (** CornerTable::MakeVertexIsolated: vertex_corners_[vert] = kInvalid, unchecked *)
  Definition make_isolated (s : st) (v : Z) : res st :=
    if in_rng v (nv s) then Ok (with_vc s (upd (vc s) v (-1))) else OOB.
  (** is_vert_hole_[v] = b  /  is_vert_hole_[v] *)
  Definition set_hole (s : st) (v : Z) (b : bool) : res st :=
    if in_rng v maxv then Ok (with_hole s (upd (hole s) v b)) else OOB.
  Definition get_hole (s : st) (v : Z) : res bool := if in_rng v maxv then Ok (hole s v) else OOB.

  (** the two tests `Opposite(x) != kInvalid || Opposite(y) != kInvalid` (short-circuit, in this order) *)
  Definition all_free (s : st) (cs : list Z) : res bool :=
    (fix go (cs : list Z) : res bool :=
       match cs with
       | [] => Ok true
       | c :: r => o <- opposite s c ;; if o =? -1 then go r else Ok false
       end) cs.

  (** unordered_map::find *)
  Fixpoint find_split (k : Z) (m : list (Z * Z)) : option Z :=
    match m with [] => None | (k', c) :: r => if k' =? k then Some c else find_split k r end.

  (** ---- TOPOLOGY_C (lines 570-633) *)
  Definition step_C (s : st) (face : Z) : res st :=
    match stack s with
    | [] => Reject                                                   (* active_corner_stack.empty() *)
    | a :: rest =>
      x <- vertex s (next_c a) ;;
      l <- lmc s x ;;
      let b := next_c l in
      if a =? b then Reject else                                     (* corner_a == corner_b *)
      fr <- all_free s [a; b] ;;
      if negb fr then Reject else
      let corner := 3 * face in
      s <- set_opps s a (corner + 1) ;;
      s <- set_opps s b (corner + 2) ;;
      vap <- vertex s (prev_c a) ;;
      vbn <- vertex s (next_c b) ;;
      if (x =? vap) || (x =? vbn) then Reject else                   (* degenerate face *)
      s <- map_cv s corner x ;;
      s <- map_cv s (corner + 1) vbn ;;
      s <- map_cv s (corner + 2) vap ;;
      s <- set_lmc s vap (corner + 2) ;;
      s <- set_hole s x false ;;
      Ok (with_stack s (corner :: rest))
    end.

  (** ---- TOPOLOGY_R / TOPOLOGY_L (lines 634-693); [is_r] = (symbol == TOPOLOGY_R) *)
  Definition step_RL (is_r : bool) (s : st) (face : Z) : res st :=
    match stack s with
    | [] => Reject
    | a :: rest =>
      fr <- all_free s [a] ;;
      if negb fr then Reject else
      let corner := 3 * face in
      let '(oc, cl, cr) := if is_r then (corner + 2, corner + 1, corner) else (corner + 1, corner, corner + 2) in
      s <- set_opps s oc a ;;
      let '(nvx, s) := add_vertex s in
      if nv s >? maxv then Reject else                               (* num_vertices() > max_num_vertices *)
      s <- map_cv s oc nvx ;;
      s <- set_lmc s nvx oc ;;
      vr <- vertex s (prev_c a) ;;
      s <- map_cv s cr vr ;;
      s <- set_lmc s vr cr ;;
      vl <- vertex s (next_c a) ;;
      s <- map_cv s cl vl ;;
      Ok (with_stack s (corner :: rest))
    end.

  (** the SwingLeft relabelling loop of the S case (lines 759-768):
        while (corner_n != kInvalid) { Map(corner_n, vertex_p); corner_n = SwingLeft(corner_n);
                                       if (corner_n == first_corner) return -1; }            *)
  Fixpoint s_loop (fuel : nat) (s : st) (cn first p : Z) : res st :=
    match fuel with
    | O => Fuel
    | S f =>
      if cn =? -1 then Ok s else
      s <- map_cv s cn p ;;
      cn' <- swing_left s cn ;;
      if cn' =? first then Reject else s_loop f s cn' first p
    end.

  Definition loop_fuel : nat := S (Z.to_nat NC).

  (** ---- TOPOLOGY_S (lines 694-775) *)
  Definition step_S (rm : bool) (s : st) (face sid : Z) : res st :=
    match stack s with
    | [] => Reject
    | b :: rest0 =>
      let stack1 := match find_split sid (splits s) with Some c => c :: rest0 | None => rest0 end in
      match stack1 with
      | [] => Reject
      | a :: rest =>
        if a =? b then Reject else
        fr <- all_free s [a; b] ;;
        if negb fr then Reject else
        let corner := 3 * face in
        s <- set_opps s a (corner + 2) ;;
        s <- set_opps s b (corner + 1) ;;
        p <- vertex s (prev_c a) ;;
        s <- map_cv s corner p ;;
        q <- vertex s (next_c a) ;;
        s <- map_cv s (corner + 1) q ;;
        r <- vertex s (prev_c b) ;;
        s <- map_cv s (corner + 2) r ;;
        s <- set_lmc s r (corner + 2) ;;
        let cn := next_c b in
        n <- vertex s cn ;;
        ln <- lmc s n ;;
        s <- set_lmc s p ln ;;
        s <- s_loop loop_fuel s cn cn p ;;
        s <- make_isolated s n ;;
        let s := if rm then with_invalid s (n :: invalid s) else s in
        Ok (with_stack s (corner :: rest))
      end
    end.

  (** ---- TOPOLOGY_E (lines 776-795) *)
  Definition step_E (s : st) (face : Z) : res st :=
    let corner := 3 * face in
    let '(v0, s) := add_vertex s in
    s <- map_cv s corner v0 ;;
    let '(v1, s) := add_vertex s in
    s <- map_cv s (corner + 1) v1 ;;
    let '(v2, s) := add_vertex s in
    s <- map_cv s (corner + 2) v2 ;;
    if nv s >? maxv then Reject else
    s <- set_lmc s v0 corner ;;
    s <- set_lmc s (v0 + 1) (corner + 1) ;;
    s <- set_lmc s (v0 + 2) (corner + 2) ;;
    Ok (with_stack s (corner :: stack s)).

  Definition to_i32 (x : Z) : Z := let y := x mod 4294967296 in if y <? 2147483648 then y else y - 4294967296.

  (** the `while (IsTopologySplit(...))` loop (lines 813-845 + IsTopologySplit in the .h); structural on the event list:
      every iteration that continues pops one event.  [enc_id] = num_symbols - symbol_id - 1 >= 0. *)
  Fixpoint split_loop (evs : list (Z * Z * Z)) (s : st) (ns enc_id : Z) : res st :=
    match evs with
    | [] => Ok (with_events s [])                                    (* topology_split_data_.size() == 0 *)
    | (src, spl, edge) :: r =>
      if src mod 4294967296 >? enc_id then Reject                    (* out id = -1  ->  `< 0` -> return -1 *)
      else if negb (src mod 4294967296 =? enc_id) then Ok (with_events s evs)
      else
        let esid := to_i32 spl in                                    (* uint32 -> int *)
        if esid <? 0 then Reject else
        match stack s with
        | [] => OOB                                                  (* active_corner_stack.back() on an empty vector *)
        | top :: _ =>
          let nc := if edge mod 2 =? 1 then next_c top else prev_c top in   (* RIGHT_FACE_EDGE = 1 *)
          split_loop r (with_splits s ((ns - esid - 1, nc) :: splits s)) ns enc_id
        end
    end.

  Definition TOPOLOGY_C := 0. Definition TOPOLOGY_S := 1. Definition TOPOLOGY_L := 3.
  Definition TOPOLOGY_R := 5. Definition TOPOLOGY_E := 7.

  (** one iteration of the symbol loop *)
  Definition step (rm : bool) (ns : Z) (s : st) (sid sym : Z) : res st :=
    let face := nfaces s in
    let s := with_nfaces s (face + 1) in
    if sym =? TOPOLOGY_C then step_C s face
    else if (sym =? TOPOLOGY_R) || (sym =? TOPOLOGY_L) then
      s <- step_RL (sym =? TOPOLOGY_R) s face ;; split_loop (events s) s ns (ns - sid - 1)
    else if sym =? TOPOLOGY_S then step_S rm s face sid
    else if sym =? TOPOLOGY_E then
      s <- step_E s face ;; split_loop (events s) s ns (ns - sid - 1)
    else Reject.                                                     (* unknown symbol *)

  Fixpoint sym_loop (rm : bool) (ns : Z) (syms : list Z) (sid : Z) (s : st) : res st :=
    match syms with
    | [] => Ok s
    | sym :: r => s <- step rm ns s sid sym ;; sym_loop rm ns r (sid + 1) s
    end.

  (** one interior start face (lines 879-932) attached to the popped corner [a] *)
  Definition start_face (nf : Z) (s : st) (a : Z) : res st :=
    if nfaces s >=? nf then Reject else
    vn <- vertex s (next_c a) ;;
    ln <- lmc s vn ;;
    let b := next_c ln in
    vx <- vertex s (next_c b) ;;
    lx <- lmc s vx ;;
    let c := next_c lx in
    if (a =? b) || (a =? c) || (b =? c) then Reject else
    fr <- all_free s [a; b; c] ;;
    if negb fr then Reject else
    vp <- vertex s (next_c c) ;;
    vw <- vertex s (prev_c a) ;;
    if negb (vw =? vp) then Reject else                              (* Vertex(Previous(corner_a)) != vert_p: the three edges do not form a triangle *)
    let face := nfaces s in
    let s := with_nfaces s (face + 1) in
    let ncn := 3 * face in
    s <- set_opps s ncn a ;;
    s <- set_opps s (ncn + 1) b ;;
    s <- set_opps s (ncn + 2) c ;;
    s <- map_cv s ncn vx ;;
    s <- map_cv s (ncn + 1) vp ;;
    s <- map_cv s (ncn + 2) vn ;;
    v0 <- vertex s ncn ;; s <- set_hole s v0 false ;;
    v1 <- vertex s (ncn + 1) ;; s <- set_hole s v1 false ;;
    v2 <- vertex s (ncn + 2) ;; s <- set_hole s v2 false ;;
    Ok (with_inits s ((true, ncn) :: inits s)).

  (** `while (!active_corner_stack.empty())` (lines 852-935): structural on the stack (nothing is pushed) *)
  Fixpoint start_loop (nf : Z) (bits : nat -> bool) (k : nat) (stk : list Z) (s : st) : res st :=
    match stk with
    | [] => Ok (with_stack s [])
    | a :: r =>
      if bits k then s <- start_face nf s a ;; start_loop nf bits (S k) r s
      else start_loop nf bits (S k) r (with_inits s ((false, a) :: inits s))
    end.

  (** `while (LeftMostCorner(src_vert) == kInvalid) src_vert = --num_vertices - 1` (lines 945-949).
      [k] = num_vertices; structural: src_vert = k-1, and k = 0 means vertex_corners_[-1]. *)
  Fixpoint find_src (k : nat) (s : st) : res nat :=
    match k with
    | O => OOB
    | S k' => l <- lmc s (Z.of_nat k') ;; if l =? -1 then find_src k' s else Ok k
    end.

  (** VertexCornersIterator over [src] with the loop body of lines 956-964 *)
  Fixpoint vcit_loop (fuel : nat) (s : st) (corner start : Z) (left : bool) (src iv : Z) : res st :=
    match fuel with
    | O => Fuel
    | S f =>
      if corner =? -1 then Ok s else                                 (* vcit.End() *)
      v <- vertex s corner ;;
      if negb (v =? src) then Reject else
      s <- map_cv s corner iv ;;
      (* VertexCornersIterator::Next *)
      if left then
        c1 <- swing_left s corner ;;
        if c1 =? -1 then c2 <- swing_right s start ;; vcit_loop f s c2 start false src iv
        else if c1 =? start then vcit_loop f s (-1) start true src iv
        else vcit_loop f s c1 start true src iv
      else
        c1 <- swing_right s corner ;; vcit_loop f s c1 start false src iv
    end.

  (** fuel of one VertexCornersIterator walk: NC+1 loop-head tests for the left traversal and NC+1 for the right one *)
  Definition vcit_fuel : nat := (loop_fuel + loop_fuel)%nat.

  (** the compaction `for (invalid_vert : invalid_vertices)` (lines 943-975); [k] = num_vertices *)
  Fixpoint compact (ivs : list Z) (k : nat) (s : st) : res (nat * st) :=
    match ivs with
    | [] => Ok (k, s)
    | iv :: r =>
      k <- find_src k s ;;
      let src := Z.of_nat k - 1 in
      if src <? iv then compact r k s else
      start <- lmc s src ;;
      s <- vcit_loop vcit_fuel s start start true src iv ;;
      l <- lmc s src ;;
      s <- set_lmc s iv l ;;
      s <- make_isolated s src ;;
      h <- get_hole s src ;;
      s <- set_hole s iv h ;;
      s <- set_hole s src false ;;
      compact r (Nat.pred k) s
    end.

  Definition init_st (events : list (Z * Z * Z)) : st :=
    mkst (fun _ => -1) (fun _ => -1) (fun _ => -1) 0 (fun _ => true) [] [] (rev events) [] 0 [].

  (** DecodeConnectivity(int num_symbols) with num_symbols = length syms and corner_table_->num_faces() = nf.
      Result: (returned num_vertices, final state). *)
  Definition eb_core (nf : Z) (rm : bool) (syms : list Z) (events : list (Z * Z * Z)) (bits : nat -> bool)
    : res (Z * st) :=
    let ns := Z.of_nat (length syms) in
    s <- sym_loop rm ns syms 0 (init_st events) ;;
    if nv s >? maxv then Reject else                                 (* line 848 *)
    s <- start_loop nf bits O (stack s) s ;;
    if negb (nfaces s =? nf) then Reject else                        (* line 936 *)
    r <- compact (rev (invalid s)) (Z.to_nat (nv s)) s ;;
    Ok (Z.of_nat (fst r), snd r).
End Machine.

(** The guards of the caller DecodeConnectivity() (lines 299-400, 999, bitstream >= 2.2) on the declared counts, then the
    state machine.  nev = num_encoded_vertices, nf = num_faces, nsplit = num_encoded_split_symbols (all uint32 values);
    num_encoded_symbols = length syms (the harness writes exactly that count into the stream). *)
Definition eb_full (nev nf nsplit : Z) (rm : bool) (syms : list Z) (events : list (Z * Z * Z)) (bits : nat -> bool)
  : res (Z * st) :=
  let ns := Z.of_nat (length syms) in
  if nf >? 1431655765 then Reject else                               (* > numeric_limits<uint32>::max() / 3 *)
  if nev >? nf * 3 then Reject else
  let nev64 := (to_i32 nev) mod 18446744073709551616 in             (* static_cast<uint64_t>(int) *)
  let max_edges := ((nev64 * (nev64 - 1)) mod 18446744073709551616) / 2 in
  if max_edges <? (3 * nf) / 2 then Reject else
  if nf <? ns then Reject else                                       (* num_faces < num_encoded_symbols *)
  if nf >? ns + ns / 3 then Reject else
  if nsplit >? ns then Reject else
  let mv := (nev + nsplit) mod 4294967296 in
  if to_i32 mv <? 0 then Reject else                                 (* CornerTable::Reset(num_faces, int num_vertices) *)
  if Z.of_nat (length events) >? nf then Reject else                 (* num_topology_splits > num_faces *)
  eb_core (3 * nf) mv nf rm syms events bits.

(** MeshEdgebreakerDecoderImpl::AssignPointsToCorners, the path `attribute_data_.empty()` (lines 1175-1189): point ids are the
    vertex ids of the corner table, face f = (Vertex(3f), Vertex(3f+1), Vertex(3f+2)) via mesh->SetFace, and
    set_num_points(num_connectivity_verts).  Result: (num_points, the face index list, three entries per face). *)
Definition assign_points_fast (NC : Z) (r : Z * st) : Z * list Z :=
  (fst r, (fix tab (start : Z) (n : nat) : list Z :=
             match n with O => [] | S m => c2v (snd r) start :: tab (start + 1) m end) 0 (Z.to_nat NC)).

(** DecodeConnectivity() for a stream without attribute connectivity data (num_attribute_data = 0): header guards, state
    machine, AssignPointsToCorners. *)
Definition eb_decode_mesh (nev nf nsplit : Z) (syms : list Z) (events : list (Z * Z * Z)) (bits : nat -> bool)
  : res (Z * list Z) :=
  r <- eb_full nev nf nsplit true syms events bits ;; Ok (assign_points_fast (3 * nf) r).

(** helpers for the driver / examples *)
Definition bits_of_list (l : list bool) : nat -> bool := fun k => nth k l false.
Fixpoint tabulate {A} (f : Z -> A) (start : Z) (n : nat) : list A :=
  match n with O => [] | S m => f start :: tabulate f (start + 1) m end.
Definition faces_of (NC : Z) (s : st) : list Z := tabulate (c2v s) 0 (Z.to_nat NC).

(** MeshEdgebreakerDecoderImpl::AssignPointsToCorners, the deduplication path (attribute_data_ not empty, lines 1191-1286).
    The attribute corner tables are INPUTS: one pair per attribute, (IsCornerOnSeam : corner -> bool, Vertex : corner -> Z),
    arbitrary functions (whatever the seam bits made MeshAttributeCornerTable compute).  corner_to_point_map is a vector of
    NC zeros, point_to_corner_map.size() is [np].  Result: (num_points, the face index list). *)
Section AssignSeam.
  Variable NC : Z.
  Variable maxv : Z.
  Definition att := ((Z -> bool) * (Z -> Z))%type.

  (** `while (act_c != c) { if (act_c == kInvalid) return false; if (Vertex_i(act_c) != vert_id) {first = act_c; break;} act_c = SwingRight(act_c); }` *)
  Fixpoint seam_walk (fuel : nat) (s : st) (av : Z -> Z) (vert_id c act : Z) : res (option Z) :=
    match fuel with
    | O => Fuel
    | S f =>
      if act =? c then Ok None else
      if act =? -1 then Reject else
      if negb (av act =? vert_id) then Ok (Some act) else
      a' <- swing_right NC s act ;; seam_walk f s av vert_id c a'
    end.

  (** the `for (i < attribute_data_.size())` search of deduplication_first_corner for an interior vertex *)
  Fixpoint find_first (atts : list att) (s : st) (c : Z) : res Z :=
    match atts with
    | [] => Ok c
    | (seam, av) :: r =>
      if negb (seam c) then find_first r s c else
      a0 <- swing_right NC s c ;;
      o <- seam_walk (loop_fuel NC) s av (av c) c a0 ;;
      match o with Some a => Ok a | None => find_first r s c end
    end.

  Definition att_seam (atts : list att) (c prev : Z) : bool :=
    existsb (fun sa : att => negb (snd sa c =? snd sa prev)) atts.

  Definition cpm_write (st : (Z -> Z) * Z) (c v : Z) : res ((Z -> Z) * Z) :=
    if in_rng c NC then Ok (upd (fst st) c v, snd st) else OOB.
  Definition cpm_read (st : (Z -> Z) * Z) (c : Z) : res Z := if in_rng c NC then Ok (fst st c) else OOB.

  (** the clockwise deduplication pass `while (c != kInvalid && c != deduplication_first_corner)` *)
  Fixpoint dedup_walk (fuel : nat) (s : st) (atts : list att) (st : (Z -> Z) * Z) (first prev c : Z) : res ((Z -> Z) * Z) :=
    match fuel with
    | O => Fuel
    | S f =>
      if (c =? -1) || (c =? first) then Ok st else
      st1 <- (if att_seam atts c prev
              then st' <- cpm_write st c (snd st) ;; Ok (fst st', snd st' + 1)
              else v <- cpm_read st prev ;; cpm_write st c v) ;;
      c' <- swing_right NC s c ;;
      dedup_walk f s atts st1 first c c'
    end.

  (** `for (int v = 0; v < corner_table_->num_vertices(); ++v)` *)
  Fixpoint vert_loop (n : nat) (v : Z) (s : st) (atts : list att) (st : (Z -> Z) * Z) : res ((Z -> Z) * Z) :=
    match n with
    | O => Ok st
    | S m =>
      c <- lmc s v ;;
      if c =? -1 then vert_loop m (v + 1) s atts st else
      h <- get_hole maxv s v ;;
      first <- (if h then Ok c else find_first atts s c) ;;
      st0 <- cpm_write st first (snd st) ;;
      let st1 := (fst st0, snd st0 + 1) in
      c1 <- swing_right NC s first ;;
      st2 <- dedup_walk (loop_fuel NC) s atts st1 first first c1 ;;
      vert_loop m (v + 1) s atts st2
    end.

  Definition assign_points_seam (s : st) (atts : list att) : res (Z * list Z) :=
    st <- vert_loop (Z.to_nat (nv s)) 0 s atts (fun _ => 0, 0) ;;
    Ok (snd st, tabulate (fst st) 0 (Z.to_nat NC)).
End AssignSeam.
