(** C15 — OBJ: ObjEncoder / ObjDecoder as a stream of lines; integers and structure exact, decimal number
    TEXT an oracle.

    Sources (read line by line, /repo as it is now):
      src/draco/io/obj_encoder.cc   EncodeInternal / EncodePositions / EncodeTextureCoordinates / EncodeNormals /
                                    EncodeFaces / EncodeFaceCorner / EncodeFloatList / EncodeInt
      src/draco/io/obj_decoder.cc   DecodeInternal (two passes) / ParseDefinition / ParseVertexPosition /
                                    ParseNormal / ParseTexCoord / ParseFace / ParseVertexIndices /
                                    MapPointToVertexIndices / Triangulate
      src/draco/io/parser_utils.cc  ParseSignedInt (Model/IoText.v)
    The final DeduplicateAttributeValues / DeduplicatePointIds are Model/Dedup.v (property C14).

    What is a parameter ([Section] variables, no axiom):
      [fmt]    the text snprintf("%F") produces for a float (given as its 4 little-endian bytes)
      [parse]  what parser::ParseFloat returns for a number token ([None] = it fails)
    Everything else — which records are written, in which order, the index triplets "p", "p/t", "p//n",
    "p/t/n" with their 1-based decimal integers, negative (relative) indices, polygon triangulation, the
    two-pass counting, the point -> value maps, the dedups — is modelled exactly.

    A line of the file is modelled after tokenisation: record kind + its whitespace-separated tokens; the
    corner tokens of an "f" line stay byte strings and are parsed by the model ([parse_corner] =
    ParseVertexIndices).  Not modelled (the reader answers [Unmod]; the harness generates no such file):
    materials / sub-objects / metadata, "v"/"vt"/"vn" records with too few numbers (the C++ then continues into
    the next line), a corner token ParseVertexIndices does not consume completely, indices outside the
    records defined so far (stored unchecked by the C++ and dereferenced by the deduplication), faces without
    any "v" record. *)
From Coq Require Import List ZArith Bool Arith Lia String.
From Draco Require Import Base.Codec Model.Varint Model.Dedup Model.IoText Model.PlyModel.
Import ListNotations.
Local Open Scope Z_scope.

Inductive oline :=
| OV (ts : list bytes)      (* "v " + number tokens *)
| OVT (ts : list bytes)     (* "vt" *)
| OVN (ts : list bytes)     (* "vn" *)
| OF (cs : list bytes)      (* "f" + corner tokens *)
| OSkip.                    (* comment or unknown definition: the line is skipped *)

(* ----------------------------------------------------------------------- ParseVertexIndices *)
(** [Some (p, t, n, rest)]; an index that is absent is 0; [None] = returns false *)
Definition parse_corner (bs : bytes) : option (Z * Z * Z * bytes) :=
  match parse_signed_int bs with
  | None => None
  | Some (p, r) =>
    if p =? 0 then None else
    match r with
    | [] => Some (p, 0, 0, r)
    | c0 :: r1 =>
      if negb (c0 =? 47) then Some (p, 0, 0, r) else        (* not '/' *)
      match r1 with
      | [] => None                                 (* "we should be always able to read the next char" *)
      | c :: _ =>
        let tex := if c =? 47 then Some (0, r1)
                   else match parse_signed_int r1 with
                        | Some (t, r2) => if t =? 0 then None else Some (t, r2)
                        | None => None end in
        match tex with
        | None => None
        | Some (t, r2) =>
          match r2 with
          | [] => Some (p, t, 0, r2)
          | c2 :: r3 =>
            if negb (c2 =? 47) then Some (p, t, 0, r2) else
            match parse_signed_int r3 with
            | Some (n, r4) => if n =? 0 then None else Some (p, t, n, r4)
            | None => None
            end
          end
        end
      end
    end
  end.

(** the text EncodeFaceCorner writes for value indices (0-based) p, optional t, optional n *)
Definition corner_text (p : nat) (t n : option nat) : bytes :=
  dec_str (Z.of_nat p + 1) ++
  match t, n with
  | None, None => []
  | Some t', None => [47] ++ dec_str (Z.of_nat t' + 1)
  | None, Some n' => [47; 47] ++ dec_str (Z.of_nat n' + 1)
  | Some t', Some n' => [47] ++ dec_str (Z.of_nat t' + 1) ++ [47] ++ dec_str (Z.of_nat n' + 1)
  end.

Section Obj.
Variable fmt : bytes -> bytes.
Variable parse : bytes -> option bytes.

(* ------------------------------------------------------------------------------- the writer *)
Record obj_in := mkObjIn {
  oi_np : nat;
  oi_pos : attr;
  oi_tex : option attr;
  oi_nrm : option attr;
  oi_faces : option (list face)       (* None = EncodeToBuffer(PointCloud) *)
}.

(** ConvertValue<float, k> on a FLOAT32 attribute: the first min(k, components) components, the rest 0.0f *)
Definition comps (k : nat) (v : bytes) : list bytes :=
  let c := firstn k (chunks4 v) in c ++ repeat [0; 0; 0; 0] (k - length c).
Definition num_tokens (k : nat) (v : bytes) : list bytes := List.map fmt (comps k v).

(** an attribute the writer uses: present and size() != 0 *)
Definition eff_att (o : option attr) : option attr :=
  match o with Some a => if nilb (a_vals a) then None else Some a | None => None end.

Definition all_f32 (m : obj_in) : bool :=
  (a_dtype (oi_pos m) =? DT_FLOAT32) &&
  match oi_tex m with Some a => a_dtype a =? DT_FLOAT32 | None => true end &&
  match oi_nrm m with Some a => a_dtype a =? DT_FLOAT32 | None => true end.

Definition obj_corner (m : obj_in) (p : nat) : bytes :=
  corner_text (mapped_index (oi_pos m) p)
              (option_map (fun a => mapped_index a p) (eff_att (oi_tex m)))
              (option_map (fun a => mapped_index a p) (eff_att (oi_nrm m))).

Definition obj_face_line (m : obj_in) (f : face) : oline :=
  let '(a, b, c) := f in OF [obj_corner m a; obj_corner m b; obj_corner m c].

(** ObjEncoder::EncodeToBuffer without metadata.  [None]: returns false (no position values), or an attribute
    that is not FLOAT32 (conversion of other types is not modelled). *)
Definition obj_write (m : obj_in) : option (list oline) :=
  if negb (all_f32 m) then None
  else if nilb (a_vals (oi_pos m)) then None
  else Some (
    List.map (fun v => OV (num_tokens 3 v)) (a_vals (oi_pos m)) ++
    match eff_att (oi_tex m) with Some a => List.map (fun v => OVT (num_tokens 2 v)) (a_vals a) | None => [] end ++
    match eff_att (oi_nrm m) with Some a => List.map (fun v => OVN (num_tokens 3 v)) (a_vals a) | None => [] end ++
    match oi_faces m with Some fs => List.map (obj_face_line m) fs | None => [] end).

(** the bytes of the file for a list of lines as the writer lays them out *)
Definition render_oline (l : oline) : bytes :=
  match l with
  | OV ts => [118; 32] ++ join_sp ts ++ [10]
  | OVT ts => [118; 116; 32] ++ join_sp ts ++ [10]
  | OVN ts => [118; 110; 32] ++ join_sp ts ++ [10]
  | OF cs => [102] ++ concat (List.map (fun c => 32 :: c) cs) ++ [10]
  | OSkip => [35; 10]
  end.
Definition render_obj (ls : list oline) : bytes := concat (List.map render_oline ls).

(* ------------------------------------------------------------------------------- the reader *)
(** first pass: numbers of positions, texture coordinates, normals, triangles; [None] = "Invalid number of
    indices on a face" *)
Fixpoint obj_count (ls : list oline) (np nt nn nf : nat) : option (nat * nat * nat * nat) :=
  match ls with
  | [] => Some (np, nt, nn, nf)
  | OV _ :: r => obj_count r (S np) nt nn nf
  | OVT _ :: r => obj_count r np (S nt) nn nf
  | OVN _ :: r => obj_count r np nt (S nn) nf
  | OF cs :: r =>
    let k := length cs in
    if (k <? 3)%nat || (8 <? k)%nat then None else obj_count r np nt nn (nf + (k - 2))
  | OSkip :: r => obj_count r np nt nn nf
  end.

Definition parse_nums (k : nat) (ts : list bytes) : res bytes :=
  if (length ts <? k)%nat then Unmod
  else match opt_all (List.map parse (firstn k ts)) with
       | Some vs => Ok (concat vs)
       | None => Reject                                  (* "Failed to parse a float number" *)
       end.

(** MapPointToVertexIndices for one attribute: [cur] = records of that kind seen so far, [tot] = all of them.
    [None]: the index is outside the records (the C++ stores it unchecked). *)
Definition resolve_index (i : Z) (cur tot : nat) (absent_ok : bool) : option nat :=
  let v := if 0 <? i then i - 1 else if i <? 0 then Z.of_nat cur + i else 0 in
  if (i =? 0) && negb absent_ok then None
  else if (0 <=? v) && (v <? Z.of_nat tot) then Some (Z.to_nat v) else None.

(** the loop over the (at most 8) corners of ParseFace: a corner that does not parse among the first three is an
    error; later ones end the face early in the C++ (then the two passes disagree on the number of triangles):
    not modelled *)
Fixpoint parse_corners (i : nat) (cs : list bytes) : res (list (Z * Z * Z)) :=
  match cs with
  | [] => Ok []
  | c :: r =>
    match parse_corner c with
    | Some (p, t, n, []) => dor rest <- parse_corners (S i) r; Ok ((p, t, n) :: rest)
    | Some (_, _, _, _ :: _) => Unmod
    | None => if (i <? 3)%nat then Reject else Unmod       (* "Failed to parse vertex indices" *)
    end
  end.

(** Triangulate: corners (0, t+1, t+2) of triangle t *)
Definition fan_corners {A} (d : A) (cs : list A) : list A :=
  concat (List.map (fun t => [nth 0 cs d; nth (t + 1) cs d; nth (t + 2) cs d]) (seq 0 (length cs - 2))).

Record ostate := mkOS {
  os_p : list bytes; os_t : list bytes; os_n : list bytes;      (* values, in record order *)
  os_mp : list nat; os_mt : list nat; os_mn : list nat          (* point -> value entries, in point order *)
}.

(** second pass *)
Fixpoint obj_fill (ls : list oline) (tp tx tn : nat) (st : ostate) : res ostate :=
  match ls with
  | [] => Ok st
  | OV ts :: r => dor v <- parse_nums 3 ts;
                  obj_fill r tp tx tn (mkOS (os_p st ++ [v]) (os_t st) (os_n st) (os_mp st) (os_mt st) (os_mn st))
  | OVT ts :: r => dor v <- parse_nums 2 ts;
                   obj_fill r tp tx tn (mkOS (os_p st) (os_t st ++ [v]) (os_n st) (os_mp st) (os_mt st) (os_mn st))
  | OVN ts :: r => dor v <- parse_nums 3 ts;
                   obj_fill r tp tx tn (mkOS (os_p st) (os_t st) (os_n st ++ [v]) (os_mp st) (os_mt st) (os_mn st))
  | OF cs :: r =>
    dor idx <- parse_corners 0 cs;
    let pts := fan_corners (0, 0, 0) idx in
    let rp := opt_all (List.map (fun x => resolve_index (fst (fst x)) (length (os_p st)) tp false) pts) in
    let rt := if (0 <? tx)%nat then opt_all (List.map (fun x => resolve_index (snd (fst x)) (length (os_t st)) tx true) pts) else Some [] in
    let rn := if (0 <? tn)%nat then opt_all (List.map (fun x => resolve_index (snd x) (length (os_n st)) tn true) pts) else Some [] in
    match rp, rt, rn with
    | Some mp, Some mt, Some mn =>
      obj_fill r tp tx tn (mkOS (os_p st) (os_t st) (os_n st) (os_mp st ++ mp) (os_mt st ++ mt) (os_mn st ++ mn))
    | _, _, _ => Unmod
    end
  | OSkip :: r => obj_fill r tp tx tn st
  end.

(** the geometry before the final deduplication *)
Definition obj_decode_raw (is_mesh : bool) (ls : list oline) : res geo :=
  match obj_count ls 0 0 0 0 with
  | None => Reject
  | Some (tp, tx, tn, nf) =>
    if (nf =? 0)%nat then
      (* point cloud: every record is a point, identity mapping *)
      if (tp =? 0)%nat then Reject
      else if (0 <? tx)%nat && negb (tx =? tp)%nat then Reject
      else if (0 <? tn)%nat && negb (tn =? tp)%nat then Reject
      else
        dor st <- obj_fill ls tp tx tn (mkOS [] [] [] [] [] []);
        Ok (mkGeo tp ([mkAttr 3 DT_FLOAT32 (os_p st) true []] ++
                      (if (0 <? tx)%nat then [mkAttr 2 DT_FLOAT32 (os_t st) true []] else []) ++
                      (if (0 <? tn)%nat then [mkAttr 3 DT_FLOAT32 (os_n st) true []] else [])) [])
    else if (tp =? 0)%nat then Unmod                       (* pos_att_id_ == -1 is dereferenced *)
    else
      dor st <- obj_fill ls tp tx tn (mkOS [] [] [] [] [] []);
      Ok (mkGeo (3 * nf)
                ([mkAttr 3 DT_FLOAT32 (os_p st) false (os_mp st)] ++
                 (if (0 <? tx)%nat then [mkAttr 2 DT_FLOAT32 (os_t st) false (os_mt st)] else []) ++
                 (if (0 <? tn)%nat then [mkAttr 3 DT_FLOAT32 (os_n st) false (os_mn st)] else []))
                (if is_mesh then soup_faces nf else []))
  end.

(** ObjDecoder::DecodeInternal: DeduplicateAttributeValues (its result is ignored) then DeduplicatePointIds *)
Definition obj_decode (is_mesh : bool) (ls : list oline) : res geo :=
  dor g <- obj_decode_raw is_mesh ls;
  if wf_geo g then Ok (dedup_point_ids (fst (dedup_attribute_values g))) else Unmod.

End Obj.
