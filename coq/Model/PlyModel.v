(** C15 — PLY: the binary little-endian writer (PlyEncoder) and the reader path for that dialect
    (PlyReader + PlyDecoder), at the byte level.

    Sources (read line by line, /repo as it is now):
      src/draco/io/ply_encoder.cc          PlyEncoder::EncodeInternal / GetAttributeDataType
      src/draco/io/ply_reader.{h,cc}       PlyReader::Read / ParseHeader / ParseEndHeader / ParseElement /
                                           ParseProperty / ParsePropertiesData / ParseElementData /
                                           GetDataTypeFromString; PlyProperty / PlyElement lookups
      src/draco/io/ply_property_reader.h   PlyPropertyReader<T>::ReadValue / ConvertValue
      src/draco/io/ply_decoder.cc          PlyDecoder::DecodeInternal / DecodeFaceData / DecodeVertexData /
                                           ReadPropertiesToAttribute
    Geometry records and the two deduplications are those of Model/Dedup.v (property C14).

    Results of the reader: [Ok x] = Status OK with content x; [Reject] = an error Status;
    [Oob] = the C++ reads beyond the end of the input buffer (PlyReader::ParseElementData inserts
    [data_head(), data_head()+n) and Advance(n)s without any bounds check: a truncated binary PLY is an
    out-of-bounds read — reported as a finding); [Unmod] = outside the modelled dialect (format ascii, an
    8-byte list-count type, negative element counts, list-typed vertex properties, float-typed face indices,
    face indices >= number of vertices: the C++ has further unchecked reads / undefined conversions there).
    The harness never feeds the implementation an input on which the model says [Unmod], and detects [Oob]
    on the implementation by [decoded_size() > size] on a buffer with a readable guard zone behind it. *)
From Coq Require Import List ZArith Bool Arith Lia String.
From Draco Require Import Base.Codec Model.Varint Model.Dedup Model.IoText.
Import ListNotations.
Local Open Scope Z_scope.

Inductive res (A : Type) : Type := Ok (a : A) | Reject | Oob | Unmod.
Arguments Ok {A} a. Arguments Reject {A}. Arguments Oob {A}. Arguments Unmod {A}.
Definition rbind {A B} (r : res A) (f : A -> res B) : res B :=
  match r with Ok a => f a | Reject => Reject | Oob => Oob | Unmod => Unmod end.
Notation "'dor' x <- e ; f" := (rbind e (fun x => f))
  (at level 200, x pattern, e at level 100, f at level 200, right associativity).

(* ------------------------------------------------------------------------------------ literals *)
Definition s_ply := Eval cbv in bytes_of_string "ply".
Definition s_format := Eval cbv in bytes_of_string "format".
Definition s_ble := Eval cbv in bytes_of_string "binary_little_endian".
Definition s_bbe := Eval cbv in bytes_of_string "binary_big_endian".
Definition s_ascii := Eval cbv in bytes_of_string "ascii".
Definition s_1_0 := Eval cbv in bytes_of_string "1.0".
Definition s_element := Eval cbv in bytes_of_string "element".
Definition s_property := Eval cbv in bytes_of_string "property".
Definition s_list := Eval cbv in bytes_of_string "list".
Definition s_end_header := Eval cbv in bytes_of_string "end_header".
Definition s_vertex := Eval cbv in bytes_of_string "vertex".
Definition s_face := Eval cbv in bytes_of_string "face".
Definition s_vertex_indices := Eval cbv in bytes_of_string "vertex_indices".
Definition s_vertex_index := Eval cbv in bytes_of_string "vertex_index".
Definition s_texcoord := Eval cbv in bytes_of_string "texcoord".
Definition s_x := Eval cbv in bytes_of_string "x".
Definition s_y := Eval cbv in bytes_of_string "y".
Definition s_z := Eval cbv in bytes_of_string "z".
Definition s_nx := Eval cbv in bytes_of_string "nx".
Definition s_ny := Eval cbv in bytes_of_string "ny".
Definition s_nz := Eval cbv in bytes_of_string "nz".
Definition s_red := Eval cbv in bytes_of_string "red".
Definition s_green := Eval cbv in bytes_of_string "green".
Definition s_blue := Eval cbv in bytes_of_string "blue".
Definition s_alpha := Eval cbv in bytes_of_string "alpha".
Definition s_float := Eval cbv in bytes_of_string "float".
Definition s_uchar := Eval cbv in bytes_of_string "uchar".
Definition s_int := Eval cbv in bytes_of_string "int".
Definition s_char := Eval cbv in bytes_of_string "char".
Definition s_int8 := Eval cbv in bytes_of_string "int8".
Definition s_uint8 := Eval cbv in bytes_of_string "uint8".
Definition s_short := Eval cbv in bytes_of_string "short".
Definition s_int16 := Eval cbv in bytes_of_string "int16".
Definition s_ushort := Eval cbv in bytes_of_string "ushort".
Definition s_uint16 := Eval cbv in bytes_of_string "uint16".
Definition s_int32 := Eval cbv in bytes_of_string "int32".
Definition s_uint := Eval cbv in bytes_of_string "uint".
Definition s_uint32 := Eval cbv in bytes_of_string "uint32".
Definition s_float32 := Eval cbv in bytes_of_string "float32".
Definition s_double := Eval cbv in bytes_of_string "double".
Definition s_float64 := Eval cbv in bytes_of_string "float64".

(* ---------------------------------------------------------------------------------- data types *)
Definition DT_INVALID := 0.
(** DataTypeLength (core/draco_types.cc) *)
Definition dt_len (dt : Z) : Z :=
  if (dt =? DT_INT8) || (dt =? DT_UINT8) || (dt =? DT_BOOL) then 1
  else if (dt =? DT_INT16) || (dt =? DT_UINT16) then 2
  else if (dt =? DT_INT32) || (dt =? DT_UINT32) || (dt =? DT_FLOAT32) then 4
  else if (dt =? DT_INT64) || (dt =? DT_UINT64) || (dt =? DT_FLOAT64) then 8
  else -1.
(** PlyReader::GetDataTypeFromString *)
Definition dt_of_name (w : bytes) : Z :=
  if beq w s_char || beq w s_int8 then DT_INT8
  else if beq w s_uchar || beq w s_uint8 then DT_UINT8
  else if beq w s_short || beq w s_int16 then DT_INT16
  else if beq w s_ushort || beq w s_uint16 then DT_UINT16
  else if beq w s_int || beq w s_int32 then DT_INT32
  else if beq w s_uint || beq w s_uint32 then DT_UINT32
  else if beq w s_float || beq w s_float32 then DT_FLOAT32
  else if beq w s_double || beq w s_float64 then DT_FLOAT64
  else DT_INVALID.

(* -------------------------------------------------------------------------------------- header *)
Record pprop := mkProp { pp_name : bytes; pp_dt : Z; pp_list : Z (* DT_INVALID = not a list *) }.
Record pelem := mkElem { pe_name : bytes; pe_count : Z (* int64 from strtoll *); pe_props : list pprop }.

(** [es] is the element list in REVERSE order (head = elements_.back()), properties in file order. *)
Inductive hstep := HErr | HSkip | HSet (es : list pelem).
Definition add_prop (es : list pelem) (p : pprop) : hstep :=
  match es with
  | [] => HSkip
  | e :: r => HSet (mkElem (pe_name e) (pe_count e) (pe_props e ++ [p]) :: r)
  end.
(** one header line that is not "end_header": ParseElement, else ParseProperty, else SkipLine *)
Definition header_step (es : list pelem) (ws : list bytes) : hstep :=
  match ws with
  | w0 :: w1 :: w2 :: rest =>
    if beq w0 s_element then HSet (mkElem w1 (strtoll w2) [] :: es)
    else if nilb es then HSkip                           (* no active element: properties ignored *)
    else if beq w0 s_property then
      if negb (beq w1 s_list) then
        if dt_of_name w1 =? DT_INVALID then HErr          (* "Wrong property data type" *)
        else add_prop es (mkProp w2 (dt_of_name w1) DT_INVALID)
      else match rest with
           | w3 :: w4 :: _ =>
             if dt_of_name w3 =? DT_INVALID then HErr
             else if dt_of_name w2 =? DT_INVALID then HErr (* "Wrong property list type" *)
             else add_prop es (mkProp w4 (dt_of_name w3) (dt_of_name w2))
           | _ => HSkip
           end
    else HSkip
  | _ => HSkip
  end.

(** PlyReader::ParseHeader.  Every iteration consumes at least one character (the line starts with a
    non-whitespace character because of SkipWhitespace and at least 10 characters remain), so
    [length bs + 1] iterations always suffice; fuel exhaustion is [Unmod] and unreachable with that fuel. *)
Fixpoint parse_header (fuel : nat) (es : list pelem) (bs : bytes) : res (list pelem * bytes) :=
  match fuel with
  | O => Unmod
  | S f =>
    let bs1 := skip_ws bs in
    if (Z.of_nat (length bs1) <? 10) then Reject          (* "End of file reached before the end_header" *)
    else if beq (firstn 10 bs1) s_end_header then Ok (es, snd (parse_line bs1))
    else
      let (line, rest) := parse_line bs1 in
      match header_step es (split_words line) with
      | HErr => Reject
      | HSkip => parse_header f es rest
      | HSet es' => parse_header f es' rest
      end
  end.

(** PlyReader::Read up to the data: [Ok (elements in file order, data bytes)] *)
Definition ply_read_header (bs : bytes) : res (list pelem * bytes) :=
  let (w, r1) := parse_string bs in
  if negb (beq w s_ply) then Reject else
  let r2 := snd (parse_line r1) in
  let (fl, r3) := parse_line r2 in
  match split_words fl with
  | w0 :: fmt :: ver :: _ =>
    if negb (beq w0 s_format) then Reject
    else if negb (beq ver s_1_0) then Reject
    else if beq fmt s_bbe then Reject
    else if beq fmt s_ascii then Unmod                    (* the ascii reader is not modelled *)
    else dor (es, data) <- parse_header (S (length r3)) [] r3; Ok (rev es, data)
  | _ => Reject
  end.

(* ----------------------------------------------------------------------------- element data *)
(** what one property contributes for one entry: the bytes appended to [data_], and for a list property the
    entry count pushed to [list_data_] *)
Inductive cell := CS (b : bytes) | CL (n : Z) (b : bytes).
Definition cell_bytes (c : cell) : bytes := match c with CS b => b | CL _ b => b end.
Definition cell_count (c : cell) : Z := match c with CS _ => 1 | CL n _ => n end.

Definition take_n (n : Z) (bs : bytes) : option (bytes * bytes) :=
  if (0 <=? n) && (n <=? Z.of_nat (length bs)) then Some (firstn (Z.to_nat n) bs, skipn (Z.to_nat n) bs) else None.

(** the body of the inner loop of PlyReader::ParseElementData *)
Definition read_cell (p : pprop) (bs : bytes) : res (cell * bytes) :=
  if pp_list p =? DT_INVALID then
    match take_n (dt_len (pp_dt p)) bs with Some (b, r) => Ok (CS b, r) | None => Oob end
  else
    let k := dt_len (pp_list p) in
    if k =? 8 then Unmod else
    (* buffer->Decode(&num_entries, k): result ignored; on failure num_entries stays 0, nothing consumed *)
    let '(n, r) := match dec_le (Z.to_nat k) bs with Some (v, r) => (v, r) | None => (0, bs) end in
    match take_n (dt_len (pp_dt p) * n) r with Some (b, r') => Ok (CL n b, r') | None => Oob end.

Fixpoint read_row (ps : list pprop) (bs : bytes) : res (list cell * bytes) :=
  match ps with
  | [] => Ok ([], bs)
  | p :: ps' => dor (c, r) <- read_cell p bs; dor (cs, r') <- read_row ps' r; Ok (c :: cs, r')
  end.
Fixpoint read_rows (n : nat) (ps : list pprop) (bs : bytes) : res (list (list cell) * bytes) :=
  match n with
  | O => Ok ([], bs)
  | S n' => dor (row, r) <- read_row ps bs; dor (rows, r') <- read_rows n' ps r; Ok (row :: rows, r')
  end.

(** PlyElement::num_entries(): static_cast<int>(num_entries_) *)
Definition elem_entries (e : pelem) : Z := to_i32 (pe_count e).

(** PlyReader::ParsePropertiesData (binary little endian) *)
Fixpoint read_elements (es : list pelem) (bs : bytes) : res (list (pelem * list (list cell)) * bytes) :=
  match es with
  | [] => Ok ([], bs)
  | e :: es' =>
    dor (rows, r) <- read_rows (Z.to_nat (elem_entries e)) (pe_props e) bs;
    dor (rest, r') <- read_elements es' r;
    Ok ((e, rows) :: rest, r')
  end.

(** PlyReader::Read: parsed elements (file order) and the unread rest *)
Definition ply_reader (bs : bytes) : res (list (pelem * list (list cell)) * bytes) :=
  dor (es, data) <- ply_read_header bs; read_elements es data.

(* ------------------------------------------------------------------------------------ lookups *)
(** GetElementByName / GetPropertyByName: std::map[name] = index is overwritten by a later entry of the same
    name, so the LAST one wins. *)
Fixpoint find_last {A} (f : A -> bool) (i : nat) (l : list A) (cur : option (nat * A)) : option (nat * A) :=
  match l with
  | [] => cur
  | x :: r => find_last f (S i) r (if f x then Some (i, x) else cur)
  end.
Definition find_elem (name : bytes) (es : list (pelem * list (list cell))) : option (pelem * list (list cell)) :=
  match find_last (fun e => beq (pe_name (fst e)) name) 0 es None with Some (_, e) => Some e | None => None end.
Definition find_prop (name : bytes) (ps : list pprop) : option (nat * pprop) :=
  find_last (fun p => beq (pp_name p) name) 0 ps None.

(** the cells of property [j] over all entries; [data_] of the property is their concatenation *)
Definition column (j : nat) (rows : list (list cell)) : list cell := List.map (fun row => nth j row (CS [])) rows.
Definition col_data (cs : list cell) : bytes := concat (List.map cell_bytes cs).

(** PlyProperty::GetDataEntryAddress(i) + reading [sz] bytes there; [None] = beyond [data_] *)
Definition read_at (data : bytes) (sz i : Z) : option bytes :=
  if (0 <=? i) && (0 <? sz) && (sz * (i + 1) <=? Z.of_nat (length data))
  then Some (firstn (Z.to_nat sz) (skipn (Z.to_nat (sz * i)) data)) else None.

Fixpoint le_z (b : bytes) : Z := match b with [] => 0 | x :: r => x + 256 * le_z r end.
(** PlyPropertyReader<uint32_t>::ConvertValue<SourceT>: integer sources only (a float source outside the
    uint32 range is an undefined conversion: not modelled) *)
Definition conv_u32 (dt : Z) (b : bytes) : option Z :=
  let v := le_z b in
  let w := 8 * Z.of_nat (length b) in
  if (dt =? DT_UINT8) || (dt =? DT_UINT16) || (dt =? DT_UINT32) then Some (v mod 2 ^ 32)
  else if (dt =? DT_INT8) || (dt =? DT_INT16) || (dt =? DT_INT32) then
    Some ((if v <? 2 ^ (w - 1) then v else v - 2 ^ w) mod 2 ^ 32)
  else None.

(* -------------------------------------------------------------------------- PlyDecoder: faces *)
(** offsets pushed to list_data_: data_.size() / data_type_num_bytes_ at that moment = sum of the earlier counts *)
Fixpoint list_entries (off : Z) (cs : list cell) : list (Z * Z) :=
  match cs with
  | [] => []
  | c :: r => (off, cell_count c) :: list_entries (off + cell_count c) r
  end.

Definition opt_all {A} (l : list (option A)) : option (list A) :=
  fold_right (fun o acc => match o, acc with Some x, Some r => Some (x :: r) | _, _ => None end) (Some []) l.

(** one polygon: "Triangulate polygon assuming the polygon is convex" *)
Definition fan (get : Z -> option Z) (off n : Z) : option (list (Z * Z * Z)) :=
  if n <? 3 then Some [] else
  match get off with
  | None => None
  | Some f0 =>
    opt_all (List.map (fun ti => match get (off + Z.of_nat ti + 1), get (off + Z.of_nat ti + 2) with
                            | Some a, Some b => Some (f0, a, b) | _, _ => None end)
                 (seq 0 (Z.to_nat (n - 2))))
  end.

(** PlyDecoder::DecodeFaceData (face element present).  [None] in the inner option = [Unmod]. *)
Definition decode_faces (e : pelem) (rows : list (list cell)) : res (list (Z * Z * Z)) :=
  let vi := match find_prop s_vertex_indices (pe_props e) with
            | Some p => Some p | None => find_prop s_vertex_index (pe_props e) end in
  match vi with
  | None => Reject                                         (* "No faces defined" *)
  | Some (j, p) =>
    if pp_list p =? DT_INVALID then Reject else
    let cs := column j rows in
    let data := col_data cs in
    let get := fun i => match read_at data (dt_len (pp_dt p)) i with
                        | Some b => conv_u32 (pp_dt p) b | None => None end in
    match opt_all (List.map (fun oc => fan get (fst oc) (snd oc)) (list_entries 0 cs)) with
    | Some fss => Ok (concat fss)
    | None => Unmod
    end
  end.

(* ----------------------------------------------------------------------- PlyDecoder: vertices *)
(** values [i = 0 .. n-1] of a scalar property column; [None] if some read falls outside [data_] *)
Definition prop_values (rows : list (list cell)) (jp : nat * pprop) (n : nat) : option (list bytes) :=
  let data := col_data (column (fst jp) rows) in
  opt_all (List.map (fun i => read_at data (dt_len (pp_dt (snd jp))) (Z.of_nat i)) (seq 0 n)).

(** element-wise concatenation of component columns: value i = comp_0[i] ++ comp_1[i] ++ ... *)
Definition zip_concat (n : nat) (cols : list (list bytes)) : list bytes :=
  List.map (fun i => concat (List.map (fun col => nth i col []) cols)) (seq 0 n).

Definition is_listp (jp : nat * pprop) : bool := negb (pp_list (snd jp) =? DT_INVALID).
Definition dt_of (jp : nat * pprop) : Z := pp_dt (snd jp).

Definition opt_list {A} (o : option A) : list A := match o with Some x => [x] | None => [] end.

(** PlyDecoder::DecodeVertexData: attributes in the order POSITION, NORMAL (optional), COLOR (optional), all
    with identity mapping and one value per vertex. *)
Definition decode_vertices (e : pelem) (rows : list (list cell)) : res (nat * list attr) :=
  let ps := pe_props e in
  match find_prop s_x ps, find_prop s_y ps, find_prop s_z ps with
  | Some px, Some py, Some pz =>
    if elem_entries e <? 0 then Unmod else
    let n := Z.to_nat (elem_entries e) in
    if negb ((dt_of px =? dt_of py) && (dt_of py =? dt_of pz)) then Reject
    else if negb ((dt_of px =? DT_FLOAT32) || (dt_of px =? DT_INT32)) then Reject
    else if is_listp px || is_listp py || is_listp pz then Unmod
    else
      match prop_values rows px n, prop_values rows py n, prop_values rows pz n with
      | Some cx, Some cy, Some cz =>
        let pos := mkAttr 3 (dt_of px) (zip_concat n [cx; cy; cz]) true [] in
        (* normals: all three present and FLOAT32, otherwise silently skipped *)
        let nrm : res (list attr) :=
          match find_prop s_nx ps, find_prop s_ny ps, find_prop s_nz ps with
          | Some qx, Some qy, Some qz =>
            if (dt_of qx =? DT_FLOAT32) && (dt_of qy =? DT_FLOAT32) && (dt_of qz =? DT_FLOAT32) then
              if is_listp qx || is_listp qy || is_listp qz then Unmod else
              match prop_values rows qx n, prop_values rows qy n, prop_values rows qz n with
              | Some nx, Some ny, Some nz => Ok [mkAttr 3 DT_FLOAT32 (zip_concat n [nx; ny; nz]) true []]
              | _, _, _ => Unmod
              end
            else Ok []
          | _, _, _ => Ok []
          end in
        dor nrm_atts <- nrm;
        (* colours: the present ones of red, green, blue, alpha in that order; each must be UINT8 *)
        let cps := opt_list (find_prop s_red ps) ++ opt_list (find_prop s_green ps) ++
                   opt_list (find_prop s_blue ps) ++ opt_list (find_prop s_alpha ps) in
        if nilb cps then Ok (n, pos :: nrm_atts)
        else if negb (forallb (fun jp => dt_of jp =? DT_UINT8) cps) then Reject
        else if existsb is_listp cps then Unmod
        else
          match opt_all (List.map (fun jp => prop_values rows jp n) cps) with
          | Some cols =>
            Ok (n, pos :: nrm_atts ++ [mkAttr (Z.of_nat (length cps)) DT_UINT8 (zip_concat n cols) true []])
          | None => Unmod
          end
      | _, _, _ => Unmod
      end
  | _, _, _ => Reject                                      (* "x, y, or z property is missing" *)
  end.

(* ------------------------------------------------------------------------ PlyDecoder, whole *)
Definition face_in_range (np : nat) (f : Z * Z * Z) : bool :=
  let '(a, b, c) := f in (a <? Z.of_nat np) && (b <? Z.of_nat np) && (c <? Z.of_nat np).
Definition face_to_nat (f : Z * Z * Z) : face := let '(a, b, c) := f in (Z.to_nat a, Z.to_nat b, Z.to_nat c).

(** what the decoder has built BEFORE the final deduplication: per-vertex attributes with identity mapping,
    triangulated faces in file order.  [is_mesh = false]: DecodeFromBuffer to a PointCloud, faces are not read. *)
Definition ply_decode_raw (is_mesh : bool) (bs : bytes) : res geo :=
  dor (els, _) <- ply_reader bs;
  dor faces <- (if is_mesh then match find_elem s_face els with
                                | Some (e, rows) => decode_faces e rows
                                | None => Ok [] end
                else Ok []);
  match find_elem s_vertex els with
  | None => Reject                                         (* "vertex_element is null" *)
  | Some (e, rows) =>
    (* the decoder stores face indices unchecked; with an index >= the number of vertices the final
       deduplication indexes out of bounds: not modelled (checked first so that the harness can tell
       from PlyReader's public data alone) *)
    if negb (forallb (face_in_range (Z.to_nat (elem_entries e))) faces) then Unmod else
    dor (np, atts) <- decode_vertices e rows;
    Ok (mkGeo np atts (List.map face_to_nat faces))
  end.

(** PlyDecoder::DecodeInternal: meshes with at least one face are deduplicated (C14's functions). *)
Definition ply_decode (is_mesh : bool) (bs : bytes) : res geo :=
  dor g <- ply_decode_raw is_mesh bs;
  if is_mesh && negb (nilb (g_faces g)) then
    let '(g1, ok) := dedup_attribute_values g in
    if ok then Ok (dedup_point_ids g1) else Reject
  else Ok g.

(* -------------------------------------------------------------------------------- the writer *)
(** what PlyEncoder looks at: the first POSITION / NORMAL / COLOR / TEX_COORD attribute, and the faces
    ([None] = EncodeToBuffer(PointCloud)). *)
Record ply_in := mkPlyIn {
  pi_np : nat;
  pi_pos : attr;
  pi_nrm : option attr;
  pi_col : option attr;
  pi_tex : option attr;
  pi_faces : option (list face)
}.

(** GetAttributeDataType: nullptr for any other type (streaming a null char* sets badbit: not modelled) *)
Definition type_name (dt : Z) : option bytes :=
  if dt =? DT_FLOAT32 then Some s_float else if dt =? DT_UINT8 then Some s_uchar
  else if dt =? DT_INT32 then Some s_int else None.

Definition render_lines (ls : list (list bytes)) : bytes := concat (List.map (fun ws => join_sp ws ++ [10]) ls).

Definition prop_lines (ty : bytes) (names : list bytes) : list (list bytes) :=
  List.map (fun nm => [s_property; ty; nm]) names.

(** normals are written only with 3 components, texture coordinates only with 2 *)
Definition eff_nrm (m : ply_in) : option attr :=
  match pi_nrm m with Some a => if a_ncomp a =? 3 then Some a else None | None => None end.
Definition eff_tex (m : ply_in) : option attr :=
  match pi_tex m with Some a => if a_ncomp a =? 2 then Some a else None | None => None end.

Definition color_names (nc : Z) : list bytes :=
  (if 0 <? nc then [s_red] else []) ++ (if 1 <? nc then [s_green] else []) ++
  (if 2 <? nc then [s_blue] else []) ++ (if 3 <? nc then [s_alpha] else []).

Definition ply_header_lines (m : ply_in) : option (list (list bytes)) :=
  match type_name (a_dtype (pi_pos m)) with
  | None => None
  | Some tpos =>
    let nl := match eff_nrm m with
              | Some a => match type_name (a_dtype a) with Some t => Some (prop_lines t [s_nx; s_ny; s_nz]) | None => None end
              | None => Some [] end in
    let cl := match pi_col m with
              | Some a => match type_name (a_dtype a) with Some t => Some (prop_lines t (color_names (a_ncomp a))) | None => None end
              | None => Some [] end in
    let fl := match pi_faces m with
              | None => Some []
              | Some fs =>
                let tl := match eff_tex m with
                          | Some a => match type_name (a_dtype a) with
                                      | Some t => Some [[s_property; s_list; s_uchar; t; s_texcoord]] | None => None end
                          | None => Some [] end in
                match tl with
                | Some tl' => Some ([[s_element; s_face; dec_str (Z.of_nat (length fs))];
                                     [s_property; s_list; s_uchar; s_int; s_vertex_indices]] ++ tl')
                | None => None
                end
              end in
    match nl, cl, fl with
    | Some nl', Some cl', Some fl' =>
      Some ([[s_ply]; [s_format; s_ble; s_1_0]; [s_element; s_vertex; dec_str (Z.of_nat (pi_np m))]] ++
            prop_lines tpos [s_x; s_y; s_z] ++ nl' ++ cl' ++ fl' ++ [[s_end_header]])
    | _, _, _ => None
    end
  end.

Definition opt_val (o : option attr) (p : nat) : bytes :=
  match o with Some a => att_value a p | None => [] end.

(** the record of point [p]: position, normal, colour values through mapped_index *)
Definition ply_vertex_row (m : ply_in) (p : nat) : bytes :=
  att_value (pi_pos m) p ++ opt_val (eff_nrm m) p ++ opt_val (pi_col m) p.

Definition le32 (n : nat) : bytes := enc_le 4 (Z.of_nat n).

(** one face record; [None]: a corner >= num_points ("Invalid point stored on the |in_mesh_| face": false) *)
Definition ply_face_row (m : ply_in) (f : face) : option bytes :=
  let '(a, b, c) := f in
  if face_ok (pi_np m) f then
    Some ([3] ++ le32 a ++ le32 b ++ le32 c ++
          match eff_tex m with
          | Some t => [6] ++ att_value t a ++ att_value t b ++ att_value t c
          | None => []
          end)
  else None.

Fixpoint opt_concat (l : list (option bytes)) : option bytes :=
  match l with
  | [] => Some []
  | Some b :: r => match opt_concat r with Some r' => Some (b ++ r') | None => None end
  | None :: _ => None
  end.

(** PlyEncoder::EncodeToBuffer; [None] = returns false (or a data type the header cannot name) *)
Definition ply_write (m : ply_in) : option bytes :=
  match ply_header_lines m with
  | None => None
  | Some hl =>
    let verts := concat (List.map (ply_vertex_row m) (seq 0 (pi_np m))) in
    match pi_faces m with
    | None => Some (render_lines hl ++ verts)
    | Some fs =>
      match opt_concat (List.map (ply_face_row m) fs) with
      | Some fb => Some (render_lines hl ++ verts ++ fb)
      | None => None
      end
    end
  end.
