(** Reusable objects as state machines (property C06: results do not depend on earlier calls on the same object).
    - EncoderBuffer (core/encoder_buffer.{h,cc}): Clear / Encode(bytes) / StartBitEncoding / EncodeLeastSignificantBits32 /
      EndBitEncoding.  State: the byte vector, bit_encoder_reserved_bytes_, encode_bit_sequence_size_, the bit accumulator.
    - RAnsBitEncoder / DirectBitEncoder (bit_coders): StartEncoding (= Clear) / EncodeBit / EndEncoding (ends with Clear).
    The op-level semantics reuse the block model of Model/BitBuffer.v. *)
From Draco Require Import Base.Codec Model.Varint Model.BitBuffer Model.BitCoders.
Local Open Scope Z_scope.

(** ** EncoderBuffer *)
Record ebuf := {
  eb_bytes : bytes;
  eb_reserved : Z;                 (* bit_encoder_reserved_bytes_ ; > 0 = bit mode *)
  eb_with_size : bool;             (* encode_bit_sequence_size_ *)
  eb_req : Z;                      (* required_bits of the open block *)
  eb_puts : list (Z * Z)           (* writes of the open block, in order *)
}.
Definition ebuf_new : ebuf := {| eb_bytes := []; eb_reserved := 0; eb_with_size := false; eb_req := 0; eb_puts := [] |}.

Inductive eop :=
| EClear
| EEncode (bs : bytes)
| EStartBits (req : Z) (with_size : bool)
| EPutBits (n v : Z)
| EEndBits.

(** one call; the boolean is the C++ return value (true for the void functions) *)
Definition ebuf_step (s : ebuf) (o : eop) : ebuf * bool :=
  match o with
  | EClear => ({| eb_bytes := []; eb_reserved := 0; eb_with_size := eb_with_size s; eb_req := eb_req s; eb_puts := [] |}, true)
  | EEncode bs =>
      if 0 <? eb_reserved s then (s, false)
      else ({| eb_bytes := eb_bytes s ++ bs; eb_reserved := 0; eb_with_size := eb_with_size s; eb_req := eb_req s; eb_puts := [] |}, true)
  | EStartBits req ws =>
      if (0 <? eb_reserved s) || (req <=? 0) then (s, false)
      else ({| eb_bytes := eb_bytes s; eb_reserved := (req + 7) / 8; eb_with_size := ws; eb_req := req; eb_puts := [] |}, true)
  | EPutBits n v =>
      if 0 <? eb_reserved s
      then ({| eb_bytes := eb_bytes s; eb_reserved := eb_reserved s; eb_with_size := eb_with_size s; eb_req := eb_req s;
               eb_puts := eb_puts s ++ [(n, v)] |}, true)
      else (s, false)
  | EEndBits =>
      if 0 <? eb_reserved s then
        match enc_block (eb_req s) (eb_with_size s) (eb_puts s) with
        | Some blk => ({| eb_bytes := eb_bytes s ++ blk; eb_reserved := 0; eb_with_size := eb_with_size s; eb_req := eb_req s; eb_puts := [] |}, true)
        | None => (s, false)      (* more bits written than reserved: out of bounds in the C++; excluded by callers *)
        end
      else (s, true)
  end.
Fixpoint ebuf_run (s : ebuf) (ops : list eop) : ebuf * list bool :=
  match ops with
  | [] => (s, [])
  | o :: r => let '(s1, b) := ebuf_step s o in let '(s2, bs) := ebuf_run s1 r in (s2, b :: bs)
  end.
(** what a caller can observe: data(), size(), bit_encoder_active(), and the results of its calls *)
Definition ebuf_obs (s : ebuf) : bytes * bool := (eb_bytes s, 0 <? eb_reserved s).

(** ** bit encoders: StartEncoding; EncodeBit*; EndEncoding *)
Record bitenc_obj := { bo_bits : list bool }.     (* bits_ + local_bits_ + counts: a function of the bit sequence *)
Inductive bop' := BStart | BBit (b : bool) | BEnd.
Definition bitobj_step (enc : list bool -> option bytes) (s : bitenc_obj) (o : bop') : bitenc_obj * option bytes :=
  match o with
  | BStart => ({| bo_bits := [] |}, None)
  | BBit b => ({| bo_bits := bo_bits s ++ [b] |}, None)
  | BEnd => ({| bo_bits := [] |}, enc (bo_bits s))            (* EndEncoding writes the block and calls Clear() *)
  end.
Fixpoint bitobj_run (enc : list bool -> option bytes) (s : bitenc_obj) (ops : list bop') : bitenc_obj * list (option bytes) :=
  match ops with
  | [] => (s, [])
  | o :: r => let '(s1, out) := bitobj_step enc s o in let '(s2, outs) := bitobj_run enc s1 r in (s2, out :: outs)
  end.
