(** C09 — model of the point/face counts the encoders report and of the points the
    Edgebreaker decoder creates.

    Sources modelled (read line by line, function names cited at each definition):
      compression/mesh/mesh_edgebreaker_encoder.cc      ComputeNumberOfEncodedPoints / ...Faces
      compression/mesh/mesh_edgebreaker_decoder_impl.cc AssignPointsToCorners
      mesh/mesh_attribute_corner_table.cc               RecomputeVerticesInternal
      compression/mesh/mesh_sequential_encoder.cc       ComputeNumberOfEncodedPoints / ...Faces
      compression/point_cloud/point_cloud_{sequential,kd_tree}_encoder.cc
      compression/expert_encode.cc, encode.cc           copying the counts to the API objects

    The unit of the model is the *fan* of a corner-table vertex: its corners in
    [SwingRight] order starting at [LeftMostCorner(v)].  A fan is open when
    [CornerTable::IsOnBoundary(v)] (swinging left from the left-most corner is invalid, and
    swinging right ends in kInvalidCornerIndex) and closed otherwise (swinging right comes
    back to the first corner).  Every corner carries its point id
    ([Mesh::CornerToPointId]) and, for each entry i of the Edgebreaker coder's
    [attribute_data_] (one per non-position attribute), the vertex id
    [attribute_data_[i].connectivity_data.Vertex(corner)] of the attribute corner table.
    Counts are [Z] (the C++ uses size_t / uint32_t; no subtraction below can go negative). *)
From Coq Require Import List ZArith Bool.
Import ListNotations.
Local Open Scope Z_scope.

(* ------------------------------------------------------------------------------------ *)
(** * Fans *)

Record corner := mkCorner {
  c_pid : Z;            (* mesh()->CornerToPointId(corner); read only by the historical shortcut variant *)
  c_att : list Z        (* [Vertex(corner)] in each attribute corner table, by attribute_data_ index *)
}.

Record vfan := mkFan {
  v_open   : bool;        (* corner_table->IsOnBoundary(v)  (decoder: is_vert_hole_[v]) *)
  v_first  : corner;      (* LeftMostCorner(v) *)
  v_rest   : list corner; (* SwingRight(first), SwingRight^2(first), ... up to, not including, invalid/first *)
  v_onseam : list bool    (* per attribute_data_ entry: is_vertex_on_seam_[v] (IsCornerOnSeam) *)
}.

(** The corner table seen by both sides.  [None] = isolated vertex
    ([LeftMostCorner(v) == kInvalidCornerIndex]). *)
Record cmesh := mkMesh {
  m_multi : bool;               (* mesh()->num_attributes() > 1 *)
  m_used  : list bool;          (* per attribute_data_ entry: is_connectivity_used, i.e. whether
                                   MeshEdgebreakerEncoder::GetAttributeCornerTable returns the table;
                                   its length is attribute_data_.size() on both sides *)
  m_verts : list (option vfan)  (* vertices 0 .. num_vertices()-1 *)
}.

Definition num_att (m : cmesh) : nat := length (m_used m).

(** [Vertex(c)] of attribute table i; [None] models an index outside [attribute_data_]
    (excluded by the well-formedness hypothesis of the theorems, never produced by the harness). *)
Definition att (i : nat) (c : corner) : option Z := nth_error (c_att c) i.
Definition oz_eqb (a b : option Z) : bool :=
  match a, b with
  | Some x, Some y => x =? y
  | None, None => true
  | _, _ => false
  end.
Definition att_neq (i : nat) (c1 c2 : corner) : bool := negb (oz_eqb (att i c1) (att i c2)).

Definition sumZ (l : list Z) : Z := fold_right Z.add 0 l.
Definition is_isolated (v : option vfan) : bool := match v with None => true | Some _ => false end.
Definition count_isolated (vs : list (option vfan)) : Z := Z.of_nat (length (filter is_isolated vs)).
(** apply [f] to every non-isolated vertex and add up ([continue] on isolated ones) *)
Definition sum_fans (f : vfan -> Z) (vs : list (option vfan)) : Z :=
  sumZ (map (fun v => match v with None => 0 | Some x => f x end) vs).

(* ------------------------------------------------------------------------------------ *)
(** * Encoder: MeshEdgebreakerEncoder::ComputeNumberOfEncodedPoints *)

(** [for i < attribute_corner_tables.size(): if tables[i]->Vertex(corner) != tables[i]->Vertex(last_corner)]
    — the vector holds the tables of the attribute_data_ entries whose connectivity is used. *)
Fixpoint enc_att_differs (i : nat) (used : list bool) (c last_c : corner) : bool :=
  match used with
  | [] => false
  | u :: r => if u && att_neq i c last_c then true else enc_att_differs (S i) r c last_c
  end.

(** The body of [while (corner_index != kInvalidCornerIndex)], one iteration per element of
    [cs] (the corners the loop visits, in order), with the loop's variables
    [last_corner_index] and [num_attribute_seams].  (Since fix 5df4cb2 the attribute corner
    tables are always consulted; the point ids play no role.) *)
Fixpoint enc_walk (used : list bool) (last_c : corner) (cs : list corner) (seams : Z) : Z :=
  match cs with
  | [] => seams
  | c :: r => enc_walk used c r (if enc_att_differs 0 used c last_c then seams + 1 else seams)
  end.

(** The corners the loop visits: it starts at SwingRight(first); on an open fan it stops at
    the invalid corner, on a closed fan it processes the first corner once more
    ([if (corner_index == first_corner_index) break;] comes after the comparison). *)
Definition visit (f : vfan) : list corner :=
  if v_open f then v_rest f else v_rest f ++ [v_first f].

(** Points added for one vertex on top of the one already counted in
    [num_vertices - NumIsolatedVertices]:
    [if (!IsOnBoundary(vi) && num_attribute_seams > 0) num_points += seams - 1; else num_points += seams]. *)
Definition enc_vertex (used : list bool) (f : vfan) : Z :=
  let s := enc_walk used (v_first f) (visit f) 0 in
  if negb (v_open f) && (0 <? s) then s - 1 else s.

Definition enc_count (m : cmesh) : Z :=
  let base := Z.of_nat (length (m_verts m)) - count_isolated (m_verts m) in
  if m_multi m then base + sum_fans (enc_vertex (m_used m)) (m_verts m) else base.

(** Historical variant: the code before fix 5df4cb2 (defect D5).  It kept
    [last_point_index] and counted a seam whenever [point_index != last_point_index],
    consulting the attribute corner tables only when the point id was unchanged.  Kept to
    document why the shortcut was removed: see [shortcut_variant_refuted]. *)
Fixpoint enc_walk_with_shortcut (used : list bool) (last_pid : Z) (last_c : corner) (cs : list corner) (seams : Z) : Z :=
  match cs with
  | [] => seams
  | c :: r =>
    if negb (c_pid c =? last_pid)
    then (* point index changed: seam_found, last_point_index = point_index *)
         enc_walk_with_shortcut used (c_pid c) c r (seams + 1)
    else enc_walk_with_shortcut used last_pid c r (if enc_att_differs 0 used c last_c then seams + 1 else seams)
  end.
Definition enc_vertex_with_shortcut (used : list bool) (f : vfan) : Z :=
  let s := enc_walk_with_shortcut used (c_pid (v_first f)) (v_first f) (visit f) 0 in
  if negb (v_open f) && (0 <? s) then s - 1 else s.
Definition enc_count_with_shortcut (m : cmesh) : Z :=
  let base := Z.of_nat (length (m_verts m)) - count_isolated (m_verts m) in
  if m_multi m then base + sum_fans (enc_vertex_with_shortcut (m_used m)) (m_verts m) else base.

(* ------------------------------------------------------------------------------------ *)
(** * Decoder: MeshEdgebreakerDecoderImpl::AssignPointsToCorners *)

(** [for i < attribute_data_.size(): if Vertex_i(c) != Vertex_i(prev_c)] *)
Fixpoint dec_att_differs (i : nat) (n : nat) (c prev_c : corner) : bool :=
  match n with
  | O => false
  | S k => if att_neq i c prev_c then true else dec_att_differs (S i) k c prev_c
  end.

(** [while (act_c != c)] of the search for the first seam of attribute i: walk the corners
    after the left-most one; split them at the first whose vertex differs from [vert_id]. *)
Fixpoint split_at_diff (i : nat) (vert_id : option Z) (cs : list corner)
  : option (list corner * corner * list corner) :=
  match cs with
  | [] => None
  | c :: r =>
    if negb (oz_eqb (att i c) vert_id) then Some ([], c, r)
    else match split_at_diff i vert_id r with
         | Some (b, d, a) => Some (c :: b, d, a)
         | None => None
         end
  end.

(** Interior vertex: [deduplication_first_corner] = the first corner, in SwingRight order,
    at which the first attribute that is flagged on-seam *and* really changes its vertex
    changes it; the left-most corner if there is none.  Returned as the fan rotated so
    that it starts there. *)
Fixpoint dedup_first (i : nat) (flags : list bool) (c0 : corner) (rest : list corner)
  : corner * list corner :=
  match flags with
  | [] => (c0, rest)
  | fl :: fls =>
    if fl then
      match split_at_diff i (att i c0) rest with
      | Some (b, d, a) => (d, a ++ c0 :: b)
      | None => dedup_first (S i) fls c0 rest
      end
    else dedup_first (S i) fls c0 rest
  end.

(** The deduplication pass: [point_to_corner_map.push_back] happens once for the first
    corner and once per corner whose attribute vertices differ from the previous corner's. *)
Fixpoint dec_walk (na : nat) (prev_c : corner) (cs : list corner) (npoints : Z) : Z :=
  match cs with
  | [] => npoints
  | c :: r => dec_walk na c r (if dec_att_differs 0 na c prev_c then npoints + 1 else npoints)
  end.

Definition dec_vertex (na : nat) (f : vfan) : Z :=
  let '(d, others) := if v_open f then (v_first f, v_rest f)
                      else dedup_first 0 (v_onseam f) (v_first f) (v_rest f) in
  dec_walk na d others 1.

(** [attribute_data_.empty()]: points = num_connectivity_verts (the non-isolated vertices). *)
Definition dec_points (m : cmesh) : Z :=
  match num_att m with
  | O => Z.of_nat (length (m_verts m)) - count_isolated (m_verts m)
  | na => sum_fans (dec_vertex na) (m_verts m)
  end.

(* ------------------------------------------------------------------------------------ *)
(** * Hypotheses of the agreement theorem, as predicates and as executable checks *)

Definition all_corners (f : vfan) : list corner := v_first f :: v_rest f.

(** pairs (previous corner, corner) compared by the encoder's walk *)
Fixpoint pairs (prev : corner) (cs : list corner) : list (corner * corner) :=
  match cs with
  | [] => []
  | c :: r => (prev, c) :: pairs c r
  end.
Definition adj (f : vfan) : list (corner * corner) := pairs (v_first f) (visit f).

(** attribute i has one vertex on the whole fan *)
Definition att_const (i : nat) (f : vfan) : Prop :=
  forall c, In c (v_rest f) -> att_neq i c (v_first f) = false.

(** [labels_wf]: what the theorems need to know about the attribute corner tables.
    (1) a mesh with a single attribute has no attribute_data_ entry;
    (2) every vertex has one on-seam flag per attribute_data_ entry;
    (3) on an interior vertex an attribute whose table has more than one vertex there is
        flagged on-seam (proved of RecomputeVertices: [recompute_labels_wf]);
    (4) an attribute whose connectivity is not used (per-vertex attribute, or
        no_interior_seams()) has one vertex per fan (proved for no_interior_seams:
        [recompute_no_seams_const]). *)
Definition labels_wf (m : cmesh) : Prop :=
  (m_multi m = false -> m_used m = []) /\
  (forall f, In (Some f) (m_verts m) -> length (v_onseam f) = num_att m) /\
  (forall f, In (Some f) (m_verts m) -> v_open f = false ->
     forall i, nth_error (v_onseam f) i = Some false -> att_const i f) /\
  (forall i, nth_error (m_used m) i = Some false ->
     forall f, In (Some f) (m_verts m) -> att_const i f).

(** [dedup_ok] (needed only by the historical shortcut variant): two neighbouring corners of a
    vertex have different point ids only if some attribute corner table separates them
    (true of meshes whose point ids are deduplicated, e.g. after Mesh::DeduplicatePointIds;
    false e.g. for a mesh built with one point per corner and shared attribute values). *)
Definition dedup_ok (m : cmesh) : Prop :=
  forall f, In (Some f) (m_verts m) ->
  forall p c, In (p, c) (adj f) -> c_pid c <> c_pid p -> dec_att_differs 0 (num_att m) c p = true.

Definition on_fans (P : vfan -> bool) (vs : list (option vfan)) : bool :=
  forallb (fun v => match v with None => true | Some f => P f end) vs.
Definition att_constb (i : nat) (f : vfan) : bool :=
  forallb (fun c => negb (att_neq i c (v_first f))) (v_rest f).
(** [forall i, nth_error l i = Some false -> P i] *)
Fixpoint forall_false_idx (i : nat) (l : list bool) (P : nat -> bool) : bool :=
  match l with
  | [] => true
  | b :: r => (b || P i) && forall_false_idx (S i) r P
  end.
Definition labels_wfb (m : cmesh) : bool :=
  (m_multi m || match m_used m with [] => true | _ => false end) &&
  on_fans (fun f => Nat.eqb (length (v_onseam f)) (num_att m)) (m_verts m) &&
  on_fans (fun f => v_open f || forall_false_idx 0 (v_onseam f) (fun i => att_constb i f)) (m_verts m) &&
  forall_false_idx 0 (m_used m) (fun i => on_fans (att_constb i) (m_verts m)).
Definition dedup_okb (m : cmesh) : bool :=
  on_fans (fun f => forallb (fun pc => (c_pid (snd pc) =? c_pid (fst pc))
                                       || dec_att_differs 0 (num_att m) (snd pc) (fst pc)) (adj f))
          (m_verts m).

(* ------------------------------------------------------------------------------------ *)
(** * MeshAttributeCornerTable::RecomputeVerticesInternal over one vertex

    Input for a vertex and one attribute: the seam flags ([IsCornerOppositeToSeamEdge]) of
    the edges between consecutive corners of the fan, in SwingRight order from the
    left-most corner.  Open fan with n corners: n-1 flags (the two boundary edges at the
    ends are not part of the list).  Closed fan with n corners: n flags, the last one being
    the edge between the last corner and the left-most one. *)
Record afan := mkAfan { a_open : bool; a_edges : list bool }.

(** [is_vertex_on_seam_[v]] as InitFromAttribute / AddSeamEdge set it: both end points of
    every seam edge and of every boundary edge are marked. *)
Definition on_seam (f : afan) : bool := a_open f || existsb (fun e => e) (a_edges f).

(** The assignment loop [act_c = SwingRight(act_c)]: crossing edge flag [e] opens a new
    attribute vertex ([first_vert_id = num_new_vertices++]) when it is a seam. *)
Fixpoint assign_ids (cur next : Z) (es : list bool) : list Z * Z :=
  match es with
  | [] => ([], next)
  | e :: r =>
    let cur' := if e then next else cur in
    let next' := if e then next + 1 else next in
    let '(l, nx) := assign_ids cur' next' r in (cur' :: l, nx)
  end.

(** [act_c = SwingLeft(first_c); while (act_c != invalid) { first_c = act_c; act_c = SwingLeft(act_c);
    if (act_c == c) return false; }] on a closed fan: number of corners stepped over to the
    left until a seam edge blocks the (attribute table's) SwingLeft; [None] = came back to
    the start, the C++ returns false.  The argument is the reversed edge list. *)
Fixpoint swing_left_steps (rev_es : list bool) : option nat :=
  match rev_es with
  | [] => None
  | e :: r => if e then Some O
              else match swing_left_steps r with Some s => Some (S s) | None => None end
  end.

Definition rotl {A} (k : nat) (l : list A) : list A := skipn k l ++ firstn k l.

(** One vertex: attribute-vertex ids of the corners in fan order, and the updated
    [num_new_vertices].  [flag] is [is_vertex_on_seam_[v]]. *)
Definition recompute_fan (flag : bool) (f : afan) (next : Z) : option (list Z * Z) :=
  let es := a_edges f in
  if a_open f then
    (* SwingLeft(left-most corner) is invalid: first_c stays the left-most corner; the walk
       ends at the invalid corner *)
    let '(l, nx) := assign_ids next (next + 1) es in Some (next :: l, nx)
  else if flag then
    match swing_left_steps (rev es) with
    | None => None
    | Some s =>
      let n := length es in
      let k := ((n - s) mod n)%nat in                 (* first_c = corner number k of the fan *)
      let '(l, nx) := assign_ids next (next + 1) (removelast (rotl k es)) in
      Some (rotl (n - k) (next :: l), nx)             (* listed again from the left-most corner *)
    end
  else
    let '(l, nx) := assign_ids next (next + 1) (removelast es) in Some (next :: l, nx).

(** The whole table: [for v < num_vertices] with the running [num_new_vertices]; isolated
    vertices are skipped.  Result per vertex: (is_vertex_on_seam_, ids). *)
Fixpoint recompute_table (vs : list (option afan)) (next : Z)
  : option (list (option (bool * list Z)) * Z) :=
  match vs with
  | [] => Some ([], next)
  | None :: r =>
    match recompute_table r next with
    | Some (t, nx) => Some (None :: t, nx)
    | None => None
    end
  | Some f :: r =>
    match recompute_fan (on_seam f) f next with
    | None => None
    | Some (ids, nx) =>
      match recompute_table r nx with
      | Some (t, nx') => Some (Some (on_seam f, ids) :: t, nx')
      | None => None
      end
    end
  end.

(** no_interior_seams(): no edge between two faces is a seam *)
Definition no_interior_seams (vs : list (option afan)) : bool :=
  forallb (fun v => match v with None => true | Some f => negb (existsb (fun e => e) (a_edges f)) end) vs.

(* ------------------------------------------------------------------------------------ *)
(** * Faces, sequential mesh coder, point clouds, and the API objects *)

Definition face := (Z * Z * Z)%type.
(** CornerTable::IsDegenerated / the test in ComputeOppositeCorners that increments
    num_degenerated_faces_ *)
Definition degenerate (f : face) : bool :=
  let '(a, b, c) := f in (a =? b) || (a =? c) || (b =? c).
Definition num_degenerated (fs : list face) : Z := Z.of_nat (length (filter degenerate fs)).
(** MeshEdgebreakerEncoder::ComputeNumberOfEncodedFaces *)
Definition eb_reported_faces (fs : list face) : Z := Z.of_nat (length fs) - num_degenerated fs.
(** MeshEdgebreakerEncoderImpl::EncodeConnectivity: [EncodeVarint(num_faces - NumDegeneratedFaces)] *)
Definition eb_written_faces (fs : list face) : Z := Z.of_nat (length fs) - num_degenerated fs.
(** Decoder: [corner_table_->Reset(num_faces)], DecodeConnectivity fails unless exactly that many
    faces were decoded ([num_faces != corner_table_->num_faces() -> -1]), then
    [mesh()->SetNumFaces(corner_table_->num_faces())]. *)
Definition eb_decoded_faces (written : Z) : Z := written.

(** MeshSequentialEncoder: reports mesh()->num_points()/num_faces(); EncodeConnectivity writes
    num_faces then num_points; MeshSequentialDecoder::DecodeConnectivity reads them and calls
    SetNumFaces / set_num_points. *)
Definition seq_mesh_reported (np nf : Z) : Z * Z := (np, nf).
Definition seq_mesh_header (np nf : Z) : Z * Z := (nf, np).
Definition seq_mesh_decoded (hdr : Z * Z) : Z * Z := let '(nf, np) := hdr in (np, nf).

(** PointCloudSequentialEncoder / PointCloudKdTreeEncoder: report point_cloud()->num_points();
    the stream stores num_points, the decoder calls set_num_points with it.  Faces: 0. *)
Definition pc_reported (np : Z) : Z * Z := (np, 0).
Definition pc_header (np : Z) : Z := np.
Definition pc_decoded (hdr : Z) : Z * Z := (hdr, 0).

(** ExpertEncoder::Encode{Mesh,PointCloud}ToBuffer and Encoder::Encode...ToBuffer copy the pair
    (after fix 6aa87ca the point-cloud path of Encoder too); without
    SetTrackEncodedProperties(true) the inner encoder never computes it and the API reports
    the initial zeros. *)
Definition api_reported (track : bool) (inner : Z * Z) : Z * Z := if track then inner else (0, 0).
