(** Model of float attribute quantization, bit-exact in IEEE binary32 (Flocq):

      core/quantization_utils.h/.cc                 Quantizer, Dequantizer
      attributes/attribute_quantization_transform.cc  ComputeParameters, SetParameters,
                                                     GeneratePortableAttribute (both overloads),
                                                     InverseTransformAttribute,
                                                     EncodeParameters / DecodeParameters
      compression/attributes/kd_tree_attributes_decoder.cc
                                                     DecodeDataNeededByPortableTransforms (parameter block),
                                                     TransformAttributesToOriginalFormat (the second,
                                                     separately written dequantization loop)

    The sequential encoder (SequentialQuantizationAttributeEncoder::Init/PrepareValues) and the
    kd-tree encoder (KdTreeAttributesEncoder::TransformAttributesToPortableFormat) both call the one
    class AttributeQuantizationTransform (SetParameters when origin and range are given in the
    options, else ComputeParameters; then TransformAttribute = GeneratePortableAttribute).  The
    parameters the model takes are the ones that REACH SetParameters / are stored in the stream
    (Options' float -> "%f" text -> atof round trip of explicit parameters is outside the model:
    defect D13).

    Results: [Ok v] = the C++ returns true / produces v; [Fail] = the C++ returns false;
    [UB] = the C++ would execute undefined behaviour (float -> int32 conversion out of range,
    shift count out of range, out-of-bounds read).  The theorems exclude [UB]
    by their hypotheses or prove it unreachable.

    No proofs in this file. *)
From Draco Require Import Base.Codec Base.Float32.
From Flocq Require Import IEEE754.Binary.
Local Open Scope Z_scope.

Inductive res (A : Type) : Type :=
| Ok : A -> res A
| Fail : res A
| UB : res A.
Arguments Ok {A} _.
Arguments Fail {A}.
Arguments UB {A}.

Definition rbind {A B} (r : res A) (f : A -> res B) : res B :=
  match r with Ok a => f a | Fail => Fail | UB => UB end.
Notation "'rdo' x <- e ; f" := (rbind e (fun x => f))
  (at level 200, x pattern, e at level 100, f at level 200, right associativity).

Fixpoint rmap {A B} (f : A -> res B) (l : list A) : res (list B) :=
  match l with
  | [] => Ok []
  | a :: t => rdo b <- f a; rdo bs <- rmap f t; Ok (b :: bs)
  end.

(** * core/quantization_utils *)

(** Quantizer::Init(float range, int32_t max_quantized_value):
      inverse_delta_ = static_cast<float>(max_quantized_value) / range; *)
Definition quantizer_init (range : f32) (max_q : Z) : f32 := fdiv (f32_of_Z max_q) range.
(** Quantizer::Init(float delta): inverse_delta_ = 1.f / delta; *)
Definition quantizer_init_delta (delta : f32) : f32 := fdiv f_one delta.

(** Quantizer::QuantizeFloat:  val *= inverse_delta_; return static_cast<int32_t>(floor(val + 0.5f));
    [floor] of a float is exact (in float or in double, whichever overload is picked); the
    conversion to int32_t is undefined when the value is not finite or outside the type. *)
Definition quantize_float (inverse_delta val : f32) : res Z :=
  match floorZ (fadd (fmul val inverse_delta) f_half) with
  | Some k => if in_i32 k then Ok k else UB
  | None => UB
  end.

(** Dequantizer::Init(float range, int32_t max_quantized_value):
      if (max_quantized_value <= 0) return false;
      delta_ = range / static_cast<float>(max_quantized_value); *)
Definition dequantizer_init (range : f32) (max_q : Z) : res f32 :=
  if max_q <=? 0 then Fail else Ok (fdiv range (f32_of_Z max_q)).
(** Dequantizer::Init(float delta) *)
Definition dequantizer_init_delta (delta : f32) : res f32 := Ok delta.

(** Dequantizer::DequantizeFloat(int32_t val): static_cast<float>(val) * delta_ *)
Definition dequantize_float (delta : f32) (k : Z) : f32 := fmul (f32_of_Z k) delta.

(** * attributes/attribute_quantization_transform *)

Record qparams := mk_qparams {
  qp_bits : Z;            (* quantization_bits_  (-1 = not initialized) *)
  qp_min : list f32;      (* min_values_ *)
  qp_range : f32          (* range_ *)
}.

(** IsQuantizationValid *)
Definition quantization_valid (q : Z) : bool := (1 <=? q) && (q <=? 30).

(** SetParameters(quantization_bits, min_values, num_components, range) *)
Definition set_parameters (q : Z) (mins : list f32) (range : f32) : res qparams :=
  if quantization_valid q then Ok (mk_qparams q mins range) else Fail.

(** One iteration of the scan loop of ComputeParameters over the components of a value:
      if (isnan(att_val[c])) return false;
      if (min_values_[c] > att_val[c]) min_values_[c] = att_val[c];
      if (max_values[c] < att_val[c]) max_values[c] = att_val[c];
    A row shorter or longer than the number of components cannot occur (GetValue reads
    num_components floats); the recursion stops at the shortest list. *)
Fixpoint scan_row (mins maxs row : list f32) : res (list f32 * list f32) :=
  match mins, maxs, row with
  | mn :: mins', mx :: maxs', v :: row' =>
      if f_isnan v then Fail else
      rdo (a, b) <- scan_row mins' maxs' row';
      Ok ((if f_gt mn v then v else mn) :: a, (if f_lt mx v then v else mx) :: b)
  | _, _, _ => Ok ([], [])
  end.

Fixpoint scan_rows (mins maxs : list f32) (rows : list (list f32)) : res (list f32 * list f32) :=
  match rows with
  | [] => Ok (mins, maxs)
  | r :: rest => rdo (mn, mx) <- scan_row mins maxs r; scan_rows mn mx rest
  end.

(** The final loop:  reject NaN/Inf bounds;  dif = max - min;  if (dif > range_) range_ = dif; *)
Fixpoint range_of (range : f32) (mins maxs : list f32) : res f32 :=
  match mins, maxs with
  | mn :: mins', mx :: maxs' =>
      if f_isnan mn || f_isinf mn || f_isnan mx || f_isinf mx then Fail else
      let dif := fsub mx mn in
      range_of (if f_gt dif range then dif else range) mins' maxs'
  | _, _ => Ok range
  end.

(** ComputeParameters(attribute, quantization_bits) on a fresh transform (quantization_bits_ == -1).
    [rows] = the attribute's values in AttributeValueIndex order.  Value 0 initialises min and max
    (it is not NaN-tested in the loop: a NaN there survives every comparison and is rejected by the
    final loop).  An attribute without values is rejected (`if (attribute.size() == 0) return false;`,
    the fix of D12). *)
Definition compute_parameters (rows : list (list f32)) (q : Z) : res qparams :=
  if quantization_valid q then
    match rows with
    | [] => Fail
    | r0 :: rest =>
        rdo (mins, maxs) <- scan_rows r0 r0 rest;
        rdo range <- range_of f_zero mins maxs;
        Ok (mk_qparams q mins (if f_eq range f_zero then f_one else range))
    end
  else Fail.

(** max_quantized_value of GeneratePortableAttribute: (1 << quantization_bits_) - 1 in [int],
    stored in a uint32_t and passed as int32_t: 2^q - 1 for q in 0..30; shifting by a negative
    count or by >= 31 (signed overflow) is undefined. *)
Definition gen_max_q (q : Z) : res Z :=
  if (0 <=? q) && (q <=? 30) then Ok (2 ^ q - 1) else UB.

(** The body of both GeneratePortableAttribute loops for one value:
      value = att_val[c] - min_values()[c];  q_val = quantizer.QuantizeFloat(value);
    min_values()[c] for c >= min_values_.size() is an out-of-bounds read. *)
Fixpoint quantize_row (inv : f32) (mins row : list f32) {struct row} : res (list Z) :=
  match row with
  | [] => Ok []
  | v :: row' =>
      match mins with
      | [] => UB
      | mn :: mins' =>
          rdo k <- quantize_float inv (fsub v mn);
          rdo ks <- quantize_row inv mins' row';
          Ok (k :: ks)
      end
  end.

(** GeneratePortableAttribute(attribute, num_points, target): values in point order (the
    attribute's own point -> value map is applied by the caller: [rows] is the list of values
    in the order they are visited). The int32 results are stored in the DT_UINT32 portable
    attribute: the memory words are the results modulo 2^32. *)
Definition generate_portable (p : qparams) (rows : list (list f32)) : res (list (list Z)) :=
  rdo mq <- gen_max_q (qp_bits p);
  let inv := quantizer_init (qp_range p) mq in
  rmap (fun row => rdo ks <- quantize_row inv (qp_min p) row; Ok (map u32 ks)) rows.

(** GeneratePortableAttribute(attribute, point_ids, num_points, target): value
    mapped_index(point_ids[i]) for i = 0..; [ids] are indices into [rows]; an index outside
    the attribute is an out-of-bounds read. *)
Definition generate_portable_ids (p : qparams) (rows : list (list f32)) (ids : list nat)
  : res (list (list Z)) :=
  rdo sel <- rmap (fun i => match nth_error rows i with Some r => Ok r | None => UB end) ids;
  generate_portable p sel.

(** max_quantized_value of the two dequantization loops:
      const int32_t m = (1u << static_cast<uint32_t>(quantization_bits)) - 1;
    computed in uint32 and converted to int32; a shift count >= 32 is undefined. *)
Definition inv_max_q (q : Z) : res Z :=
  if (0 <=? q) && (q <? 32) then Ok (to_i32 (u32 (2 ^ q) - 1)) else UB.

(** How the two loops read a 32-bit word [w] of the portable attribute:
    InverseTransformAttribute reinterprets the memory as int32_t;
    the kd-tree loop reinterprets it as uint32_t and passes it to DequantizeFloat(int32_t),
    i.e. converts it (modulo 2^32) at the call. *)
Definition seq_read (w : Z) : Z := to_i32 w.
Definition kd_read (w : Z) : Z := to_i32 (u32 w).

(** value = dequantizer.DequantizeFloat(k); value = value + min_values_[c]; *)
Fixpoint dequantize_row (read : Z -> Z) (delta : f32) (mins : list f32) (ws : list Z) {struct ws} : res (list f32) :=
  match ws with
  | [] => Ok []
  | w :: ws' =>
      match mins with
      | [] => UB
      | mn :: mins' =>
          rdo vs <- dequantize_row read delta mins' ws';
          Ok (fadd (dequantize_float delta (read w)) mn :: vs)
      end
  end.

Definition inverse_with (read : Z -> Z) (p : qparams) (words : list (list Z)) : res (list (list f32)) :=
  rdo mq <- inv_max_q (qp_bits p);
  rdo delta <- dequantizer_init (qp_range p) mq;
  rmap (dequantize_row read delta (qp_min p)) words.

(** AttributeQuantizationTransform::InverseTransformAttribute (sequential / Edgebreaker path,
    target data type DT_FLOAT32). *)
Definition inverse_transform := inverse_with seq_read.
(** KdTreeAttributesDecoder::TransformAttributesToOriginalFormat, DT_FLOAT32 branch. *)
Definition kd_inverse_transform := inverse_with kd_read.

(** ** The single-value functions the property talks about *)

(** Encoder side for one coordinate [x] with origin [o], range [r], bits [q]. *)
Definition quant_f (o r : f32) (q : Z) (x : f32) : res Z :=
  rdo mq <- gen_max_q q;
  quantize_float (quantizer_init r mq) (fsub x o).
(** Decoder side for one stored word. *)
Definition deq_f (o r : f32) (q : Z) (k : Z) : res f32 :=
  rdo mq <- inv_max_q q;
  rdo delta <- dequantizer_init r mq;
  Ok (fadd (dequantize_float delta k) o).
(** decode (encode x): through the uint32 memory word. *)
Definition requant_f (o r : f32) (q : Z) (x : f32) : res f32 :=
  rdo k <- quant_f o r q x; deq_f o r q (seq_read (u32 k)).

(** * Parameter block in the stream *)

Definition le32 (v : Z) : bytes := [v mod 256; (v / 256) mod 256; (v / 65536) mod 256; (v / 16777216) mod 256].
Fixpoint dec_le32s (n : nat) (bs : bytes) : option (list Z * bytes) :=
  match n with
  | O => Some ([], bs)
  | S k =>
      match bs with
      | b0 :: b1 :: b2 :: b3 :: r =>
          match dec_le32s k r with
          | Some (vs, r') => Some ((b0 + 256 * b1 + 65536 * b2 + 16777216 * b3) :: vs, r')
          | None => None
          end
      | _ => None
      end
  end.

(** EncodeParameters: min_values_ (raw floats), range_, uint8(quantization_bits_);
    false when not initialized. *)
Definition encode_parameters (p : qparams) : option bytes :=
  if qp_bits p =? -1 then None
  else Some (flat_map (fun m => le32 (bits_of_f32 m)) (qp_min p) ++ le32 (bits_of_f32 (qp_range p))
             ++ [qp_bits p mod 256]).

(** DecodeParameters(attribute, buffer): num_components floats, range, one byte; the byte must be
    a valid bit count.  (With 0 components [&min_values_[0]] on an empty vector is formally
    undefined; such attributes do not reach this code.) *)
Definition decode_parameters (nc : nat) (bs : bytes) : option (qparams * bytes) :=
  match dec_le32s nc bs with
  | Some (ms, r1) =>
      match dec_le32s 1 r1 with
      | Some ([rg], r2) =>
          match r2 with
          | q :: r3 => if quantization_valid q then Some (mk_qparams q (map f32_of_bits ms) (f32_of_bits rg), r3) else None
          | [] => None
          end
      | _ => None
      end
  | None => None
  end.

(** KdTreeAttributesDecoder::DecodeDataNeededByPortableTransforms, per float attribute:
    the same three fields, [quantization_bits > 31] rejected, then SetParameters. *)
Definition kd_decode_parameters (nc : nat) (bs : bytes) : option (qparams * bytes) :=
  match dec_le32s nc bs with
  | Some (ms, r1) =>
      match dec_le32s 1 r1 with
      | Some ([rg], r2) =>
          match r2 with
          | q :: r3 =>
              if q >? 31 then None else
              match set_parameters q (map f32_of_bits ms) (f32_of_bits rg) with
              | Ok p => Some (p, r3)
              | _ => None
              end
          | [] => None
          end
      | _ => None
      end
  | None => None
  end.

(** * What the driver prints *)
Definition obs_row (r : list f32) : list Z := map obs_bits r.
