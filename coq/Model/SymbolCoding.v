(** Model of /repo/src/draco/compression/entropy/symbol_encoding.cc (EncodeSymbols, ComputeBitLengths,
    EncodeTaggedSymbols, EncodeRawSymbols, EncodeRawSymbolsInternal) and symbol_decoding.cc (DecodeSymbols,
    DecodeTaggedSymbols, DecodeRawSymbols, DecodeRawSymbolsInternal), on top of Model/RansSymbol.v.

    POLICY: whether EncodeSymbols picks the tagged or the raw scheme depends on log2-based size estimates
    (ApproximateTaggedSchemeBits / ApproximateRawSchemeBits / ComputeShannonEntropy).  That choice is the input
    [method] of [enc_symbols] (0 = SYMBOL_CODING_TAGGED, 1 = SYMBOL_CODING_RAW, as written to the first byte);
    every theorem quantifies over it.  The one non-estimated part of the automatic decision (values of more than
    18 bits force the tagged scheme) is [auto_method_ok].
    The bit-sequence mode of EncoderBuffer/DecoderBuffer used for the tagged values is modelled here on lists of
    bits (least significant bit of every byte first), so that it stays linear-time after extraction. *)
From Coq Require Import FMapPositive.
From Draco Require Import Base.Codec Model.Varint Model.RansSymbol Model.RansFloat.
Local Open Scope Z_scope.

(** MostSignificantBit(max(1, v)) + 1 *)
Definition bit_length (v : Z) : Z := if v <=? 0 then 1 else Z.log2 v + 1.

Fixpoint zmax_list (l : list Z) : Z := match l with [] => 0 | x :: r => Z.max x (zmax_list r) end.

(** The values in chunks of num_components. *)
Fixpoint groups (fuel : nat) (nc : nat) (l : list Z) : list (list Z) :=
  match fuel with
  | O => []
  | S f => match l with [] => [] | _ => firstn nc l :: groups f nc (skipn nc l) end
  end.

(** ComputeBitLengths: one bit length per chunk, from the largest component. *)
Definition group_tag (g : list Z) : Z := bit_length (zmax_list g).

(** The C++ signature: `const uint32_t *symbols, int num_values`, read in chunks of num_components
    (ComputeBitLengths reads symbols[i + j] unchecked, so num_values must be a multiple of num_components).
    Nothing else is assumed: since the fix of defect D6 (commit 213a728) EncodeSymbols itself rejects values that
    need all 32 bits, and never builds a histogram for values the raw scheme cannot code. *)
Definition sym_guard (nc : Z) (syms : list Z) : bool :=
  forallb (fun s => (0 <=? s) && (s <? 2 ^ 32)) syms
  && (zlen syms mod (if nc <=? 0 then 1 else nc) =? 0)
  && (zlen syms <? 2 ^ 31).

(** * Frequencies: ++frequencies[symbols[i]] over a zero-initialised array, then the array as a list *)
Definition arr_count (a : arr Z) (s : Z) : Z := match arr_get a s with Some c => c | None => 0 end.
Fixpoint count_syms (l : list Z) (a : arr Z) : arr Z :=
  match l with [] => a | s :: r => count_syms r (arr_set a s (1 + arr_count a s)) end.
Fixpoint dense (a : arr Z) (i : Z) (n : nat) : list Z :=
  match n with O => [] | S k => arr_count a i :: dense a (i + 1) k end.

(** * Bit-sequence mode (EncoderBuffer::BitEncoder::PutBits, DecoderBuffer::BitDecoder::GetBits) *)
Fixpoint put_bits (n : nat) (v : Z) (tl : list bool) : list bool :=
  match n with O => tl | S k => Z.odd v :: put_bits k (v / 2) tl end.
Fixpoint byte_of_bits (n : nat) (l : list bool) : Z :=
  match n with
  | O => 0
  | S k => match l with [] => 0 | b :: r => Z.b2z b + 2 * byte_of_bits k r end
  end.
(** EndBitEncoding: the bits, 8 per byte, the last byte padded with zeros. *)
Fixpoint pack_bits (fuel : nat) (l : list bool) : bytes :=
  match fuel with
  | O => []
  | S f => match l with [] => [] | _ => byte_of_bits 8 l :: pack_bits f (skipn 8 l) end
  end.
Fixpoint bits_of_bytes (bs : bytes) : list bool :=
  match bs with [] => [] | b :: r => put_bits 8 b (bits_of_bytes r) end.
(** GetBits(n): past the end of the buffer bits read as 0 and the offset stops. *)
Fixpoint take_bits (n : nat) (bits : list bool) : Z * list bool :=
  match n with
  | O => (0, bits)
  | S k => match bits with
           | [] => (0, [])
           | b :: r => let '(v, r') := take_bits k r in (Z.b2z b + 2 * v, r')
           end
  end.

(** * Encoder *)
Definition create_f64 (P : Z) (freqs : list Z) : cres := rans_create f64 (f64_rnd P) (f64_rel P) f64_scale P freqs.
Definition create_ok (P : Z) (freqs : list Z) : bool :=
  match create_f64 P freqs with COk _ => true | _ => false end.

(** RAnsSymbolEncoder<N>: Create(frequencies) ; StartEncoding ; EncodeSymbol in reverse ; EndEncoding.
    The C++ callers IGNORE Create's result; if Create fails they go on with an unfinished table and still return
    true.  That continuation is not modelled: the model answers [None], the theorems carry [create_ok] where it
    matters, and the harness asserts Create's result on every case. *)
Definition rans_symbol_encode (P : Z) (freqs syms : list Z) : option bytes :=
  match create_f64 P freqs with
  | COk probs => rans_encode_with P probs syms
  | _ => None
  end.

Fixpoint enc_group_bits (tag : nat) (g : list Z) (tl : list bool) : list bool :=
  match g with [] => tl | v :: r => put_bits tag v (enc_group_bits tag r tl) end.
Fixpoint enc_value_bits (gs : list (list Z)) : list bool :=
  match gs with [] => [] | g :: r => enc_group_bits (Z.to_nat (group_tag g)) g (enc_value_bits r) end.

(** EncodeTaggedSymbols<RAnsSymbolEncoder>: SymbolEncoderT<5> over the bit-length tags (32 frequency slots),
    then the values as raw bits (StartBitEncoding(32 * num_values, false) on a separate buffer, values in
    natural order, each with its chunk's bit length), appended after the tag block. *)
Definition enc_tagged (nc : nat) (syms : list Z) : option bytes :=
  let gs := groups (length syms) nc syms in
  let tags := map group_tag gs in
  let freqs := dense (count_syms tags (PositiveMap.empty Z)) 0 32 in
  match rans_symbol_encode (rans_precision_bits 5) freqs tags with
  | None => None
  | Some tb => let bits := enc_value_bits gs in Some (tb ++ pack_bits (length bits) bits)
  end.

(** The compression-level adjustment and clamp of EncodeRawSymbols. *)
Definition raw_bit_length (num_unique lvl : Z) : Z :=
  let b := (if 0 <? num_unique then Z.log2 num_unique else 0) + 1 in
  let b' := if lvl <? 4 then b - 2 else if lvl <? 6 then b - 1
            else if lvl >? 9 then b + 2 else if lvl >? 7 then b + 1 else b in
  Z.min (Z.max 1 b') 18.

(** EncodeRawSymbols + EncodeRawSymbolsInternal<SymbolEncoderT<bits>> *)
Definition enc_raw (lvl : Z) (syms : list Z) : option bytes :=
  let cnt := count_syms syms (PositiveMap.empty Z) in
  let num_unique := Z.of_nat (PositiveMap.cardinal cnt) in
  let b := (if 0 <? num_unique then Z.log2 num_unique else 0) + 1 in
  if b >? 18 then None else
  let bl := raw_bit_length num_unique lvl in
  let freqs := dense cnt 0 (Z.to_nat (zmax_list syms + 1)) in
  match rans_symbol_encode (rans_precision_bits bl) freqs syms with
  | None => None
  | Some body => Some (bl :: body)
  end.

(** EncodeSymbols(symbols, num_values, num_components, options, target).  [method]: the scheme (forced through
    the option "symbol_encoding_method", or chosen from the estimates); [lvl]: "symbol_encoding_compression_level"
    (7 when unset).  [None] = `return false`:
      - max_value_bit_length >= kMaxTagSymbolBitLength (32): neither scheme has a tag for it;
      - the raw scheme asked for values of more than kMaxRawEncodingBitLength (18) bits (the automatic choice
        never does that, see [auto_method_ok]) or for more than 2^18 - 1 distinct symbols;
      - an unknown scheme value.
    Inputs outside [sym_guard] are not inputs of the C++ function (see there); the model answers [None]. *)
Definition enc_symbols (method lvl nc : Z) (syms : list Z) : option bytes :=
  match syms with
  | [] => Some []
  | _ =>
    if negb (sym_guard nc syms) then None else
    let nc' := if nc <=? 0 then 1 else nc in
    let bl := bit_length (zmax_list syms) in
    if bl >=? 32 then None else
    if method =? 0 then
      match enc_tagged (Z.to_nat nc') syms with Some b => Some (0 :: b) | None => None end
    else if method =? 1 then
      if bl >? 18 then None else
      match enc_raw lvl syms with Some b => Some (1 :: b) | None => None end
    else None
  end.

(** The mechanical half of the automatic choice: more than 18 value bits select the tagged scheme (the other
    half compares two log2-based estimates). *)
Definition auto_method_ok (syms : list Z) (method : Z) : bool :=
  (method =? 0) || ((method =? 1) && (bit_length (zmax_list syms) <=? 18)).

(** * Decoder *)
(** The loop of DecodeTaggedSymbols: tag = DecodeSymbol(); num_components times DecodeLeastSignificantBits32(tag)
    (false when tag > 32).  [acc]: decoded values, reversed. *)
Fixpoint take_values (n : nat) (tag : nat) (bits : list bool) (acc : list Z) : list Z * list bool :=
  match n with
  | O => (acc, bits)
  | S k => let '(v, bits') := take_bits tag bits in take_values k tag bits' (v :: acc)
  end.
Fixpoint dec_tagged_loop (P : Z) (d : rdec) (ngroups : nat) (nc : nat) (st : rstate) (bits : list bool)
         (acc : list Z) : dres (list Z * list bool) :=
  match ngroups with
  | O => Ok (rev' acc, bits)
  | S k =>
    dlet (tag, st') <- rans_read P d st;
    if tag >? 32 then Fail else
    let '(acc', bits') := take_values nc (Z.to_nat tag) bits acc in
    dec_tagged_loop P d k nc st' bits' acc'
  end.

(** DecodeTaggedSymbols<RAnsSymbolDecoder>.  Since commit 6105d6f it starts with
    `if (num_components <= 0 || num_values % num_components != 0) return false;` (before anything is read), so the
    loop, which stores num_components values per round, stores exactly num_values values. *)
Definition dec_tagged (ver : Z) (n nc : nat) (pre : list Z) (bs : bytes) : dres (list Z * bytes) :=
  if (nc =? 0)%nat || negb (n mod nc =? 0)%nat then Fail else
  let P := rans_precision_bits 5 in
  dlet (d, r) <- rans_dec_create ver P bs;
  dlet (st, r') <- rans_start_decoding ver P (consumed_rev bs r pre) r;
  if (0 <? Z.of_nat n) && (d_n d =? 0) then Fail else
  let bits := bits_of_bytes r' in
  let ngroups := ((n + nc - 1) / nc)%nat in
  dlet (vals, bits') <- dec_tagged_loop P d ngroups nc st bits [];
  (* EndBitDecoding: pos += ceil(bits_decoded / 8) *)
  let used := 8 * zlen r' - zlen bits' in
  Ok (vals, skipn (Z.to_nat ((used + 7) / 8)) r').

(** DecodeRawSymbols: the bit-length byte selects RAnsSymbolDecoder<1..18>. *)
Definition dec_raw (ver : Z) (n : nat) (pre : list Z) (bs : bytes) : dres (list Z * bytes) :=
  match bs with
  | [] => Fail
  | bl :: r =>
    if (bl <? 1) || (bl >? 18) then Fail
    else rans_decode_symbols ver (rans_precision_bits bl) n (bl :: pre) r
  end.

(** DecodeSymbols(num_values, num_components, buffer, out) on a buffer of bitstream version [ver]; [pre]: the
    bytes in front of the block (nearest first; carried along for RAnsDecoder::read_init, which ignores them). *)
Definition dec_symbols (ver : Z) (n nc : nat) (pre : list Z) (bs : bytes) : dres (list Z * bytes) :=
  match n with
  | O => Ok ([], bs)
  | _ =>
    match bs with
    | [] => Fail
    | scheme :: r =>
      if scheme =? 0 then dec_tagged ver n nc (scheme :: pre) r
      else if scheme =? 1 then dec_raw ver n (scheme :: pre) r
      else Fail
    end
  end.

(** The prefix-shaped decoder used in the round-trip statements (current bitstream version 2.2, nothing
    assumed about the bytes in front). *)
Definition dec_symbols_opt (n nc : nat) (bs : bytes) : option (list Z * bytes) :=
  to_opt (dec_symbols 514 n nc [] bs).
