(** TRACE presentation of the Edgebreaker connectivity ENCODER (Model/EbEncoder.v).

    [eb_encode] is big-step: [inner] / [outer] / [from_corner] / [ec_corner] return the final members only.  The functions
    below are the SAME functions instrumented to record one CONFIGURATION per emitted symbol: the corner that is processed
    and the encoder's members at that moment, i.e. at the head of the loop `while (num_visited_faces < num_faces)` of
    EncodeConnectivityFromCorner, before `++last_encoded_symbol_id_`:
        cf_corner   corner_id
        cf_st       visited_faces_ / visited_vertex_ids_ / visited_holes_, the corner traversal stack (its top is the entry the
                    current strip was started from; the pops of already visited entries between two symbols have happened),
                    the symbols, split events and processed corners SO FAR, face_to_split_symbol_map_.
    Nothing else changes: erasing the trace gives back the big-step functions ([trace_refines_big_step] in
    Proofs/EbTrace_proofs.v).  Executable (Examples in Properties_EBSIM.v). *)
From Coq Require Import List Arith Bool PeanoNat ZArith.
Import ListNotations.
From Draco Require Import Model.CornerTable Model.EbEncoder.

Record cfg : Type := mk_cfg { cf_corner : nat; cf_st : est }.

Definition emap {A B} (f : A -> B) (r : eres A) : eres B :=
  match r with EOk a => EOk (f a) | EFail => EFail | EOob => EOob | EFuel => EFuel end.

Section Trace.
  Variable c2v : list nat.
  Variable opp : list (option nat).
  Variable hid : list (option nat).

  (** [inner] with the trace (newest configuration first) *)
  Fixpoint inner_tr (k : nat) (s : est) (c : option nat) (tr : list cfg) : eres (est * list cfg) :=
    match k with
    | O => EOk (s, tr)
    | S k' =>
      match c with
      | None => EOob
      | Some c =>
        let tr := mk_cfg c s :: tr in
        let s := with_last_id s (last_id s + 1)%Z in
        let f := c / 3 in
        vfl <-- eset (vf s) f true ;;
        let s := with_pcc (with_vf s vfl) (c :: pcc s) in
        v <-- e_vertex c2v c ;;
        h <-- eget hid v ;;
        let on_boundary := match h with Some _ => true | None => false end in
        vis <-- eget (vv s) v ;;
        s1 <-- (if vis then EOk s else vvl <-- eset (vv s) v true ;; EOk (with_vv s vvl)) ;;
        if negb vis && negb on_boundary then
          rc <-- right_corner opp c ;;
          inner_tr k' (emit s1 TOPOLOGY_C) rc tr
        else
          let s := s1 in
          rc <-- right_corner opp c ;;
          lc <-- left_corner opp c ;;
          rfv <-- face_visited_opt (vf s) rc ;;
          if rfv then
            let s := check_split s RIGHT_FACE_EDGE rc in
            lfv <-- face_visited_opt (vf s) lc ;;
            if lfv then
              let s := check_split s LEFT_FACE_EDGE lc in
              let s := emit s TOPOLOGY_E in
              match stack s with
              | [] => EOob
              | _ :: r => EOk (with_stack s r, tr)
              end
            else
              inner_tr k' (emit s TOPOLOGY_R) lc tr
          else
            lfv <-- face_visited_opt (vf s) lc ;;
            if lfv then
              let s := check_split s LEFT_FACE_EDGE lc in
              inner_tr k' (emit s TOPOLOGY_L) rc tr
            else
              let s := emit s TOPOLOGY_S in
              let s := with_nsplit s (S (nsplit s)) in
              s <-- (match h with
                     | Some hole =>
                       b <-- eget (vhole s) hole ;;
                       if b then EOk s else encode_hole c2v opp hid s c false
                     | None => EOk s
                     end) ;;
              let s := with_f2s s ((f, last_id s) :: f2s s) in
              match stack s with
              | [] => EOob
              | _ :: r => EOk (with_stack s (rc :: lc :: r), tr)
              end
      end
    end.

  Fixpoint outer_tr (fuel : nat) (s : est) (tr : list cfg) : eres (est * list cfg) :=
    match fuel with
    | O => EFuel
    | S k =>
      match stack s with
      | [] => EOk (s, tr)
      | None :: r => outer_tr k (with_stack s r) tr
      | Some c :: r =>
        b <-- eget (vf s) (c / 3) ;;
        if b then outer_tr k (with_stack s r) tr
        else st <-- inner_tr (NF c2v) s (Some c) tr ;; outer_tr k (fst st) (snd st)
      end
    end.

  Definition from_corner_tr (s : est) (c : option nat) (tr : list cfg) : eres (est * list cfg) :=
    outer_tr (outer_fuel c2v) (with_stack s [c]) tr.

  Definition ec_corner_tr (st : eres (est * list bool * list nat * list cfg)) (c_id : nat)
    : eres (est * list bool * list nat * list cfg) :=
    st <-- st ;;
    let '(s, bits, inits, tr) := st in
    let f := c_id / 3 in
    b <-- eget (vf s) f ;;
    if b then EOk (s, bits, inits, tr) else
    if is_degenerated c2v f then EOk (s, bits, inits, tr) else
    r <-- find_init c2v opp hid f ;;
    let '(start, interior) := r in
    let bits := interior :: bits in
    if interior then
      v <-- e_vertex c2v start ;;
      nv <-- e_vertex c2v (next_c start) ;;
      pv <-- e_vertex c2v (prev_c start) ;;
      vvl <-- eset (vv s) v true ;;
      vvl <-- eset vvl nv true ;;
      vvl <-- eset vvl pv true ;;
      vfl <-- eset (vf s) f true ;;
      let s := with_vf (with_vv s vvl) vfl in
      let inits := next_c start :: inits in
      o <-- e_opp opp (next_c start) ;;
      match o with
      | None => EOk (s, bits, inits, tr)
      | Some oc =>
        b <-- eget (vf s) (oc / 3) ;;
        if b then EOk (s, bits, inits, tr)
        else st <-- from_corner_tr s (Some oc) tr ;; EOk (fst st, bits, inits, snd st)
      end
    else
      s <-- encode_hole c2v opp hid s (next_c start) true ;;
      st <-- from_corner_tr s (Some start) tr ;;
      EOk (fst st, bits, inits, snd st).
End Trace.

(** EncodeConnectivity with the trace, configurations in ENCODING order (configuration i = the encoder when it emits
    symbol i) *)
Definition eb_encode_tr (c2v : list nat) (opp : list (option nat)) (nv niso ndeg : nat) : eres (enc_out * list cfg) :=
  let nf := NF c2v in
  if nf =? ndeg then EFail else
  hv <-- find_holes c2v opp nv ;;
  let '(hid, vh) := hv in
  r <-- fold_left (ec_corner_tr c2v opp hid) (seq 0 (NC c2v)) (EOk (init_est nf nv vh, [], [], [])) ;;
  let '(s, bits, inits, tr) := r in
  EOk (mk_out (Z.of_nat nv - Z.of_nat niso) (Z.of_nat nf - Z.of_nat ndeg)
              (Z.of_nat (length (syms s))) (Z.of_nat (nsplit s))
              (rev (syms s)) (rev (evs s)) (rev bits)
              (pcc s ++ rev inits), rev tr).

Definition eb_encode_ct_tr (t : ctable) : eres (enc_out * list cfg) :=
  eb_encode_tr (ct_c2v t) (ct_opp t) (length (ct_vcorn t)) (ct_niso t) (ct_ndeg t).
