(** Model of the rABS (binary) part of compression/entropy/ans.h: fastdiv (core/divide.h),
    rabs_desc_write / rabs_desc_read (= rabs_write / rabs_read), ans_write_init / ans_write_end /
    ans_read_init.  Constants and the fastdiv table come from Gen/Constants.v (regenerated from /repo). *)
From Draco Require Import Base.Codec Gen.Constants.
Local Open Scope Z_scope.

Definition u32 (x : Z) : Z := x mod 2 ^ 32.
Definition ansL : Z := DRACO_ANS_L_BASE_.
Definition ansIO : Z := DRACO_ANS_IO_BASE_.
Definition ansP : Z := DRACO_ANS_P8_PRECISION_.

(** static inline unsigned fastdiv(unsigned x, int y):
      unsigned t = ((uint64_t)x * tab[y].mult) >> 32;  return (t + x) >> tab[y].shift; *)
Definition fastdiv (x y : Z) : Z :=
  let '(mult, shift) := nth (Z.to_nat y) vp10_fastdiv_tab (0, 0) in
  let t := u32 (Z.shiftr (x * mult) 32) in
  Z.shiftr (u32 (t + x)) shift.

(** rabs_desc_write(ans, val, p0): returns the bytes appended to the buffer (at most one) and the new state. *)
Definition rabs_write (x : Z) (val : bool) (p0 : Z) : list Z * Z :=
  let p := (ansP - p0) mod 256 in                    (* const AnsP8 p = PRECISION - p0  (uint8_t) *)
  let l_s := if val then p else p0 in
  let '(out, x1) :=
    if x >=? ansL / ansP * ansIO * l_s then ([x mod ansIO], x / ansIO) else ([], x) in
  let quot := fastdiv x1 l_s in
  let rem := u32 (x1 - quot * l_s) in
  (out, u32 (quot * ansP + rem + (if val then 0 else p))).

(** The decoder reads the buffer backwards; [stk] is the unread part, next byte first. *)
Definition renorm (x : Z) (stk : list Z) : Z * list Z :=
  if x <? ansL then
    match stk with
    | b :: r => (u32 (x * ansIO + b), r)
    | [] => (x, stk)                                  (* buf_offset == 0: nothing is read *)
    end
  else (x, stk).
Definition rabs_read_core (x p0 : Z) : bool * Z :=
  let p := (ansP - p0) mod 256 in
  let quot := x / ansP in
  let rem := x mod ansP in
  let xn := u32 (quot * p) in
  let val := rem <? p in
  (val, if val then u32 (xn + rem) else u32 (x - xn - p)).
Definition rabs_read (x : Z) (stk : list Z) (p0 : Z) : bool * Z * list Z :=
  let '(x1, s1) := renorm x stk in
  let '(v, x2) := rabs_read_core x1 p0 in
  (v, x2, s1).

(** ans_write_end: 1..3 tail bytes carrying state - L_BASE with a 2-bit length tag in the top bits.
    None = the DCHECK branch (state too large), unreachable for states below L_BASE*IO_BASE. *)
Definition ans_write_end (x : Z) : option (list Z) :=
  let st := u32 (x - ansL) in
  if st <? 2 ^ 6 then Some [st]
  else if st <? 2 ^ 14 then let v := 2 ^ 14 + st in Some [v mod 256; (v / 256) mod 256]
  else if st <? 2 ^ 22 then let v := 2 * 2 ^ 22 + st in Some [v mod 256; (v / 256) mod 256; (v / 65536) mod 256]
  else None.

(** ans_read_init(buf, offset) on the reversed block [rblk] (last byte of the block first).
    Returns the initial state and the still unread bytes (again last first). *)
Definition ans_read_init (rblk : list Z) : option (Z * list Z) :=
  match rblk with
  | [] => None                                        (* offset < 1 *)
  | b0 :: r0 =>
    let tag := b0 / 64 in
    let res :=
      if tag =? 0 then Some (Z.land b0 63, r0)
      else if tag =? 1 then
        match r0 with
        | b1 :: r1 => Some (Z.land (b0 * 256 + b1) 16383, r1)
        | [] => None
        end
      else if tag =? 2 then
        match r0 with
        | b1 :: b2 :: r2 => Some (Z.land (b0 * 65536 + b1 * 256 + b2) 4194303, r2)
        | _ => None
        end
      else None in
    match res with
    | Some (st, r) => let st := st + ansL in if st >=? ansL * ansIO then None else Some (st, r)
    | None => None
    end
  end.

(** Encoding a sequence of (bit, probability-of-zero) pairs given in DECODING order: the C++ callers
    iterate backwards, so the first logical symbol is written last.  Result: final state and the
    bytes in the order they were appended. *)
Fixpoint rabs_encode (syms : list (bool * Z)) : Z * list Z :=
  match syms with
  | [] => (ansL, [])
  | (v, p0) :: r =>
    let '(x, out) := rabs_encode r in
    let '(o, x') := rabs_write x v p0 in
    (x', out ++ o)
  end.
Definition rabs_block (syms : list (bool * Z)) : option (list Z) :=
  let '(x, out) := rabs_encode syms in
  match ans_write_end x with
  | Some tail => Some (out ++ tail)
  | None => None
  end.

(** Decoding [ps] bits with per-bit probabilities. *)
Fixpoint rabs_decode (ps : list Z) (x : Z) (stk : list Z) : list bool * Z * list Z :=
  match ps with
  | [] => ([], x, stk)
  | p0 :: r =>
    let '(v, x1, s1) := rabs_read x stk p0 in
    let '(vs, x2, s2) := rabs_decode r x1 s1 in
    (v :: vs, x2, s2)
  end.
