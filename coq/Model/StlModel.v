(** C15 — binary STL: StlEncoder / StlDecoder at the byte level.

    Sources (read line by line, /repo as it is now):
      src/draco/io/stl_encoder.cc   StlEncoder::EncodeInternal
      src/draco/io/stl_decoder.cc   StlDecoder::DecodeFromBuffer
      TriangleSoupMeshBuilder = Model/Dedup.v [soup_build] (property C14)

    Layout: 80 header bytes ("generated using Draco" padded with blanks), uint32 face count, then per face
    12 bytes normal, 3 x 12 bytes positions, 2 bytes attribute count (0).

    The writer does NOT copy a normal attribute: it recomputes norm(cross(p1-p0, p2-p0)) in float32
    (CrossProduct / Normalize of core/vector_d.h).  That float computation is not modelled: the 12 normal bytes
    of every face are a PARAMETER of the model writer ([nrms], read off the implementation's output by the
    harness) and the theorems hold for every value of it.  The reader stores the normal bytes as a per-face
    attribute (it does not recompute or check them).

    The reader ignores the result of every DecoderBuffer::Decode: on a file shorter than 84 + 50 * count bytes
    [face_count] / the face data are read from UNINITIALISED stack memory (reported as a finding).  The model
    answers [Unmod] there and the harness does not run the implementation on such input. *)
From Coq Require Import List ZArith Bool Arith Lia String.
From Draco Require Import Base.Codec Model.Varint Model.Dedup Model.IoText Model.PlyModel.
Import ListNotations.
Local Open Scope Z_scope.

Definition s_solid := Eval cbv in bytes_of_string "solid ".
Definition stl_header : bytes :=
  Eval cbv in (bytes_of_string "generated using Draco" ++ repeat 32 59).

Record stl_in := mkStlIn { si_pos : attr; si_faces : list face }.

Definition stl_face_rec (pos : attr) (nrm : bytes) (f : face) : bytes :=
  let '(a, b, c) := f in
  nrm ++ att_value pos a ++ att_value pos b ++ att_value pos c ++ [0; 0].

(** StlEncoder::EncodeToBuffer; [None] = error Status ("not of type float32").  [nrms]: the normal bytes the
    float32 cross product / normalisation produced for each face (one 12-byte string per face). *)
Definition stl_write (nrms : list bytes) (m : stl_in) : option bytes :=
  if a_dtype (si_pos m) =? DT_FLOAT32 then
    Some (stl_header ++ enc_le 4 (Z.of_nat (length (si_faces m))) ++
          concat (List.map (fun nf => stl_face_rec (si_pos m) (fst nf) (snd nf)) (combine nrms (si_faces m))))
  else None.

(** the 50-byte face records: (normal, p0, p1, p2) *)
Fixpoint stl_faces (n : nat) (bs : bytes) : option (list (bytes * bytes * bytes * bytes)) :=
  match n with
  | O => Some []
  | S n' =>
    match take_n 50 bs with
    | None => None
    | Some (r, rest) =>
      match stl_faces n' rest with
      | Some fs => Some ((firstn 12 r, firstn 12 (skipn 12 r), firstn 12 (skipn 24 r), firstn 12 (skipn 36 r)) :: fs)
      | None => None
      end
    end
  end.

(** the two attributes given to TriangleSoupMeshBuilder, in its point order 3 * face + corner:
    POSITION (attribute 0, per corner) and NORMAL (attribute 1, SetPerFaceAttributeValueForFace: the same
    value for the three corners) *)
Definition stl_inputs (fs : list (bytes * bytes * bytes * bytes)) : list att_input :=
  [mkIn 3 DT_FLOAT32 (concat (List.map (fun r => let '(n, a, b, c) := r in [a; b; c]) fs));
   mkIn 3 DT_FLOAT32 (concat (List.map (fun r => let '(n, a, b, c) := r in [n; n; n]) fs))].

(** StlDecoder::DecodeFromBuffer.  [Ok None] = OK status holding a null mesh (Finalize failed; never happens). *)
Definition stl_read (bs : bytes) : res (option geo) :=
  if Z.of_nat (length bs) <? 6 then Unmod                 (* strncmp over the end of the buffer *)
  else if beq (firstn 6 bs) s_solid then Reject            (* "Currently only binary STL files are supported." *)
  else
    match dec_le 4 (skipn 80 bs) with
    | None => Unmod                                        (* face_count uninitialised *)
    | Some (n, data) =>
      if Z.of_nat (length data) <? 50 * n then Unmod       (* face data uninitialised *)
      else match stl_faces (Z.to_nat n) data with
           | Some fs => Ok (soup_build (Z.to_nat n) (stl_inputs fs))
           | None => Unmod
           end
    end.
