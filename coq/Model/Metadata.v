(** Model of metadata/metadata.{h,cc}, metadata/geometry_metadata.{h,cc},
    metadata/metadata_encoder.cc and metadata/metadata_decoder.cc (property C11).

    Containers.  [Metadata] holds two [std::map]s keyed by [std::string]: entries
    (name -> EntryValue = byte vector) and sub-metadata (name -> Metadata).  A std::map is
    iterated in ascending key order; std::string's [operator<] is the bytewise (unsigned
    char) lexicographic order.  The model keeps each map as an association list in exactly
    that order: [map_set] is the insertion the C++ performs ([Metadata::AddEntry] = erase +
    insert = overwrite; [sub_metadatas_[name] = ...]), [map_mem] is [find != end()].
    [GeometryMetadata] adds a [std::vector] of [AttributeMetadata] = (att_unique_id, Metadata),
    appended by [AddAttributeMetadata] (no uniqueness check on the id). *)
From Draco Require Import Base.Codec Model.Varint.
Local Open Scope Z_scope.

Inductive node : Type :=
  Node (entries : list (bytes * bytes)) (subs : list (bytes * node)).

Definition node_entries (t : node) := match t with Node es _ => es end.
Definition node_subs (t : node) := match t with Node _ ss => ss end.

Record gmeta : Type := GMeta { gm_atts : list (Z * node); gm_root : node }.

(** std::string::compare : lexicographic on unsigned bytes, a proper prefix is smaller. *)
Fixpoint bytes_cmp (a b : bytes) : comparison :=
  match a, b with
  | [], [] => Eq
  | [], _ :: _ => Lt
  | _ :: _, [] => Gt
  | x :: a', y :: b' => match x ?= y with Eq => bytes_cmp a' b' | c => c end
  end.

Section Map.
  Context {V : Type}.
  (** std::map::find(k) != end() *)
  Fixpoint map_find (k : bytes) (m : list (bytes * V)) : option V :=
    match m with
    | [] => None
    | (k', v) :: m' => match bytes_cmp k k' with Eq => Some v | _ => map_find k m' end
    end.
  Definition map_mem (k : bytes) (m : list (bytes * V)) : bool :=
    match map_find k m with Some _ => true | None => false end.
  (** insert-or-overwrite at the position the ordering dictates *)
  Fixpoint map_set (k : bytes) (v : V) (m : list (bytes * V)) : list (bytes * V) :=
    match m with
    | [] => [(k, v)]
    | (k', v') :: m' =>
      match bytes_cmp k k' with
      | Eq => (k, v) :: m'
      | Lt => (k, v) :: (k', v') :: m'
      | Gt => (k', v') :: map_set k v m'
      end
    end.
End Map.

(** What the containers guarantee about any tree a caller can build: keys of each map are
    strictly ascending (hence unique). *)
Fixpoint keys_sorted {V} (m : list (bytes * V)) : bool :=
  match m with
  | [] => true
  | (k, _) :: m' =>
    match m' with
    | [] => true
    | (k', _) :: _ => match bytes_cmp k k' with Lt => keys_sorted m' | _ => false end
    end
  end.

Fixpoint node_sorted (t : node) : bool :=
  match t with
  | Node es ss =>
    keys_sorted es && keys_sorted ss &&
    (fix all (l : list (bytes * node)) : bool :=
       match l with [] => true | (_, c) :: l' => node_sorted c && all l' end) ss
  end.

(* ------------------------------------------------------------------------- encoder *)

Definition u32 (x : Z) : Z := x mod 2 ^ 32.
Definition len {A} (l : list A) : Z := Z.of_nat (length l).

(** MetadataEncoder::EncodeString: fails for size() > 255; one length byte, then the bytes. *)
Definition enc_string (s : bytes) : option bytes :=
  if len s >? 255 then None
  else if (len s =? 0) then Some [0]
  else Some (len s :: s).

(** Body of the entry loop of EncodeMetadata.
    data_size = static_cast<uint32_t>(entry_value.size()); data_size == 0 => return false;
    EncodeVarint(data_size); out_buffer->Encode(entry_value.data(), data_size). *)
Definition enc_entry (e : bytes * bytes) : option bytes :=
  let (k, v) := e in
  do kb <- enc_string k;
  let data_size := u32 (len v) in
  if data_size =? 0 then None else
  do sz <- enc_varint_u data_size;
  Some (kb ++ sz ++ firstn (Z.to_nat data_size) v).

Fixpoint enc_entries (es : list (bytes * bytes)) : option bytes :=
  match es with
  | [] => Some []
  | e :: es' => do a <- enc_entry e; do b <- enc_entries es'; Some (a ++ b)
  end.

Definition kMaxSubmetadataLevel : Z := 1000.

(** The private three-argument MetadataEncoder::EncodeMetadata(out, metadata, sub_metadata_level)
    (recursive; results of nested calls are propagated).  [lvl] = sub_metadata_level is the level
    the decoder will give to the children of [t]: non-empty sub-metadata at lvl > 1000 fail.
    num_entries() is static_cast<int>(size()), cast again to uint32_t: size mod 2^32. *)
Fixpoint enc_node_l (t : node) (lvl : Z) {struct t} : option bytes :=
  match t with
  | Node es ss =>
    do n <- enc_varint_u (u32 (len es));
    do eb <- enc_entries es;
    do m <- enc_varint_u (u32 (len ss));
    if (match ss with [] => false | _ => lvl >? kMaxSubmetadataLevel end) then None else
    do sb <- (fix enc_subs (l : list (bytes * node)) : option bytes :=
                match l with
                | [] => Some []
                | (k, c) :: l' =>
                  do kb <- enc_string k; do cb <- enc_node_l c (lvl + 1); do rb <- enc_subs l';
                  Some (kb ++ cb ++ rb)
                end) ss;
    Some (n ++ eb ++ m ++ sb)
  end.

(** The sub-metadata loop, named (equal to the local fix above by conversion). *)
Definition enc_subs (lvl : Z) : list (bytes * node) -> option bytes :=
  fix enc_subs (l : list (bytes * node)) : option bytes :=
    match l with
    | [] => Some []
    | (k, c) :: l' =>
      do kb <- enc_string k; do cb <- enc_node_l c (lvl + 1); do rb <- enc_subs l';
      Some (kb ++ cb ++ rb)
    end.

(** The public MetadataEncoder::EncodeMetadata(out, metadata) = level 0. *)
Definition enc_node (t : node) : option bytes := enc_node_l t 0.

(** EncodeAttributeMetadata: EncodeVarint(att_unique_id) (a uint32_t), then EncodeMetadata. *)
Definition enc_att (a : Z * node) : option bytes :=
  do i <- enc_varint_u (fst a); do b <- enc_node (snd a); Some (i ++ b).
Fixpoint enc_atts (l : list (Z * node)) : option bytes :=
  match l with
  | [] => Some []
  | a :: l' => do x <- enc_att a; do y <- enc_atts l'; Some (x ++ y)
  end.

(** MetadataEncoder::EncodeGeometryMetadata *)
Definition enc_geometry (g : gmeta) : option bytes :=
  do n <- enc_varint_u (u32 (len (gm_atts g)));
  do ab <- enc_atts (gm_atts g);
  do rb <- enc_node (gm_root g);
  Some (n ++ ab ++ rb).

(* ------------------------------------------------------------------------- decoder *)

(** Decoder results distinguish the C++ `return false` from exhaustion of the model's fuel
    (which the theorems show never happens). *)
Inductive res (A : Type) : Type := Ok (a : A) | Fail | OutOfFuel.
Arguments Ok {A} a.
Arguments Fail {A}.
Arguments OutOfFuel {A}.
Definition res_opt {A} (r : res A) : option A := match r with Ok a => Some a | _ => None end.

(** MetadataDecoder::DecodeName: one length byte; name->resize(len); len bytes. *)
Definition dec_name (bs : bytes) : option (bytes * bytes) :=
  match bs with
  | [] => None
  | n :: r =>
    if n =? 0 then Some ([], r)
    else if n >? len r then None
    else Some (firstn (Z.to_nat n) r, skipn (Z.to_nat n) r)
  end.

(** MetadataDecoder::DecodeEntry up to (excluding) AddEntryBinary.  The only allocation is
    std::vector<uint8_t> entry_value(data_size), made after data_size <= remaining_size(). *)
Definition dec_entry (bs : bytes) : option ((bytes * bytes) * bytes) :=
  do (k, r1) <- dec_name bs;
  do (sz, r2) <- dec_varint_u 32 r1;
  if sz =? 0 then None
  else if sz >? len r2 then None
  else Some ((k, firstn (Z.to_nat sz) r2), skipn (Z.to_nat sz) r2).

(** for (i < num_entries) DecodeEntry(metadata): no guard on the count, each iteration
    fails when the buffer runs out; every iteration consumes at least one byte, so
    fuel = remaining + 1 is never exhausted. *)
Fixpoint dec_entries (fuel : nat) (n : Z) (acc : list (bytes * bytes)) (bs : bytes)
  : res (list (bytes * bytes) * bytes) :=
  if n <=? 0 then Ok (acc, bs) else
  match fuel with
  | O => OutOfFuel
  | S f =>
    match dec_entry bs with
    | None => Fail
    | Some ((k, v), r) => dec_entries f (n - 1) (map_set k v acc) r
    end
  end.

(** --- first decoder model: recursion that reads in the same order as the work-list loop and
    applies the same checks at the same points. *)

(** The [n] pending children of one node, all with the same [level]: level check, name,
    AddSubMetadata (fails on a duplicate name), then the child's content ([dn]). *)
Fixpoint dec_subs (dn : bytes -> res (node * bytes)) (level : Z) (n : nat)
         (acc : list (bytes * node)) (bs : bytes) : res (list (bytes * node) * bytes) :=
  match n with
  | O => Ok (acc, bs)
  | S n' =>
    if level >? kMaxSubmetadataLevel then Fail else
    match dec_name bs with
    | None => Fail
    | Some (k, r) =>
      if map_mem k acc then Fail else
      match dn r with
      | Ok (c, r') => dec_subs dn level n' (map_set k c acc) r'
      | Fail => Fail
      | OutOfFuel => OutOfFuel
      end
    end
  end.

(** Content of one metadata object whose children will carry level [clevel]
    (the root's children get level 0, a child of level l passes l + 1 to its children). *)
Fixpoint dec_node (fuel : nat) (clevel : Z) (bs : bytes) : res (node * bytes) :=
  match fuel with
  | O => OutOfFuel
  | S f =>
    match dec_varint_u 32 bs with
    | None => Fail
    | Some (ne, r1) =>
      match dec_entries (S (length r1)) ne [] r1 with
      | Ok (es, r2) =>
        match dec_varint_u 32 r2 with
        | None => Fail
        | Some (ns, r3) =>
          if ns >? len r3 then Fail else
          match dec_subs (dec_node f (clevel + 1)) clevel (Z.to_nat ns) [] r3 with
          | Ok (ss, r4) => Ok (Node es ss, r4)
          | Fail => Fail
          | OutOfFuel => OutOfFuel
          end
        end
      | Fail => Fail
      | OutOfFuel => OutOfFuel
      end
    end
  end.

(** Nesting is cut by the level check after 1002 objects on a path, so this fuel is never
    exhausted ([dec_node_rec_fuel_ok]). *)
Definition dec_node_rec (bs : bytes) : res (node * bytes) := dec_node 1003 0 bs.

(** --- second decoder model: the private one-argument MetadataDecoder::DecodeMetadata as written, an
    explicit LIFO work list of {parent_metadata, decoded_metadata, level}.  A pointer to a
    Metadata object inside the tree under construction is modelled by its path from the root
    (objects owned by unique_ptr inside a std::map never move).  The first frame is
    {nullptr, root, 0} = (None, 0); all later frames are {parent, nullptr, level}. *)
Definition path := list bytes.
Definition frame := (option path * Z)%type.

Fixpoint node_at (p : path) (t : node) : option node :=
  match p with
  | [] => Some t
  | k :: p' => match map_find k (node_subs t) with Some c => node_at p' c | None => None end
  end.

(** Writing through a pointer: the object found under key [k] (first match, as [map_find]) is
    replaced in place by [f] of it; the map itself is not reorganised. *)
Fixpoint map_upd {V} (k : bytes) (f : V -> option V) (m : list (bytes * V)) : option (list (bytes * V)) :=
  match m with
  | [] => None
  | (k', v) :: m' =>
    match bytes_cmp k k' with
    | Eq => match f v with Some v' => Some ((k', v') :: m') | None => None end
    | _ => match map_upd k f m' with Some m'' => Some ((k', v) :: m'') | None => None end
    end
  end.

(** Apply [f] to the object at path [p] (None: dangling path, or [f] refuses). *)
Fixpoint upd_at (p : path) (f : node -> option node) (t : node) : option node :=
  match p with
  | [] => f t
  | k :: p' =>
    match t with
    | Node es ss =>
      match map_upd k (upd_at p' f) ss with
      | Some ss' => Some (Node es ss')
      | None => None
      end
    end
  end.

(** parent->AddSubMetadata(name, new Metadata()) : false when the name exists. *)
Definition add_sub (k : bytes) (t : node) : option node :=
  match t with Node es ss => if map_mem k ss then None else Some (Node es (map_set k (Node [] []) ss)) end.
(** metadata->AddEntryBinary(name, value) *)
Definition add_entry (k v : bytes) (t : node) : option node :=
  match t with Node es ss => Some (Node (map_set k v es) ss) end.

Fixpoint dec_entries_at (fuel : nat) (n : Z) (cur : path) (root : node) (bs : bytes)
  : res (node * bytes) :=
  if n <=? 0 then Ok (root, bs) else
  match fuel with
  | O => OutOfFuel
  | S f =>
    match dec_entry bs with
    | None => Fail
    | Some ((k, v), r) =>
      match upd_at cur (add_entry k v) root with
      | None => Fail
      | Some root' => dec_entries_at f (n - 1) cur root' r
      end
    end
  end.

(** One iteration of the while loop after the pop of frame (par, level); [stk'] is the rest of
    the work list (head of the list = back of the std::vector).  Returns the new tree, work
    list and remaining input. *)
Definition stack_step (root : node) (par : option path) (level : Z) (stk' : list frame) (bs : bytes)
  : res (node * list frame * bytes) :=
  let start : res (node * path * bytes) :=
    match par with
    | None => Ok (root, [], bs)             (* metadata = mp.decoded_metadata (the root) *)
    | Some p =>
      if level >? kMaxSubmetadataLevel then Fail else
      match dec_name bs with
      | None => Fail
      | Some (k, r) =>
        match upd_at p (add_sub k) root with
        | None => Fail
        | Some root' => Ok (root', p ++ [k], r)
        end
      end
    end in
  match start with
  | Ok (root1, cur, r0) =>
    match dec_varint_u 32 r0 with
    | None => Fail
    | Some (ne, r1) =>
      match dec_entries_at (S (length r1)) ne cur root1 r1 with
      | Ok (root2, r2) =>
        match dec_varint_u 32 r2 with
        | None => Fail
        | Some (ns, r3) =>
          if ns >? len r3 then Fail else
          let child_level := match par with Some _ => level + 1 | None => level end in
          Ok (root2, repeat (Some cur, child_level) (Z.to_nat ns) ++ stk', r3)
        end
      | Fail => Fail
      | OutOfFuel => OutOfFuel
      end
    end
  | Fail => Fail
  | OutOfFuel => OutOfFuel
  end.

(** while (!metadata_stack.empty()) *)
Fixpoint stack_loop (fuel : nat) (root : node) (stk : list frame) (bs : bytes)
  : res (node * bytes) :=
  match stk with
  | [] => Ok (root, bs)
  | (par, level) :: stk' =>
    match fuel with
    | O => OutOfFuel
    | S f =>
      match stack_step root par level stk' bs with
      | Ok (root2, stk2, r3) => stack_loop f root2 stk2 r3
      | Fail => Fail
      | OutOfFuel => OutOfFuel
      end
    end
  end.

(** Every iteration consumes at least two bytes or fails: fuel = remaining + 1 suffices. *)
Definition dec_node_stack (bs : bytes) : res (node * bytes) :=
  stack_loop (S (length bs)) (Node [] []) [(None, 0)] bs.

(** MetadataDecoder::DecodeGeometryMetadata over a decoder [dn] for one Metadata object.
    for (i < num_att_metadata): varint id, DecodeMetadata, AddAttributeMetadata (push_back). *)
Fixpoint dec_atts (dn : bytes -> res (node * bytes)) (fuel : nat) (n : Z) (bs : bytes)
  : res (list (Z * node) * bytes) :=
  if n <=? 0 then Ok ([], bs) else
  match fuel with
  | O => OutOfFuel
  | S f =>
    match dec_varint_u 32 bs with
    | None => Fail
    | Some (id, r1) =>
      match dn r1 with
      | Ok (t, r2) =>
        match dec_atts dn f (n - 1) r2 with
        | Ok (l, r3) => Ok ((id, t) :: l, r3)
        | Fail => Fail
        | OutOfFuel => OutOfFuel
        end
      | Fail => Fail
      | OutOfFuel => OutOfFuel
      end
    end
  end.

Definition dec_geometry_with (dn : bytes -> res (node * bytes)) (bs : bytes) : res (gmeta * bytes) :=
  match dec_varint_u 32 bs with
  | None => Fail
  | Some (na, r1) =>
    match dec_atts dn (S (length r1)) na r1 with
    | Ok (atts, r2) =>
      match dn r2 with
      | Ok (root, r3) => Ok (GMeta atts root, r3)
      | Fail => Fail
      | OutOfFuel => OutOfFuel
      end
    | Fail => Fail
    | OutOfFuel => OutOfFuel
    end
  end.

Definition dec_geometry_rec := dec_geometry_with dec_node_rec.
Definition dec_geometry_stack := dec_geometry_with dec_node_stack.

(** The [option]-shaped decoders used by [roundtrips] statements. *)
Definition dec_geometry (bs : bytes) : option (gmeta * bytes) := res_opt (dec_geometry_stack bs).
Definition dec_geometry_r (bs : bytes) : option (gmeta * bytes) := res_opt (dec_geometry_rec bs).

(** Allocation requests (for C02/C18): sizes the decoder asks for, given the bytes remaining
    at the point of the request.  DecodeEntry: entry_value(data_size); DecodeName:
    name->resize(name_len) (at most 255, before the bytes are known to be present);
    DecodeMetadata: num_sub_metadata push_backs. *)
Definition entry_alloc (bs : bytes) : option (Z * Z) :=   (* (requested, remaining) *)
  do (k, r1) <- dec_name bs;
  do (sz, r2) <- dec_varint_u 32 r1;
  if sz =? 0 then None else if sz >? len r2 then None else Some (sz, len r2).
