(** TRAVS (sub-check of C01, Edgebreaker attribute layer): model of the ATTRIBUTE TRAVERSAL that produces the maps the
    mesh prediction schemes consume (Model/Predict.v takes them as input).

    Sources, read line by line (function names cited at each definition):
      compression/mesh/traverser/traverser_base.h                         Init, IsFaceVisited, Mark…
      compression/mesh/traverser/depth_first_traverser.h                  DepthFirstTraverser::TraverseFromCorner
      compression/mesh/traverser/max_prediction_degree_traverser.h        MaxPredictionDegreeTraverser::…
      compression/mesh/traverser/mesh_traversal_sequencer.h               GenerateSequenceInternal
      compression/mesh/traverser/mesh_attribute_indices_encoding_observer.h  OnNewVertexVisited
      compression/attributes/points_sequencer.h                           AddPointId
      compression/attributes/mesh_attribute_indices_encoding_data.h       Init
      compression/mesh/mesh_edgebreaker_{en,de}coder_impl.cc              GenerateAttributesEncoder / CreateAttributesDecoder
      mesh/corner_table.h, mesh/mesh_attribute_corner_table.h             the interface the traversers use

    The corner table interface.  Both traversers are templates over CornerTableT and use only
      Next / Previous (arithmetic on the corner id), Vertex(c), Opposite(c) (through GetRightCorner(c) =
      Opposite(Next(c)) and GetLeftCorner(c) = Opposite(Previous(c))), LeftMostCorner(v) and SwingLeft (through
      IsOnBoundary(v)), num_faces(), num_vertices().
    [ttable] holds exactly these arrays, so one model covers
      - CornerTable:               Vertex = corner_to_vertex_map_, Opposite = opposite_corners_, LeftMostCorner =
                                   vertex_corners_                                       ([tt_of_ct])
      - MeshAttributeCornerTable:  Vertex = its own corner_to_vertex_map_ (attribute vertex ids; corners of degenerate
                                   faces keep kInvalidVertexIndex, see RecomputeVerticesInternal), Opposite = the
                                   base table's Opposite CUT at seam edges (IsCornerOppositeToSeamEdge), LeftMostCorner
                                   = vertex_to_left_most_corner_map_                      ([tt_of_att]).
    kInvalidCornerIndex / kInvalidVertexIndex are [None].

    Results.  [ROk] = the C++ ran to the end (for TraverseFromCorner: returned true); [RFalse] = the C++ returned false
    (only the `== kInvalidVertexIndex` tests of the depth-first traverser); [RErr] = the C++ would index an array out
    of range (vector<bool>::operator[] / std::vector::operator[] unchecked: undefined behaviour); [RFuel] = the
    model's fuel ran out (a loop the C++ would not leave).  The theorems exclude the last three under the stated
    table invariants.  Indices are [nat] (array positions); entry ids stored in the int32 map are [Z] (num_values is an
    int: faithful while the number of entries stays below 2^31, i.e. always for tables that fit in memory). *)
From Coq Require Import List Arith Bool PeanoNat ZArith.
From Draco Require Import Model.CornerTable.
Import ListNotations.

Inductive res (A : Type) : Type :=
| ROk (a : A)
| RFalse
| RErr
| RFuel.
Arguments ROk {A} a.
Arguments RFalse {A}.
Arguments RErr {A}.
Arguments RFuel {A}.

Definition rbind {A B} (r : res A) (f : A -> res B) : res B :=
  match r with ROk a => f a | RFalse => RFalse | RErr => RErr | RFuel => RFuel end.
Notation "x <- r ;; k" := (rbind r (fun x => k)) (at level 61, r at next level, right associativity).

(** an array read: out of range = [RErr] *)
Definition rd {A} (l : list A) (i : nat) : res A :=
  match nth_error l i with Some a => ROk a | None => RErr end.
(** an array write: out of range = [RErr] *)
Definition wr {A} (l : list A) (i : nat) (x : A) : res (list A) :=
  if i <? length l then ROk (upd l i x) else RErr.

(** * The corner table seen by the traversers *)
Record ttable := mk_tt {
  tt_c2v : list (option nat);   (* Vertex(c) *)
  tt_opp : list (option nat);   (* Opposite(c) *)
  tt_lmc : list (option nat)    (* LeftMostCorner(v); num_vertices() = its length *)
}.
Definition tt_num_corners (t : ttable) : nat := length (tt_c2v t).
Definition tt_num_faces (t : ttable) : nat := length (tt_c2v t) / 3.
Definition tt_num_vertices (t : ttable) : nat := length (tt_lmc t).

(** CornerTable as built by Create (Model/CornerTable.v): every stored vertex id is valid *)
Definition tt_of_ct (t : ctable) : ttable := mk_tt (map Some (ct_c2v t)) (ct_opp t) (ct_vcorn t).

(** MeshAttributeCornerTable::Opposite: `if (corner == kInvalid || IsCornerOppositeToSeamEdge(corner)) return kInvalid;
    return corner_table_->Opposite(corner)` *)
Fixpoint cut_seams (opp : list (option nat)) (seam : list bool) : list (option nat) :=
  match opp, seam with
  | o :: r, s :: rs => (if s then None else o) :: cut_seams r rs
  | _, _ => []
  end.
(** [seam] = is_edge_on_seam_, [ac2v] = corner_to_vertex_map_, [almc] = vertex_to_left_most_corner_map_ *)
Definition tt_of_att (base : ctable) (seam : list bool) (ac2v almc : list (option nat)) : ttable :=
  mk_tt ac2v (cut_seams (ct_opp base) seam) almc.

(** Vertex(c): an id stored in the array; for a valid corner the C++ reads corner_to_vertex_map_[c] unchecked *)
Definition t_vertex (t : ttable) (c : nat) : res (option nat) := rd (tt_c2v t) c.
Definition t_opposite (t : ttable) (c : nat) : res (option nat) := rd (tt_opp t) c.
(** GetRightCorner(c) = Opposite(Next(c)),  GetLeftCorner(c) = Opposite(Previous(c)) *)
Definition t_right (t : ttable) (c : nat) : res (option nat) := t_opposite t (next_c c).
Definition t_left (t : ttable) (c : nat) : res (option nat) := t_opposite t (prev_c c).
(** IsOnBoundary(v): corner = LeftMostCorner(v); SwingLeft(corner) == kInvalidCornerIndex
    (SwingLeft(kInvalid) = kInvalid in CornerTable; MeshAttributeCornerTable tests `corner == kInvalid` first) *)
Definition t_on_boundary (t : ttable) (v : nat) : res bool :=
  l <- rd (tt_lmc t) v ;;
  match l with
  | None => ROk true
  | Some lc =>
    o <- t_opposite t (next_c lc) ;;
    ROk (match o with None => true | Some _ => false end)
  end.

(** * Traverser state = TraverserBase + the observer's outputs *)
Record tstate := mk_ts {
  ts_fvis : list bool;   (* is_face_visited_ *)
  ts_vvis : list bool;   (* is_vertex_visited_ *)
  ts_d2c : list nat;     (* encoding_data->encoded_attribute_value_index_to_corner_map (push_back order) *)
  ts_v2d : list Z;       (* encoding_data->vertex_to_encoded_attribute_value_index_map *)
  ts_pts : list nat;     (* the PointsSequencer's out_point_ids (AddPointId order) *)
  ts_num : nat           (* encoding_data->num_values *)
}.

(** TraverserBase::IsFaceVisited(FaceIndex) / (CornerIndex): invalid = visited *)
Definition face_visited (s : tstate) (c : option nat) : res bool :=
  match c with
  | None => ROk true
  | Some c => rd (ts_fvis s) (c / 3)
  end.
(** MarkFaceVisited(face_id); OnNewFaceVisited(face) does nothing in this observer *)
Definition mark_face (s : tstate) (f : nat) : res tstate :=
  fv <- wr (ts_fvis s) f true ;;
  ROk (mk_ts fv (ts_vvis s) (ts_d2c s) (ts_v2d s) (ts_pts s) (ts_num s)).

(** MeshAttributeIndicesEncodingObserver::OnNewVertexVisited(vertex, corner), after MarkVertexVisited(vertex):
      point_id = mesh_->face(corner / 3)[corner % 3];  sequencer_->AddPointId(point_id);
      encoded_attribute_value_index_to_corner_map.push_back(corner);
      vertex_to_encoded_attribute_value_index_map[vertex] = num_values;  num_values++;
    [c2p] = the mesh's corner -> point id table (3 per face). *)
Definition new_vertex (c2p : list nat) (s : tstate) (v c : nat) : res tstate :=
  vv <- wr (ts_vvis s) v true ;;
  p <- rd c2p c ;;
  vd <- wr (ts_v2d s) v (Z.of_nat (ts_num s)) ;;
  ROk (mk_ts (ts_fvis s) vv (ts_d2c s ++ [c]) vd (ts_pts s ++ [p]) (S (ts_num s))).

(** `if (!IsVertexVisited(v)) { MarkVertexVisited(v); OnNewVertexVisited(v, c); }` *)
Definition visit_vertex (c2p : list nat) (s : tstate) (v c : nat) : res tstate :=
  b <- rd (ts_vvis s) v ;;
  if b then ROk s else new_vertex c2p s v c.

(** Vertex(c) of a corner that must be valid for the code to go on: depth-first `return false` on kInvalidVertexIndex *)
Definition vertex_or_false (t : ttable) (c : nat) : res nat :=
  o <- t_vertex t c ;;
  match o with Some v => ROk v | None => RFalse end.

(** * DepthFirstTraverser::TraverseFromCorner

    [stack] = corner_traversal_stack_, top first.  Every pushed corner passed a `!IsFaceVisited(face)` test, which is
    false for kInvalidCornerIndex, so the stack never holds the invalid corner (`corner_id == kInvalidCornerIndex ||`
    at the loop head is dead) and the model's stack is a [list nat].
    [cur = None]: at the head of `while (!corner_traversal_stack_.empty())`;
    [cur = Some c]: at the head of `while (true)` with corner_id = c (face_id = c / 3).
    One unit of fuel per loop head reached. *)
(** what one pass through the body of `while (true)` decides *)
Inductive dfs_next : Type :=
| DCont (c : nat)        (* corner_id = c; continue / next iteration *)
| DPop                   (* corner_traversal_stack_.pop_back(); break *)
| DSplit (r l : nat).    (* corner_traversal_stack_.back() = l; push_back(r); break *)

(** one pass through the body of `while (true)` with corner_id = c, face_id = c / 3 *)
Definition dfs_step (t : ttable) (c2p : list nat) (s : tstate) (c : nat) : res (tstate * dfs_next) :=
  s1 <- mark_face s (c / 3) ;;
  v <- vertex_or_false t c ;;
  vis <- rd (ts_vvis s1) v ;;
  (* `if (!IsVertexVisited(vert_id))`: [Some c'] = the code reaches the `continue` with corner_id = c' *)
  r <- (if vis then ROk (s1, None)
        else
          onb <- t_on_boundary t v ;;
          s2 <- new_vertex c2p s1 v c ;;
          if onb then ROk (s2, None)
          else
            rc <- t_right t c ;;
            match rc with
            | Some c' => ROk (s2, Some c')
            | None => RErr     (* face_id = kInvalid / 3; the next MarkFaceVisited writes out of range *)
            end) ;;
  match r with
  | (s2, Some c') => ROk (s2, DCont c')
  | (s2, None) =>
    rc <- t_right t c ;;
    lc <- t_left t c ;;
    rv <- face_visited s2 rc ;;
    lv <- face_visited s2 lc ;;
    if rv then
      if lv then ROk (s2, DPop)
      else match lc with Some c' => ROk (s2, DCont c') | None => RErr end
    else
      if lv then match rc with Some c' => ROk (s2, DCont c') | None => RErr end
      else match lc, rc with
           | Some l, Some r' => ROk (s2, DSplit r' l)
           | _, _ => RErr
           end
  end.

Fixpoint dfs_loop (fuel : nat) (t : ttable) (c2p : list nat) (s : tstate) (stack : list nat) (cur : option nat)
  : res tstate :=
  match fuel with
  | O => RFuel
  | S k =>
    match cur with
    | None =>
      match stack with
      | [] => ROk s
      | c :: rest =>
        fv <- face_visited s (Some c) ;;
        if fv then dfs_loop k t c2p s rest None         (* pop_back(); continue *)
        else dfs_loop k t c2p s stack (Some c)
      end
    | Some c =>
      sn <- dfs_step t c2p s c ;;
      match sn with
      | (s2, DCont c') => dfs_loop k t c2p s2 stack (Some c')
      | (s2, DPop) => dfs_loop k t c2p s2 (tl stack) None
      | (s2, DSplit r l) => dfs_loop k t c2p s2 (r :: l :: tl stack) None
      end
    end
  end.

(** fuel for one call: 4 per unvisited face + 4 (see [dfs_fuel_enough]) *)
Definition dfs_fuel (t : ttable) : nat := 4 * tt_num_faces t + 4.

Definition dfs_traverse_from (t : ttable) (c2p : list nat) (s : tstate) (c : nat) : res tstate :=
  fv <- face_visited s (Some c) ;;
  if fv then ROk s                                   (* already traversed *)
  else
    nv <- t_vertex t (next_c c) ;;
    pv <- t_vertex t (prev_c c) ;;
    match nv, pv with
    | Some nv, Some pv =>
      s1 <- visit_vertex c2p s nv (next_c c) ;;
      s2 <- visit_vertex c2p s1 pv (prev_c c) ;;
      dfs_loop (dfs_fuel t) t c2p s2 [c] None
    | _, _ => RFalse
    end.

(** * MaxPredictionDegreeTraverser

    (Its base class is TraverserBase<CornerTable, …> with the *global* CornerTable, whatever CornerTableT is: it can
    only be instantiated for the position corner table, and the coders only do that.)
    Extra state: traversal_stacks_[3] (top first), best_priority_, prediction_degree_.  They are members: they
    persist from one TraverseFromCorner call to the next. *)
Record mstate := mk_ms {
  ms_ts : tstate;
  ms_s0 : list nat; ms_s1 : list nat; ms_s2 : list nat;   (* traversal_stacks_[0..2] *)
  ms_best : nat;                                            (* best_priority_ *)
  ms_deg : list nat                                         (* prediction_degree_ *)
}.
Definition ms_set_ts (m : mstate) (s : tstate) : mstate :=
  mk_ms s (ms_s0 m) (ms_s1 m) (ms_s2 m) (ms_best m) (ms_deg m).

(** PopNextCornerToTraverse: `for (i = best_priority_; i < kMaxPriority; ++i) if (!traversal_stacks_[i].empty())
    { ret = back(); pop_back(); best_priority_ = i; return ret; }  return kInvalidCornerIndex;` *)
Definition mpd_pop (m : mstate) : option nat * mstate :=
  let try2 :=
    match ms_s2 m with
    | c :: r => (Some c, mk_ms (ms_ts m) (ms_s0 m) (ms_s1 m) r 2 (ms_deg m))
    | [] => (None, m)
    end in
  let try1 :=
    match ms_s1 m with
    | c :: r => (Some c, mk_ms (ms_ts m) (ms_s0 m) r (ms_s2 m) 1 (ms_deg m))
    | [] => try2
    end in
  let try0 :=
    match ms_s0 m with
    | c :: r => (Some c, mk_ms (ms_ts m) r (ms_s1 m) (ms_s2 m) 0 (ms_deg m))
    | [] => try1
    end in
  match ms_best m with
  | 0 => try0
  | 1 => try1
  | 2 => try2
  | _ => (None, m)
  end.

(** AddCornerToTraversalStack(ci, priority); priority is 0, 1 or 2 ([mpd_priority]) *)
Definition mpd_add (m : mstate) (c : nat) (prio : nat) : mstate :=
  let best := if prio <? ms_best m then prio else ms_best m in
  match prio with
  | 0 => mk_ms (ms_ts m) (c :: ms_s0 m) (ms_s1 m) (ms_s2 m) best (ms_deg m)
  | 1 => mk_ms (ms_ts m) (ms_s0 m) (c :: ms_s1 m) (ms_s2 m) best (ms_deg m)
  | _ => mk_ms (ms_ts m) (ms_s0 m) (ms_s1 m) (c :: ms_s2 m) best (ms_deg m)
  end.

(** ComputePriority(corner_id): `v_tip = Vertex(corner_id); priority = 0; if (!IsVertexVisited(v_tip)) { degree =
    ++prediction_degree_[v_tip]; priority = degree > 1 ? 1 : 2; }` (the clamp to kMaxPriority - 1 = 2 never acts).
    No test for kInvalidVertexIndex: is_vertex_visited_[0xFFFFFFFF] would be out of range ([RErr]). *)
Definition mpd_priority (t : ttable) (m : mstate) (c : nat) : res (nat * mstate) :=
  o <- t_vertex t c ;;
  match o with
  | None => RErr
  | Some v =>
    vis <- rd (ts_vvis (ms_ts m)) v ;;
    if vis then ROk (0, m)
    else
      d <- rd (ms_deg m) v ;;
      dg <- wr (ms_deg m) v (S d) ;;
      ROk (if 1 <? S d then 1 else 2, mk_ms (ms_ts m) (ms_s0 m) (ms_s1 m) (ms_s2 m) (ms_best m) dg)
  end.

Definition mpd_visit (t : ttable) (c2p : list nat) (s : tstate) (c : nat) : res tstate :=
  o <- t_vertex t c ;;
  match o with
  | None => RErr
  | Some v => visit_vertex c2p s v c
  end.

(** one pass through the body of `while (true)` with corner_id = c: [Some c'] = `corner_id = c'; continue`,
    [None] = break *)
Definition mpd_step (t : ttable) (c2p : list nat) (m : mstate) (c : nat) : res (mstate * option nat) :=
  s1 <- mark_face (ms_ts m) (c / 3) ;;
  s2 <- mpd_visit t c2p s1 c ;;
  let m2 := ms_set_ts m s2 in
  rc <- t_right t c ;;
  lc <- t_left t c ;;
  rv <- face_visited s2 rc ;;
  lv <- face_visited s2 lc ;;
  (* `if (!is_left_face_visited)` *)
  r1 <- (if lv then ROk (m2, None)
         else match lc with
              | None => RErr
              | Some l =>
                pm <- mpd_priority t m2 l ;;
                let '(p, m3) := pm in
                if rv && (p <=? ms_best m3) then ROk (m3, Some l)
                else ROk (mpd_add m3 l p, None)
              end) ;;
  match r1 with
  | (m3, Some c') => ROk (m3, Some c')
  | (m3, None) =>
    (* `if (!is_right_face_visited)` *)
    if rv then ROk (m3, None)
    else match rc with
         | None => RErr
         | Some r' =>
           pm <- mpd_priority t m3 r' ;;
           let '(p, m4) := pm in
           if p <=? ms_best m4 then ROk (m4, Some r')
           else ROk (mpd_add m4 r' p, None)
         end
  end.

(** the two loops of TraverseFromCorner; [cur = None]: head of `while ((corner_id = Pop…()) != kInvalid)`,
    [cur = Some c]: head of `while (true)` *)
Fixpoint mpd_loop (fuel : nat) (t : ttable) (c2p : list nat) (m : mstate) (cur : option nat) : res mstate :=
  match fuel with
  | O => RFuel
  | S k =>
    match cur with
    | None =>
      match mpd_pop m with
      | (None, m') => ROk m'
      | (Some c, m') =>
        fv <- face_visited (ms_ts m') (Some c) ;;
        if fv then mpd_loop k t c2p m' None else mpd_loop k t c2p m' (Some c)
      end
    | Some c =>
      mn <- mpd_step t c2p m c ;;
      mpd_loop k t c2p (fst mn) (snd mn)
    end
  end.

Definition mpd_fuel (t : ttable) (m : mstate) : nat :=
  4 * tt_num_faces t + length (ms_s0 m) + length (ms_s1 m) + length (ms_s2 m) + 4.

(** TraverseFromCorner: no face-visited test at the start; the three vertices of the start face are visited
    (next, previous, tip), then the loops run *)
Definition mpd_traverse_from (t : ttable) (c2p : list nat) (m : mstate) (c : nat) : res mstate :=
  match ms_deg m with
  | [] => ROk m                                       (* prediction_degree_.size() == 0 *)
  | _ =>
    let m1 := mk_ms (ms_ts m) (c :: ms_s0 m) (ms_s1 m) (ms_s2 m) 0 (ms_deg m) in
    s1 <- mpd_visit t c2p (ms_ts m1) (next_c c) ;;
    s2 <- mpd_visit t c2p s1 (prev_c c) ;;
    s3 <- mpd_visit t c2p s2 c ;;
    let m2 := ms_set_ts m1 s3 in
    mpd_loop (mpd_fuel t m2) t c2p m2 None
  end.

(** * MeshTraversalSequencer::GenerateSequenceInternal

    TraverserBase::Init: is_face_visited_.assign(num_faces, false); is_vertex_visited_.assign(num_vertices, false).
    [v2d0] = vertex_to_encoded_attribute_value_index_map as the coder prepared it:
      encoder ([enc_v2d0]): assign(num_vertices of the table used, -1)    (EncodeConnectivity / GenerateAttributesEncoder)
      decoder ([dec_v2d0]): MeshAttributeIndicesEncodingData::Init = resize(n) of an empty vector: n zeros, n =
        max(position table vertices, attribute table vertices)             (DecodeConnectivity)
    encoded_attribute_value_index_to_corner_map is empty and num_values = 0 on both sides. *)
Definition enc_v2d0 (nv : nat) : list Z := repeat (-1)%Z nv.
Definition dec_v2d0 (n : nat) : list Z := repeat 0%Z n.

Definition init_state (t : ttable) (v2d0 : list Z) : tstate :=
  mk_ts (repeat false (tt_num_faces t)) (repeat false (tt_num_vertices t)) [] v2d0 [] 0.

(** the corners handed to ProcessCorner: corner_order_ when set (SetCornerOrder), else FirstCorner of every face *)
Definition seq_corners (t : ttable) (order : option (list nat)) : list nat :=
  match order with
  | Some l => l
  | None => map (fun i => 3 * i) (seq 0 (tt_num_faces t))
  end.

Fixpoint dfs_run (t : ttable) (c2p : list nat) (s : tstate) (cs : list nat) : res tstate :=
  match cs with
  | [] => ROk s
  | c :: r => s' <- dfs_traverse_from t c2p s c ;; dfs_run t c2p s' r
  end.
Fixpoint mpd_run (t : ttable) (c2p : list nat) (m : mstate) (cs : list nat) : res mstate :=
  match cs with
  | [] => ROk m
  | c :: r => m' <- mpd_traverse_from t c2p m c ;; mpd_run t c2p m' r
  end.

(** MESH_TRAVERSAL_DEPTH_FIRST (OnTraversalStart/End do nothing) *)
Definition dfs_sequence (t : ttable) (c2p : list nat) (v2d0 : list Z) (order : option (list nat)) : res tstate :=
  dfs_run t c2p (init_state t v2d0) (seq_corners t order).
(** MESH_TRAVERSAL_PREDICTION_DEGREE; OnTraversalStart: prediction_degree_.resize(num_vertices, 0) *)
Definition mpd_sequence (t : ttable) (c2p : list nat) (v2d0 : list Z) (order : option (list nat)) : res tstate :=
  m <- mpd_run t c2p (mk_ms (init_state t v2d0) [] [] [] 0 (repeat 0 (tt_num_vertices t))) (seq_corners t order) ;;
  ROk (ms_ts m).

(** * Which corner order each side uses (MeshEdgebreakerEncoderImpl::EncodeConnectivity / the decoder)

    Encoder.  EncodeConnectivityFromCorner pushes the tip corner of every face it encodes to
    processed_connectivity_corners_ (symbol order); a component that starts with an interior configuration
    additionally pushes Next(start corner) of its initial face to init_face_connectivity_corners.  After all
    components:   reverse(processed_connectivity_corners_);  append init_face_connectivity_corners (in order).
    This list is handed to SetCornerOrder for every attribute (both table kinds, both traversal methods).
    Decoder.  No corner order: faces 0, 1, … of ITS corner table, corner 3 * i.  Its face i is created by the i-th
    decoded symbol — symbols are decoded in reverse encoder order —, corner 3 * i being the tip; the initial faces of
    interior-configuration components are created after all symbols, in the encoder's component order.
    So decoder corner 3 * i + k corresponds to encoder corner Next^k ([eb_corner_order] [i]); the decoder's table is
    the encoder's table with faces renumbered and rotated that way, vertices renumbered; degenerate faces (never
    encoded) are absent.  [Properties_TRAVS] states agreement for equal tables and equal order; the harness validates
    the correspondence on the real coders. *)
Definition eb_corner_order (processed init_faces : list nat) : list nat := rev processed ++ init_faces.
Definition eb_decoder_order (num_faces : nat) : list nat := map (fun i => 3 * i) (seq 0 num_faces).
(** decoder corner -> encoder corner under that correspondence *)
Definition eb_corner_map (order : list nat) (c : nat) : option nat :=
  match nth_error order (c / 3) with
  | None => None
  | Some e => Some (match c mod 3 with 0 => e | 1 => next_c e | _ => prev_c e end)
  end.

(** * What the prediction schemes receive (MeshPredictionSchemeData::Set(mesh, table, &data_to_corner_map,
      &vertex_to_data_map)) is built in Properties (it needs Model/Predict.v's record). *)

(** * Executable check of the table invariants the theorems assume ([tt_ok] in Proofs), run by the driver on every
      real table of the harness.  A face is degenerate when two of its corners have the same vertex or one has none. *)
Definition tt_deg (t : ttable) (f : nat) : bool :=
  match nth (3 * f) (tt_c2v t) None, nth (3 * f + 1) (tt_c2v t) None, nth (3 * f + 2) (tt_c2v t) None with
  | Some a, Some b, Some c => (a =? b) || (a =? c) || (b =? c)
  | _, _, _ => true
  end.
Definition ovtx_eqb (a b : option nat) : bool :=
  match a, b with Some x, Some y => x =? y | None, None => true | _, _ => false end.
Definition tt_ok_corner (t : ttable) (c : nat) : bool :=
  let V := fun x => nth x (tt_c2v t) None in
  (match nth c (tt_opp t) None with
   | None => true
   | Some b =>
     (b <? length (tt_c2v t)) && negb (tt_deg t (c / 3)) &&
     (match nth b (tt_opp t) None with Some a => a =? c | None => false end) &&
     ovtx_eqb (V (next_c c)) (V (prev_c b)) && ovtx_eqb (V (prev_c c)) (V (next_c b))
   end) &&
  (match V c with
   | None => true
   | Some v =>
     (v <? length (tt_lmc t)) &&
     (tt_deg t (c / 3) ||
      match nth v (tt_lmc t) None with
      | None => true
      | Some l =>
        match nth (next_c l) (tt_opp t) None with
        | None => true                                       (* on the boundary *)
        | Some _ => match nth (next_c c) (tt_opp t) None with Some _ => true | None => false end
        end
      end)
   end).
Definition tt_okb (t : ttable) : bool :=
  (length (tt_opp t) =? length (tt_c2v t)) && (length (tt_c2v t) mod 3 =? 0) &&
  forallb (tt_ok_corner t) (seq 0 (length (tt_c2v t))) &&
  forallb (fun o => match o with Some l => l <? length (tt_c2v t) | None => true end) (tt_lmc t).
