(** Models of compression/bit_coders: RAnsBitEncoder/Decoder, AdaptiveRAnsBitEncoder/Decoder,
    DirectBitEncoder/Decoder, FoldedBit32Encoder/Decoder.

    All coders are modelled at the level of the logical bit sequence: EncodeBit appends one bit,
    EncodeLeastSignificantBits32(n, v) appends the n low bits of v, most significant first (that is
    what every decoder's "result = (result << 1) + bit" loop assumes).  The 32-bit word packing inside
    the encoders (ReverseBits32, CopyBits32, local_bits_) is tied to this by the correspondence check. *)
From Draco Require Import Base.Codec Gen.Constants Model.Varint Model.Ans.
Local Open Scope Z_scope.

(** ** Logical bits *)
Fixpoint bits_msb (n : nat) (v : Z) : list bool :=
  match n with
  | O => []
  | S k => Z.testbit v (Z.of_nat k) :: bits_msb k v
  end.
Definition val_msb (bits : list bool) : Z :=
  fold_left (fun acc (b : bool) => 2 * acc + (if b then 1 else 0)) bits 0.

Inductive bop := OBit (b : bool) | OLsb (n : nat) (v : Z).
Definition bits_of_op (o : bop) : list bool :=
  match o with OBit b => [b] | OLsb n v => bits_msb n v end.
Definition flatten (ops : list bop) : list bool := concat (map bits_of_op ops).

(** A bit reader: next-bit function over some state. *)
Section Reader.
  Context {St : Type} (next : St -> bool * St).
  Fixpoint read_n (n : nat) (st : St) : list bool * St :=
    match n with
    | O => ([], st)
    | S k => let '(b, st1) := next st in let '(bs, st2) := read_n k st1 in (b :: bs, st2)
    end.
  (** DecodeNextBit / DecodeLeastSignificantBits32 mirrored over an op list: values obtained. *)
  Inductive rop := RBit | RLsb (n : nat).
  Fixpoint read_ops (ops : list rop) (st : St) : list Z * St :=
    match ops with
    | [] => ([], st)
    | RBit :: r => let '(b, st1) := next st in
                   let '(vs, st2) := read_ops r st1 in ((if b then 1 else 0) :: vs, st2)
    | RLsb n :: r => let '(bs, st1) := read_n n st in
                     let '(vs, st2) := read_ops r st1 in (val_msb bs :: vs, st2)
    end.
End Reader.
Definition rop_of (o : bop) : rop := match o with OBit _ => RBit | OLsb n _ => RLsb n end.
Definition value_of (o : bop) : Z :=
  match o with OBit b => if b then 1 else 0 | OLsb n v => v mod 2 ^ Z.of_nat n end.

(** ** RAnsBitEncoder / RAnsBitDecoder (one static probability per block) *)

(** zero_prob as computed in EndEncoding:
      raw = (uint32)((count0 / (double)total) * 256.0 + 0.5); clamp to 255; bump 0 to 1.
    For totals below 2^40 the double computation cannot cross an integer boundary (the exact value
    (512*c0+total)/(2*total) is either an integer or at least 1/(2*total) away from one), so the integer
    formula below is what the C++ computes; this is checked by the correspondence, and no theorem
    depends on it beyond 1 <= zero_prob <= 255. *)
Definition zero_prob (c0 total : Z) : Z :=
  let total := if total =? 0 then 1 else total in
  let raw := (512 * c0 + total) / (2 * total) in
  let zp := if raw <? 255 then raw else 255 in
  if zp =? 0 then 1 else zp.
Definition count_zeros (bits : list bool) : Z := Z.of_nat (length (filter negb bits)).

Definition ransbit_encode_with (zp : Z) (bits : list bool) : option bytes :=
  match rabs_block (map (fun b => (b, zp)) bits) with
  | Some blk =>
    match enc_varint_u (Z.of_nat (length blk)) with
    | Some sz => Some (zp :: sz ++ blk)
    | None => None
    end
  | None => None
  end.
Definition ransbit_encode (bits : list bool) : option bytes :=
  ransbit_encode_with (zero_prob (count_zeros bits) (Z.of_nat (length bits))) bits.

Record rans_st := { rs_p0 : Z; rs_x : Z; rs_stk : list Z }.
(** RAnsBitDecoder::StartDecoding; [ver] = bitstream version (size is a fixed uint32 before 2.2). *)
Definition ransbit_start (ver : Z) (bs : bytes) : option (rans_st * bytes) :=
  match bs with
  | [] => None
  | zp :: r =>
    match (if ver <? 514 then dec_le 4 r else dec_varint_u 32 r) with
    | None => None
    | Some (sz, r1) =>
      if sz >? Z.of_nat (length r1) then None else
      match ans_read_init (rev (firstn (Z.to_nat sz) r1)) with
      | None => None
      | Some (x, stk) => Some ({| rs_p0 := zp; rs_x := x; rs_stk := stk |}, skipn (Z.to_nat sz) r1)
      end
    end
  end.
Definition ransbit_next (st : rans_st) : bool * rans_st :=
  let '(b, x, stk) := rabs_read (rs_x st) (rs_stk st) (rs_p0 st) in
  (b, {| rs_p0 := rs_p0 st; rs_x := x; rs_stk := stk |}).

(** ** AdaptiveRAnsBitEncoder / Decoder: the probability of the next bit is computed from a running
    state (a double p0_f: clamp_probability(p0_f) is used, then p0_f = update_probability(p0_f, bit));
    encoder and decoder run the same recurrence.  The model is generic in that state machine
    ([PS], [p_clamp], [p_upd]); Model/AdaptiveProb.v gives the binary64 instance. *)
Section Adaptive.
  Context {PS : Type}.
  Variable p_clamp : PS -> Z.
  Variable p_upd : PS -> bool -> PS.
  Fixpoint adaptive_syms (p : PS) (bits : list bool) : list (bool * Z) :=
    match bits with
    | [] => []
    | b :: r => (b, p_clamp p) :: adaptive_syms (p_upd p b) r
    end.
  (** EndEncoding: uint32 size (fixed 4 bytes) then the rABS block. *)
  Definition adaptive_encode (p_init : PS) (bits : list bool) : option bytes :=
    match rabs_block (adaptive_syms p_init bits) with
    | Some blk => Some (enc_le 4 (Z.of_nat (length blk)) ++ blk)
    | None => None
    end.
  Record ad_st := { ad_p : PS; ad_x : Z; ad_stk : list Z }.
  Definition adaptive_start (p_init : PS) (bs : bytes) : option (ad_st * bytes) :=
    match dec_le 4 bs with
    | None => None
    | Some (sz, r1) =>
      if sz >? Z.of_nat (length r1) then None else
      match ans_read_init (rev (firstn (Z.to_nat sz) r1)) with
      | None => None
      | Some (x, stk) => Some ({| ad_p := p_init; ad_x := x; ad_stk := stk |}, skipn (Z.to_nat sz) r1)
      end
    end.
  Definition adaptive_next (st : ad_st) : bool * ad_st :=
    let '(b, x, stk) := rabs_read (ad_x st) (ad_stk st) (p_clamp (ad_p st)) in
    (b, {| ad_p := p_upd (ad_p st) b; ad_x := x; ad_stk := stk |}).
End Adaptive.

(** ** DirectBitEncoder / Decoder: bits packed most-significant-first into 32-bit words, words
    stored little-endian; EndEncoding always appends the (possibly empty) partial word. *)
Fixpoint pad_to (n : nat) (bits : list bool) : list bool :=
  match n with
  | O => []
  | S k => match bits with
           | [] => false :: pad_to k []
           | b :: r => b :: pad_to k r
           end
  end.
Fixpoint direct_words (nw : nat) (bits : list bool) : list Z :=
  match nw with
  | O => []
  | S k => val_msb (pad_to 32 bits) :: direct_words k (skipn 32 bits)
  end.
Definition direct_encode (bits : list bool) : option bytes :=
  let nw := (length bits / 32 + 1)%nat in
  Some (enc_le 4 (4 * Z.of_nat nw) ++ concat (map (enc_le 4) (direct_words nw bits))).

Fixpoint dec_words (n : nat) (bs : bytes) : option (list Z * bytes) :=
  match n with
  | O => Some ([], bs)
  | S k => match dec_le 4 bs with
           | Some (w, r) => match dec_words k r with
                            | Some (ws, r') => Some (w :: ws, r')
                            | None => None
                            end
           | None => None
           end
  end.
Record direct_st := { ds_bits : list bool }.   (* the unread bits of all words *)
Definition direct_start (bs : bytes) : option (direct_st * bytes) :=
  match dec_le 4 bs with
  | None => None
  | Some (sz, r1) =>
    if (sz =? 0) || negb (Z.land sz 3 =? 0) then None
    else if sz >? Z.of_nat (length r1) then None
    else match dec_words (Z.to_nat (sz / 4)) r1 with
         | Some (ws, r2) => Some ({| ds_bits := concat (map (bits_msb 32) ws) |}, r2)
         | None => None
         end
  end.
(** DecodeNextBit: false (and no progress) once all words are used up. *)
Definition direct_next (st : direct_st) : bool * direct_st :=
  match ds_bits st with
  | [] => (false, st)
  | b :: r => (b, {| ds_bits := r |})
  end.
(** DecodeLeastSignificantBits32(n): fails (returns false) when fewer than n bits are left. *)
Definition direct_lsb (n : nat) (st : direct_st) : option (Z * direct_st) :=
  if (length (ds_bits st) <? n)%nat then None
  else Some (val_msb (firstn n (ds_bits st)), {| ds_bits := skipn n (ds_bits st) |}).

(** ** FoldedBit32Encoder<C> / Decoder<C>: 32 coders for the bit positions of the integers (position 0 =
    most significant of the n bits written) plus one coder for single bits; the 33 blocks follow each
    other in the buffer.  Generic in the inner coder. *)
Section Folded.
  Context {St : Type}.
  Variable inner_enc : list bool -> option bytes.
  Variable inner_start : bytes -> option (St * bytes).
  Variable inner_next : St -> bool * St.

  (** the bits op [o] contributes to folded stream [i] (i < 32) / to the plain stream (i = 32) *)
  Definition folded_stream (i : nat) (ops : list bop) : list bool :=
    concat (map (fun o => match o with
                          | OBit b => if (i =? 32)%nat then [b] else []
                          | OLsb n v => if (i <? n)%nat then [Z.testbit v (Z.of_nat (n - 1 - i))] else []
                          end) ops).
  Fixpoint enc_streams (ss : list (list bool)) : option bytes :=
    match ss with
    | [] => Some []
    | s :: r => match inner_enc s, enc_streams r with
                | Some a, Some b => Some (a ++ b)
                | _, _ => None
                end
    end.
  Definition folded_encode (ops : list bop) : option bytes :=
    enc_streams (map (fun i => folded_stream i ops) (seq 0 33)).

  Fixpoint start_streams (n : nat) (bs : bytes) : option (list St * bytes) :=
    match n with
    | O => Some ([], bs)
    | S k => match inner_start bs with
             | Some (st, r) => match start_streams k r with
                               | Some (sts, r') => Some (st :: sts, r')
                               | None => None
                               end
             | None => None
             end
    end.
  Definition folded_start (bs : bytes) : option (list St * bytes) := start_streams 33 bs.

  (** read one bit from stream i *)
  Definition folded_bit (i : nat) (sts : list St) : option (bool * list St) :=
    match nth_error sts i with
    | Some st => let '(b, st') := inner_next st in
                 Some (b, firstn i sts ++ st' :: skipn (S i) sts)
    | None => None
    end.
  Fixpoint folded_lsb (n : nat) (i : nat) (acc : Z) (sts : list St) : option (Z * list St) :=
    match n with
    | O => Some (acc, sts)
    | S k => match folded_bit i sts with
             | Some (b, sts') => folded_lsb k (S i) (2 * acc + (if b then 1 else 0)) sts'
             | None => None
             end
    end.
  Fixpoint folded_read (ops : list rop) (sts : list St) : option (list Z * list St) :=
    match ops with
    | [] => Some ([], sts)
    | RBit :: r => match folded_bit 32 sts with
                   | Some (b, sts') => match folded_read r sts' with
                                       | Some (vs, s2) => Some ((if b then 1 else 0) :: vs, s2)
                                       | None => None
                                       end
                   | None => None
                   end
    | RLsb n :: r => match folded_lsb n 0 0 sts with
                     | Some (v, sts') => match folded_read r sts' with
                                         | Some (vs, s2) => Some (v :: vs, s2)
                                         | None => None
                                         end
                     | None => None
                     end
    end.
End Folded.
