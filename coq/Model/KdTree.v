(** The kd-tree point-cloud codec (POINT_CLOUD_KD_TREE_ENCODING):

      compression/point_cloud/algorithms/dynamic_integer_points_kd_tree_encoder.h / _decoder.h
                                     DynamicIntegerPointsKdTree{En,De}coder<0..6>
      compression/attributes/kd_tree_attributes_encoder.cc / _decoder.cc
      compression/point_cloud/point_cloud_kd_tree_encoder.cc / _decoder.cc
      compression/point_cloud/point_cloud_encoder.cc / _decoder.cc (header and framing: reused from
      Model/SeqCodec.v)

    The policy structs select, for every compression level,
      NumbersEncoder        0,1: DirectBit   2,3: RAnsBit   4,5,6: FoldedBit32<RAnsBit>
      AxisEncoder, HalfEncoder, RemainingBitsEncoder: DirectBit at every level
      select_axis           only at level 6.
    The bit coders themselves are the models of Model/BitCoders.v (property C17).

    ENCODER: EncodeInternal's explicit stack of (begin, end, last_axis, stack_pos) is a depth-first walk
    that visits a node, then the whole upper half [split, end) (pushed last, slot stack_pos + 1), then the
    lower half [begin, split) (slot stack_pos).  The model [enc_node] is that recursion; it returns the
    operations handed to the four bit encoders.  The order of the points inside [begin, end) matters
    for the stream: a box holding two points writes them in array order, and the array order is
    whatever the preceding std::partition calls left.  [part] is therefore a parameter of the tree
    encoder; [std_partition] is libstdc++'s algorithm for bidirectional iterators (stl_algo.h
    __partition, also what libc++ and MSVC do), used for the byte-exact correspondence.
    The theorems hold for EVERY [part] that meets std::partition's contract.

    DECODER: DecodeInternal's loop as written: the stack of (num_remaining_points, last_axis, stack_pos),
    base_stack_ / levels_stack_ indexed by stack_pos, p_, num_decoded_points_.

    uint32 arithmetic: [bit_length_ - levels[a]] never wraps (a level is only incremented while it is
    below bit_length_, in both encoder and decoder), so it is a plain difference here; base + modifier is
    taken modulo 2^32 as written (the proofs show it never wraps).

    No proofs in this file. *)
From Draco Require Import Base.Codec Base.Float32 Gen.Constants Model.Varint Model.Ans Model.BitCoders
  Model.Quantize Model.SeqAttr Model.SeqCodec.
Local Open Scope Z_scope.

Definition point := list Z.

(** vector write with bounds check (None = out of bounds) *)
Fixpoint upd {A} (l : list A) (i : nat) (x : A) : option (list A) :=
  match l, i with
  | [], _ => None
  | _ :: r, O => Some (x :: r)
  | a :: r, S k => match upd r k x with Some r' => Some (a :: r') | None => None end
  end.

(** DRACO_INCREMENT_MOD(I, M) = (I == M - 1) ? 0 : I + 1 *)
Definition inc_mod (i m : nat) : nat := if (S i =? m)%nat then O else S i.

(** ** std::partition as implemented for bidirectional (hence random access) iterators *)
Section Partition.
  Context {A : Type} (f : A -> bool).
  Fixpoint span_true (l : list A) : list A * list A :=
    match l with
    | [] => ([], [])
    | x :: r => if f x then let '(a, b) := span_true r in (x :: a, b) else ([], l)
    end.
  Fixpoint span_false (l : list A) : list A * list A :=
    match l with
    | [] => ([], [])
    | x :: r => if f x then ([], l) else let '(a, b) := span_false r in (x :: a, b)
    end.
  (** [first] runs forward over elements satisfying f, [last] backward over elements failing it, the two
      elements they stop at are swapped, and the same happens to what lies strictly between them. *)
  Fixpoint bidir_partition (fuel : nat) (m : list A) : option (list A * list A) :=
    match fuel with
    | O => None
    | S k =>
      let '(a, m1) := span_true m in
      match m1 with
      | [] => Some (a, [])
      | x :: m2 =>
        let '(brev, m3rev) := span_false (rev m2) in
        match m3rev with
        | [] => Some (a, x :: rev brev)
        | y :: m4rev =>
          match bidir_partition k (rev m4rev) with
          | Some (l, r) => Some (a ++ y :: l, r ++ x :: rev brev)
          | None => None
          end
        end
      end
    end.
  Definition std_partition (m : list A) : option (list A * list A) := bidir_partition (S (length m)) m.
End Partition.

Record ops4 := mk_ops4 { o_num : list bop; o_rem : list bop; o_axis : list bop; o_half : list bop }.
Definition ops4_nil : ops4 := mk_ops4 [] [] [] [].
Definition app4 (a b : ops4) : ops4 :=
  mk_ops4 (o_num a ++ o_num b) (o_rem a ++ o_rem b) (o_axis a ++ o_axis b) (o_half a ++ o_half b).

(** GetAndEncodeAxis / GetAxis below 64 points: the first least-refined axis *)
Fixpoint argmin_from (best : nat) (bestv : Z) (i : nat) (l : list Z) : nat :=
  match l with
  | [] => best
  | x :: r => if bestv >? x then argmin_from i x (S i) r else argmin_from best bestv (S i) r
  end.
Definition argmin_levels (levels : list Z) : nat :=
  match levels with [] => O | x :: r => argmin_from O x 1%nat r end.

Section Tree.
  Variable sel : bool.        (* Policy::select_axis *)
  Variable dim : nat.         (* dimension_ (>= 1; with 0 the C++ indexes empty vectors) *)
  Variable bl : Z.            (* bit_length_ *)

  (** the point coordinate p[a]; every point has [dim] coordinates (precondition of the encoder) *)
  Definition coord (p : point) (a : nat) : Z := nth a p 0.

  (** axes_[0] = axis; axes_[i] = DRACO_INCREMENT_MOD(axes_[i-1], dimension_) *)
  Fixpoint axes_from (a : nat) (k : nat) : list nat :=
    match k with O => [] | S k' => a :: axes_from (inc_mod a dim) k' end.

  (** *** Encoder *)
  Section Enc.
  Variable part : (point -> bool) -> list point -> option (list point * list point).

  (** the >= 64 points branch of GetAndEncodeAxis: deviations_[i], num_remaining_bits_[i] *)
  Definition axis_dev (pts : list point) (base levels : list Z) (i : nat) : option (Z * Z) :=
    match nth_error levels i, nth_error base i with
    | Some lv, Some b =>
        let nrb := bl - lv in
        if 0 <? nrb then
          let split := (b + 2 ^ (nrb - 1)) mod 2 ^ 32 in
          let c := Z.of_nat (length (filter (fun p => coord p i <? split) pts)) in
          Some (nrb, Z.max (Z.of_nat (length pts) - c) c)
        else Some (nrb, 0)
    | _, _ => None
    end.
  Fixpoint best_axis_from (pts : list point) (base levels : list Z) (axes : list nat) (maxv : Z) (best : nat)
    : option nat :=
    match axes with
    | [] => Some best
    | i :: r =>
      match axis_dev pts base levels i with
      | Some (nrb, dev) =>
          if negb (nrb =? 0) && (maxv <? dev) then best_axis_from pts base levels r dev i
          else best_axis_from pts base levels r maxv best
      | None => None
      end
    end.
  (** GetAndEncodeAxis: the axis and what goes to axis_encoder_ *)
  Definition enc_axis (pts : list point) (base levels : list Z) (last : nat) : option (nat * list bop) :=
    if negb sel then Some (inc_mod last dim, [])
    else if Z.of_nat (length pts) <? 64 then Some (argmin_levels levels, [])
    else match best_axis_from pts base levels (seq 0 dim) 0 O with
         | Some a => Some (a, [OLsb 4 (Z.of_nat a)])
         | None => None
         end.

  (** the remaining bits of one point, axes in the rotated order *)
  Fixpoint rem_ops_point (levels : list Z) (axes : list nat) (p : point) : option (list bop) :=
    match axes with
    | [] => Some []
    | a :: r =>
      match nth_error levels a, rem_ops_point levels r p with
      | Some lv, Some ops =>
          let nrb := bl - lv in
          Some ((if nrb =? 0 then [] else [OLsb (Z.to_nat nrb) (coord p a)]) ++ ops)
      | _, _ => None
      end
    end.
  Fixpoint rem_ops (levels : list Z) (axes : list nat) (pts : list point) : option (list bop) :=
    match pts with
    | [] => Some []
    | p :: r => match rem_ops_point levels axes p, rem_ops levels axes r with
                | Some a, Some b => Some (a ++ b)
                | _, _ => None
                end
    end.

  (** one iteration of EncodeInternal's loop and everything below it.  [fuel] bounds the depth.
      Second component (not part of the stream): the points in the order in which the boxes holding them
      are closed, i.e. the order in which the decoder will emit them. *)
  Fixpoint enc_node (fuel : nat) (pts : list point) (base levels : list Z) (last : nat)
    : option (ops4 * list point) :=
    match fuel with
    | O => None
    | S f =>
      let n := Z.of_nat (length pts) in
      match enc_axis pts base levels last with
      | None => None
      | Some (axis, axops) =>
      match nth_error levels axis with
      | None => None
      | Some level =>
        if bl - level =? 0 then Some (mk_ops4 [] [] axops [], pts)
        else if n <=? 2 then
          match rem_ops levels (axes_from axis dim) pts with
          | Some ro => Some (mk_ops4 [] ro axops [], pts)
          | None => None
          end
        else
          match nth_error base axis with
          | None => None
          | Some b =>
            let nb := (b + 2 ^ (bl - level - 1)) mod 2 ^ 32 in
            match upd base axis nb, upd levels axis (level + 1), part (fun p => coord p axis <? nb) pts with
            | Some new_base, Some levels', Some (lo, hi) =>
                let fh := Z.of_nat (length lo) in
                let sh := Z.of_nat (length hi) in
                let left := fh <? sh in
                let here := mk_ops4 [OLsb (Z.to_nat (Z.log2 n)) (n / 2 - (if left then fh else sh))] [] axops
                                    (if fh =? sh then [] else [OBit left]) in
                let o_hi := match hi with [] => Some (ops4_nil, []) | _ => enc_node f hi new_base levels' axis end in
                let o_lo := match lo with [] => Some (ops4_nil, []) | _ => enc_node f lo base levels' axis end in
                match o_hi, o_lo with
                | Some (a, oa), Some (c, oc) => Some (app4 here (app4 a c), oa ++ oc)
                | _, _ => None
                end
            | _, _, _ => None
            end
          end
      end
      end
    end.
  Definition enc_tree (pts : list point) : option (ops4 * list point) :=
    enc_node (S (dim * Z.to_nat bl)) pts (repeat 0 dim) (repeat 0 dim) O.
  End Enc.

  (** *** Decoder *)
  Context {NS : Type}.
  (** NumbersDecoder::DecodeLeastSignificantBits32 as DecodeNumber uses it (result ignored) *)
  Variable num_lsb : nat -> NS -> option (Z * NS).
  Variable np : Z.            (* num_points_ *)

  Record frame := mk_frame { f_n : Z; f_last : nat; f_pos : nat }.
  Record dst := mk_dst {
    d_num : NS; d_rem : direct_st; d_axis : direct_st; d_half : direct_st;
    d_p : list Z;                       (* p_ *)
    d_out : list point;                 (* what went through the output iterator, latest first *)
    d_ndec : Z;                         (* num_decoded_points_ *)
    d_stack : list frame;               (* status_stack, top first *)
    d_base : list (list Z);             (* base_stack_ *)
    d_levels : list (list Z)            (* levels_stack_ *)
  }.

  (** GetAxis; a failed 4-bit read leaves best_axis = 0 *)
  Definition dec_axis (n : Z) (levels : list Z) (last : nat) (ax : direct_st) : nat * direct_st :=
    if negb sel then (inc_mod last dim, ax)
    else if n <? 64 then (argmin_levels levels, ax)
    else match direct_lsb 4 ax with
         | Some (v, ax') => (Z.to_nat v, ax')
         | None => (O, ax)
         end.

  (** the inner j-loop of the "1 or 2 points" branch *)
  Fixpoint dec_point_axes (axes : list nat) (base levels : list Z) (p : list Z) (rem : direct_st)
    : option (list Z * direct_st) :=
    match axes with
    | [] => Some (p, rem)
    | a :: r =>
      match nth_error levels a, nth_error base a with
      | Some lv, Some b =>
        let nrb := bl - lv in
        match (if nrb =? 0 then Some (0, rem) else direct_lsb (Z.to_nat nrb) rem) with
        | Some (v, rem') =>
            match upd p a (Z.lor b v) with
            | Some p' => dec_point_axes r base levels p' rem'
            | None => None
            end
        | None => None
        end
      | _, _ => None
      end
    end.
  Fixpoint dec_points_rem (k : nat) (axes : list nat) (base levels : list Z) (p : list Z) (rem : direct_st)
    (out : list point) : option (list Z * direct_st * list point) :=
    match k with
    | O => Some (p, rem, out)
    | S k' => match dec_point_axes axes base levels p rem with
              | Some (p', rem') => dec_points_rem k' axes base levels p' rem' (p' :: out)
              | None => None
              end
    end.

  (** one iteration of DecodeInternal's while loop on a non-empty stack; None = return false *)
  Definition dstep (s : dst) : option dst :=
    match d_stack s with
    | [] => None
    | fr :: stk =>
      let n := f_n fr in
      let pos := f_pos fr in
      match nth_error (d_base s) pos, nth_error (d_levels s) pos with
      | Some old_base, Some levels =>
        if n >? np then None else
        let '(axis, ax') := dec_axis n levels (f_last fr) (d_axis s) in
        if (dim <=? axis)%nat then None else
        match nth_error levels axis with
        | None => None
        | Some level =>
          if bl - level =? 0 then
            Some (mk_dst (d_num s) (d_rem s) ax' (d_half s) (d_p s)
                         (repeat old_base (Z.to_nat n) ++ d_out s) (d_ndec s + n) stk (d_base s) (d_levels s))
          else if n <=? 2 then
            match dec_points_rem (Z.to_nat n) (axes_from axis dim) old_base levels (d_p s) (d_rem s) (d_out s) with
            | Some (p', rem', out') =>
                Some (mk_dst (d_num s) rem' ax' (d_half s) p' out' (d_ndec s + n) stk (d_base s) (d_levels s))
            | None => None
            end
          else if d_ndec s >? np then None
          else
            match nth_error old_base axis with
            | None => None
            | Some b =>
              let nb := (b + 2 ^ (bl - level - 1)) mod 2 ^ 32 in
              match upd old_base axis nb with
              | None => None
              | Some new_base =>
                match upd (d_base s) (S pos) new_base with
                | None => None      (* would be a write past base_stack_: never happens, see KdTree_proofs *)
                | Some bases' =>
                  match num_lsb (Z.to_nat (Z.log2 n)) (d_num s) with
                  | None => None
                  | Some (number, num') =>
                    let fh0 := n / 2 in
                    if fh0 <? number then None else
                    let fh1 := fh0 - number in
                    let sh1 := n - fh1 in
                    let '(fh, sh, half') :=
                      if fh1 =? sh1 then (fh1, sh1, d_half s)
                      else let '(bit, h') := direct_next (d_half s) in
                           if bit then (fh1, sh1, h') else (sh1, fh1, h') in
                    match upd levels axis (level + 1) with
                    | None => None
                    | Some levels' =>
                      match upd (d_levels s) pos levels' with
                      | None => None
                      | Some lv1 =>
                        match upd lv1 (S pos) levels' with
                        | None => None
                        | Some lv2 =>
                          let stk1 := if fh =? 0 then stk else mk_frame fh axis pos :: stk in
                          let stk2 := if sh =? 0 then stk1 else mk_frame sh axis (S pos) :: stk1 in
                          Some (mk_dst num' (d_rem s) ax' half' (d_p s) (d_out s) (d_ndec s) stk2 bases' lv2)
                        end
                      end
                    end
                  end
                end
              end
            end
        end
      | _, _ => None
      end
    end.

  (** the while loop, at most [p] iterations ([positive] fuel: the bound is proportional to num_points) *)
  Inductive lres := LDone (s : dst) | LFail | LMore (s : dst).
  Definition lstep (s : dst) : lres :=
    match d_stack s with
    | [] => LDone s
    | _ => match dstep s with Some s' => LMore s' | None => LFail end
    end.
  Fixpoint lrun (p : positive) (s : dst) : lres :=
    match p with
    | xH => lstep s
    | xO q => match lrun q s with LMore s' => lrun q s' | r => r end
    | xI q => match lstep s with
              | LMore s' => match lrun q s' with LMore s'' => lrun q s'' | r => r end
              | r => r
              end
    end.
End Tree.

(** ** EncodePoints / DecodePoints for a compression level *)
Inductive numk := NDirect | NRans | NFolded.
Definition level_numk (level : Z) : numk :=
  if level <? 2 then NDirect else if level <? 4 then NRans else NFolded.
Definition level_sel (level : Z) : bool := level =? 6.

Definition enc_numbers (k : numk) (ops : list bop) : option bytes :=
  match k with
  | NDirect => direct_encode (flatten ops)
  | NRans => ransbit_encode (flatten ops)
  | NFolded => folded_encode ransbit_encode ops
  end.

(** DynamicIntegerPointsKdTreeEncoder<level>(dim).EncodePoints(begin, end, bit_length, buffer) *)
Definition kd_encode_points_with (part : (point -> bool) -> list point -> option (list point * list point))
  (level : Z) (dim : nat) (bl : Z) (pts : list point) : option bytes :=
  let hdr := enc_le 4 bl ++ enc_le 4 (Z.of_nat (length pts)) in
  match pts with
  | [] => Some hdr
  | _ =>
    match enc_tree (level_sel level) dim bl part pts with
    | None => None
    | Some (o, _) =>
      match enc_numbers (level_numk level) (o_num o), direct_encode (flatten (o_rem o)),
            direct_encode (flatten (o_axis o)), direct_encode (flatten (o_half o)) with
      | Some a, Some b, Some c, Some d => Some (hdr ++ a ++ b ++ c ++ d)
      | _, _, _, _ => None
      end
    end
  end.
Definition kd_encode_points := kd_encode_points_with (@std_partition point).

(** the three NumbersDecoder instances behind one interface *)
Inductive num_st := NSD (s : direct_st) | NSR (s : rans_st) | NSF (s : list rans_st).
Definition num_start (k : numk) (ver : Z) (bs : bytes) : option (num_st * bytes) :=
  match k with
  | NDirect => match direct_start bs with Some (s, r) => Some (NSD s, r) | None => None end
  | NRans => match ransbit_start ver bs with Some (s, r) => Some (NSR s, r) | None => None end
  | NFolded => match folded_start (ransbit_start ver) bs with Some (s, r) => Some (NSF s, r) | None => None end
  end.
(** DecodeNumber: DirectBitDecoder's failure is ignored (number stays 0, nothing is consumed);
    the rANS decoders cannot fail. *)
Definition num_lsb_of (n : nat) (s : num_st) : option (Z * num_st) :=
  match s with
  | NSD d => match direct_lsb n d with Some (v, d') => Some (v, NSD d') | None => Some (0, NSD d) end
  | NSR r => let '(bits, r') := read_n ransbit_next n r in Some (val_msb bits, NSR r')
  | NSF f => match folded_lsb ransbit_next n 0 0 f with Some (v, f') => Some (v, NSF f') | None => None end
  end.

(** DynamicIntegerPointsKdTreeDecoder<level>(dim).DecodePoints(buffer, oit, oit_max_points):
    the points in output order and the rest of the buffer. *)
Definition kd_decode_points (ver : Z) (level : Z) (dim : nat) (maxpts : Z) (bs : bytes)
  : option (list point * bytes) :=
  match dec_le 4 bs with
  | None => None
  | Some (bl, r0) =>
    if bl >? 32 then None else
    match dec_le 4 r0 with
    | None => None
    | Some (n, r1) =>
      if n =? 0 then Some ([], r1)
      else if n >? maxpts then None
      else
        match num_start (level_numk level) ver r1 with
        | None => None
        | Some (ns, r2) =>
        match direct_start r2 with
        | None => None
        | Some (rem, r3) =>
        match direct_start r3 with
        | None => None
        | Some (ax, r4) =>
        match direct_start r4 with
        | None => None
        | Some (hf, r5) =>
          let m := (32 * dim + 1)%nat in
          let s0 := mk_dst ns rem ax hf (repeat 0 dim) [] 0 [mk_frame n O O]
                           (repeat (repeat 0 dim) m) (repeat (repeat 0 dim) m) in
          match lrun (level_sel level) dim bl num_lsb_of n
                     (Z.to_pos (n * (32 * Z.of_nat dim + 1) + 1)) s0 with
          | LDone s => Some (rev (d_out s), r5)
          | _ => None
          end
        end end end end
    end
  end.

(** ** Attribute layer: KdTreeAttributesEncoder / KdTreeAttributesDecoder *)

(** One attribute of the input point cloud, identity point -> value map (what the decoder produces and
    what the harness feeds): [k_rows] are the component bit patterns per point.  [k_q]: option
    "quantization_bits" (-1 = unset), [k_explicit]: quantization_origin / quantization_range when both set. *)
Record kd_att := { k_desc : att_desc; k_q : Z; k_explicit : option (list Z * Z); k_rows : list (list Z) }.

Definition kd_dt_unsigned (dt : Z) : bool := (dt =? DT_UINT32_) || (dt =? DT_UINT16_) || (dt =? DT_UINT8_).
Definition kd_dt_signed (dt : Z) : bool := (dt =? DT_INT32_) || (dt =? DT_INT16_) || (dt =? DT_INT8_).

Definition kd_quant_params (a : kd_att) : option qparams :=
  if k_q a <? 1 then None else
  match k_explicit a with
  | Some (org, rg) => match set_parameters (k_q a) (map f32_of_bits org) (f32_of_bits rg) with Ok p => Some p | _ => None end
  | None => match compute_parameters (map (map f32_of_bits) (k_rows a)) (k_q a) with Ok p => Some p | _ => None end
  end.

(** the signed value of a component bit pattern (ConvertValue<int32_t> of an int8/16/32 value) *)
Definition kd_signed_value (dt : Z) (bits : Z) : Z :=
  let w := 8 * dt_len dt in if bits <? 2 ^ (w - 1) then bits else bits - 2 ^ w.
(** per-component minimum, starting from INT32_MAX *)
Fixpoint col_min (mins : list Z) (rows : list (list Z)) : list Z :=
  match rows with
  | [] => mins
  | r :: rest => col_min (map2 (fun m v => if m >? v then v else m) mins r) rest
  end.
Definition kd_min_signed (a : kd_att) : list Z :=
  col_min (repeat (2 ^ 31 - 1) (Z.to_nat (ad_nc (k_desc a))))
          (map (map (kd_signed_value (ad_dt (k_desc a)))) (k_rows a)).

Fixpoint col_max (maxs : list Z) (rows : list (list Z)) : list Z :=
  match rows with
  | [] => maxs
  | r :: rest => col_max (map2 (fun m v => if m <? v then v else m) maxs r) rest
  end.
Definition kd_max_signed (a : kd_att) : list Z :=
  col_max (repeat (- 2 ^ 31) (Z.to_nat (ad_nc (k_desc a))))
          (map (map (kd_signed_value (ad_dt (k_desc a)))) (k_rows a)).
(** the guard of fix e50b8ba: [att->size() > 0 && (int64)max[c] - min[c] > INT32_MAX] for some component
    (with no values max - min = INT32_MIN - INT32_MAX < 0, so the size test needs no separate case here) *)
Definition kd_span_too_large (a : kd_att) : bool :=
  existsb (fun mm => fst mm - snd mm >? 2 ^ 31 - 1) (combine (kd_max_signed a) (kd_min_signed a)).

(** The uint32 columns an attribute contributes to the point vector (TransformAttributesToPortableFormat + the
    copy loop of EncodePortableAttributes).  A signed attribute with a component spanning 2^31 or more makes the
    encode fail (defect D9, fixed in e50b8ba: before, [signed_point[c] - min] overflowed int32 and the stream
    could not be decoded); below that the int32 subtraction is exact and the result is stored in a uint32. *)
Definition kd_portable (a : kd_att) : option (list (list Z)) :=
  let dt := ad_dt (k_desc a) in
  if kd_dt_unsigned dt then Some (k_rows a)
  else if kd_dt_signed dt then
    if kd_span_too_large a then None else
    let mins := kd_min_signed a in
    Some (map (fun row => map2 (fun v m => (kd_signed_value dt v - m) mod 2 ^ 32) row mins) (k_rows a))
  else if dt =? DT_FLOAT32_ then
    match kd_quant_params a with
    | Some p => match generate_portable p (map (map f32_of_bits) (k_rows a)) with Ok w => Some w | _ => None end
    | None => None
    end
  else None.

(** rows of several attributes side by side *)
Fixpoint zip_rows (cols : list (list (list Z))) (n : nat) : list (list Z) :=
  match n with
  | O => []
  | S k => concat (map (fun rows => match rows with r :: _ => r | [] => [] end) cols)
           :: zip_rows (map (fun rows => match rows with _ :: t => t | [] => [] end) cols) k
  end.

Definition kd_bit_length (pts : list point) : Z :=
  fold_left (fun acc v => if v >? 0 then Z.max acc (Z.log2 v + 1) else acc) (concat pts) 0.

(** compression_level = min(10 - speed, 6), lowered to 5 when more than 15 components *)
Definition kd_level (speed : Z) (ncomp : Z) : Z :=
  let l := Z.min (10 - speed) 6 in if (l =? 6) && (ncomp >? 15) then 5 else l.

Definition kd_transform_data (a : kd_att) : option bytes :=
  let dt := ad_dt (k_desc a) in
  if dt =? DT_FLOAT32_ then match kd_quant_params a with Some p => encode_parameters p | None => None end
  else Some [].
Definition kd_min_data (a : kd_att) : option bytes :=
  if kd_dt_signed (ad_dt (k_desc a)) then ocat (enc_varint_s 32) (kd_min_signed a) else Some [].

(** KdTreeAttributesEncoder::EncodeAttributes for [npoints] points *)
Definition kd_enc_attributes_with part (speed : Z) (npoints : nat) (atts : list kd_att) : option bytes :=
  match omap kd_portable atts with
  | None => None
  | Some cols =>
    let ncomp := fold_left (fun acc a => acc + ad_nc (k_desc a)) atts 0 in
    let level := kd_level speed ncomp in
    if (level <? 0) || (level >? 6) then None else
    let pts := zip_rows cols npoints in
    match kd_encode_points_with part level (Z.to_nat ncomp) (kd_bit_length pts) pts,
          ocat kd_transform_data atts, ocat kd_min_data atts with
    | Some body, Some qd, Some md => Some ([level] ++ body ++ qd ++ md)
    | _, _, _ => None
    end
  end.

(** PointCloudKdTreeEncoder through PointCloudEncoder::Encode, no metadata *)
Definition kd_enc_descs (atts : list kd_att) : option bytes := ocat (fun a => enc_desc (k_desc a)) atts.
Definition kd_enc_pc_with part (speed : Z) (npoints : Z) (atts : list kd_att) : option bytes :=
  let hdr := enc_header POINT_CLOUD_ POINT_CLOUD_KD_TREE_ENCODING_ false ++ enc_le 4 (npoints mod 2 ^ 32) in
  match atts with
  | [] => Some (hdr ++ [0])
  | _ =>
    match enc_varint_u (Z.of_nat (length atts)), kd_enc_descs atts,
          kd_enc_attributes_with part speed (Z.to_nat npoints) atts with
    | Some n, Some ds, Some body => Some (hdr ++ [1] ++ n ++ ds ++ body)
    | _, _, _ => None
    end
  end.
Definition kd_enc_pc := kd_enc_pc_with (@std_partition point).

(** *** Decoder *)

(** the output iterator: a decoded point is cut into the attributes' components; for 1- and 2-byte
    types only the low bytes of each uint32 are stored *)
Fixpoint split_row (descs : list att_desc) (row : list Z) : list (list Z) :=
  match descs with
  | [] => []
  | d :: r =>
    let nc := Z.to_nat (ad_nc d) in
    let w := if ad_dt d =? DT_FLOAT32_ then 4 else dt_len (ad_dt d) in
    map (fun v => v mod 2 ^ (8 * w)) (firstn nc row) :: split_row r (skipn nc row)
  end.
(** per attribute, the list of its rows *)
Fixpoint transpose_atts (k : nat) (rows : list (list (list Z))) : list (list (list Z)) :=
  match k with
  | O => []
  | S k' => map (fun r => match r with x :: _ => x | [] => [] end) rows
            :: transpose_atts k' (map (fun r => match r with _ :: t => t | [] => [] end) rows)
  end.

Record kd_dec_att := { kda_desc : att_desc; kda_rows : list (list Z); kda_tdata : option qparams }.

(** DecodeDataNeededByPortableTransforms, first loop: quantization parameters of the float attributes *)
Fixpoint kd_dec_qparams (descs : list att_desc) (bs : bytes) : option (list (option qparams) * bytes) :=
  match descs with
  | [] => Some ([], bs)
  | d :: r =>
    if ad_dt d =? DT_FLOAT32_ then
      match kd_decode_parameters (Z.to_nat (ad_nc d)) bs with
      | Some (p, r1) => match kd_dec_qparams r r1 with
                        | Some (l, r2) => Some (Some p :: l, r2)
                        | None => None
                        end
      | None => None
      end
    else match kd_dec_qparams r bs with
         | Some (l, r2) => Some (None :: l, r2)
         | None => None
         end
  end.
(** second loop: min_signed_values_ (one varint per component of every signed attribute) *)
Fixpoint dec_varints_s (n : nat) (bs : bytes) : option (list Z * bytes) :=
  match n with
  | O => Some ([], bs)
  | S k => match dec_varint_s 32 bs with
           | Some (v, r) => match dec_varints_s k r with
                            | Some (l, r') => Some (v :: l, r')
                            | None => None
                            end
           | None => None
           end
  end.
Fixpoint kd_dec_mins (descs : list att_desc) (bs : bytes) : option (list (list Z) * bytes) :=
  match descs with
  | [] => Some ([], bs)
  | d :: r =>
    let k := if kd_dt_signed (ad_dt d) then Z.to_nat (ad_nc d) else O in
    match dec_varints_s k bs with
    | Some (m, r1) => match kd_dec_mins r r1 with
                      | Some (l, r2) => Some (m :: l, r2)
                      | None => None
                      end
    | None => None
    end
  end.

(** KUB: the C++ would execute undefined behaviour.  After fix 3b2dbf5 the only source left is the dequantization
    loop's [UB] (shift count >= 32 / missing minimum), which kd_decode_parameters' checks make unreachable. *)
Inductive kres (A : Type) := KOk (a : A) | KFail | KUB.
Arguments KOk {A} _.
Arguments KFail {A}.
Arguments KUB {A}.

(** TransformAttributeBackToSignedType<T> for one stored component [u] (the low bytes kept by the output
    iterator): rejected above INT32_MAX; [u + min] is computed in 64 bits and rejected when it does not fit
    int32 (before fix 3b2dbf5 the 32-bit sum overflowed: undefined behaviour reachable from a hostile stream,
    found by this model's explicit UB value); the result is cast to T. *)
Definition kd_back_signed (dt : Z) (u m : Z) : kres Z :=
  if u >? 2 ^ 31 - 1 then KFail
  else let s := u + m in
       if (s <? - 2 ^ 31) || (s >? 2 ^ 31 - 1) then KFail
       else KOk (s mod 2 ^ (8 * dt_len dt)).
Fixpoint kmap {A B} (f : A -> kres B) (l : list A) : kres (list B) :=
  match l with
  | [] => KOk []
  | a :: t => match f a with
              | KOk b => match kmap f t with KOk bs => KOk (b :: bs) | KFail => KFail | KUB => KUB end
              | KFail => KFail
              | KUB => KUB
              end
  end.
Fixpoint kmap2 {A B C} (f : A -> B -> kres C) (l : list A) (m : list B) : kres (list C) :=
  match l, m with
  | a :: t, b :: u => match f a b with
                      | KOk c => match kmap2 f t u with KOk cs => KOk (c :: cs) | KFail => KFail | KUB => KUB end
                      | KFail => KFail
                      | KUB => KUB
                      end
  | _, _ => KOk []
  end.

Section KdDec.
  Variable skip : Z -> bool.     (* DecoderOptions::SetSkipAttributeTransform, by attribute type *)

  (** TransformAttributesToOriginalFormat for one attribute *)
  Definition kd_finish_att (d : att_desc) (rows : list (list Z)) (qp : option qparams) (mins : list Z)
    : kres kd_dec_att :=
    let dt := ad_dt d in
    if kd_dt_signed dt then
      match kmap (fun row => kmap2 (kd_back_signed dt) row mins) rows with
      | KOk rows' => KOk {| kda_desc := d; kda_rows := rows'; kda_tdata := None |}
      | KFail => KFail
      | KUB => KUB
      end
    else if dt =? DT_FLOAT32_ then
      match qp with
      | None => KFail
      | Some p =>
        if skip (ad_type d) then
          KOk {| kda_desc := {| ad_type := ad_type d; ad_dt := DT_UINT32_; ad_nc := ad_nc d; ad_norm := false; ad_uid := ad_uid d |};
                 kda_rows := rows; kda_tdata := Some p |}
        else match kd_inverse_transform p rows with
             | Ok fr => KOk {| kda_desc := d; kda_rows := map (map bits_of_f32) fr; kda_tdata := None |}
             | Fail => KFail
             | UB => KUB
             end
      end
    else KOk {| kda_desc := d; kda_rows := rows; kda_tdata := None |}.
  Fixpoint kd_finish_all (ds : list att_desc) (rowss : list (list (list Z))) (qps : list (option qparams))
    (minss : list (list Z)) : kres (list kd_dec_att) :=
    match ds, rowss, qps, minss with
    | d :: ds', rows :: rowss', qp :: qps', mins :: minss' =>
        match kd_finish_att d rows qp mins with
        | KOk a => match kd_finish_all ds' rowss' qps' minss' with
                   | KOk l => KOk (a :: l)
                   | KFail => KFail
                   | KUB => KUB
                   end
        | KFail => KFail
        | KUB => KUB
        end
    | _, _, _, _ => KOk []
    end.

  (** KdTreeAttributesDecoder::DecodeAttributes (bitstream 2.3) for the attributes [ds] of one decoder.
      Returns also the decoded integer points (decode order). *)
  Definition kd_dec_attributes (ver : Z) (npoints : Z) (ds : list att_desc) (bs : bytes)
    : kres (list kd_dec_att * list point * bytes) :=
    match bs with
    | [] => KFail
    | level :: r0 =>
      if forallb (fun d => let dt := ad_dt d in kd_dt_unsigned dt || kd_dt_signed dt || (dt =? DT_FLOAT32_)) ds then
        if level >? 6 then KFail else
        let dim := Z.to_nat (fold_left (fun acc d => acc + ad_nc d) ds 0) in
        match kd_decode_points ver level dim npoints r0 with
        | None => KFail
        | Some (pts, r1) =>
          if negb (Z.of_nat (length pts) =? npoints) then KFail else
          let rowss := transpose_atts (length ds) (map (split_row ds) pts) in
          match kd_dec_qparams ds r1 with
          | None => KFail
          | Some (qps, r2) =>
            match kd_dec_mins ds r2 with
            | None => KFail
            | Some (minss, r3) =>
              match kd_finish_all ds rowss qps minss with
              | KOk atts => KOk (atts, pts, r3)
              | KFail => KFail
              | KUB => KUB
              end
            end
          end
        end
      else KFail
    end.

  Record kd_dec_pc := { kp_npoints : Z; kp_atts : list kd_dec_att; kp_points : list (list point) }.

  (** AttributesDecoder::DecodeAttributesDecoderData (bitstream >= 2.0) *)
  Definition dec_one_desc_block (bs : bytes) : option (list att_desc * bytes) :=
    match dec_varint_u 32 bs with
    | Some (n, r) =>
        if n =? 0 then None
        else if n >? 5 * Z.of_nat (length r) then None
        else dec_descs (Z.to_nat n) r
    | None => None
    end.
  Fixpoint dec_desc_blocks (n : nat) (bs : bytes) : option (list (list att_desc) * bytes) :=
    match n with
    | O => Some ([], bs)
    | S k => match dec_one_desc_block bs with
             | Some (d, r) => match dec_desc_blocks k r with
                              | Some (l, r') => Some (d :: l, r')
                              | None => None
                              end
             | None => None
             end
    end.
  (** DecodeAllAttributes: every attributes decoder of a kd-tree stream is a KdTreeAttributesDecoder *)
  Fixpoint kd_dec_all (ver npoints : Z) (dss : list (list att_desc)) (bs : bytes)
    : kres (list kd_dec_att * list (list point) * bytes) :=
    match dss with
    | [] => KOk ([], [], bs)
    | ds :: r =>
      match kd_dec_attributes ver npoints ds bs with
      | KOk (atts, pts, r1) =>
          match kd_dec_all ver npoints r r1 with
          | KOk (atts', ptss, r2) => KOk (atts ++ atts', pts :: ptss, r2)
          | KFail => KFail
          | KUB => KUB
          end
      | KFail => KFail
      | KUB => KUB
      end
    end.

  (** Decoder::DecodePointCloudFromBuffer on a kd-tree stream of the current bitstream version (2.3),
      no metadata.  (Older versions take the legacy paths and metadata is C11's: both are outside this
      model and reported as KFail; the harness keeps such streams out of the comparison.) *)
  Definition kd_dec_pc_stream (bs : bytes) : kres (kd_dec_pc * bytes) :=
    match dec_header bs with
    | inl (Some (h, r0)) =>
        if negb (h_type h =? POINT_CLOUD_) then KFail
        else if negb (h_method h =? POINT_CLOUD_KD_TREE_ENCODING_) then KFail
        else if negb (version_ok h) then KFail
        else if negb (h_maj h * 256 + h_min h =? kDracoPointCloudBitstreamVersion) then KFail
        else if 0 <? Z.land (h_flags h) METADATA_FLAG_MASK_ then KFail
        else
          match dec_le 4 r0 with
          | None => KFail
          | Some (npu, r1) =>
            if npu >=? 2 ^ 31 then KFail else     (* int32 num_points < 0 *)
            match r1 with
            | [] => KFail
            | nd :: r2 =>
                match dec_desc_blocks (Z.to_nat nd) r2 with
                | None => KFail
                | Some (dss, r3) =>
                  match kd_dec_all (h_maj h * 256 + h_min h) npu dss r3 with
                  | KOk (atts, ptss, r4) => KOk ({| kp_npoints := npu; kp_atts := atts; kp_points := ptss |}, r4)
                  | KFail => KFail
                  | KUB => KUB
                  end
                end
            end
          end
    | _ => KFail
    end.
End KdDec.
