(** The sequential codecs instantiated with the modelled symbol coder (C08) and metadata coder (C11). *)
From Draco Require Import Base.Codec Model.Varint Model.SymbolCoding Model.Metadata Model.SeqAttr Model.SeqCodec.
Local Open Scope Z_scope.

Definition sym_enc : Z -> Z -> Z -> list Z -> option bytes := enc_symbols.
Definition sym_dec : nat -> nat -> bytes -> option (list Z * bytes) := dec_symbols_opt.
Definition md_enc : gmeta -> option bytes := enc_geometry.
Definition md_dec : bytes -> option (gmeta * bytes) := dec_geometry.

Definition i_enc_values := enc_values sym_enc.
Definition i_enc_transform_data := enc_transform_data.
Definition i_enc_attributes := enc_attributes sym_enc.
Definition i_enc_pc_seq := enc_pc_seq sym_enc md_enc.
Definition i_enc_mesh_seq := enc_mesh_seq sym_enc md_enc.
Definition i_dec_pc_seq (skip : Z -> bool) := dec_pc_seq sym_dec md_dec skip.
Definition i_dec_mesh_seq (skip : Z -> bool) := dec_mesh_seq sym_dec md_dec skip.
Definition i_version_ok (ty maj mnr : Z) : bool :=
  @version_ok {| h_maj := maj; h_min := mnr; h_type := ty; h_method := 0; h_flags := 0 |}.
