(** C15 — the OBJ / PLY / STL file-format models.  The model is split by format:
      Model/IoText.v    text helpers shared by the PLY header parser and the OBJ corner parser
      Model/PlyModel.v  PlyEncoder (binary little endian) and PlyReader + PlyDecoder for that dialect, byte level
      Model/StlModel.v  StlEncoder / StlDecoder, byte level
      Model/ObjModel.v  ObjEncoder / ObjDecoder as a stream of tokenised lines; number text is an oracle
    This file only re-exports them. *)
From Draco Require Export Model.IoText Model.PlyModel Model.StlModel Model.ObjModel.
