(** The executable instance of the adaptive coder's probability function:
    adaptive_rans_bit_coding_shared.h  clamp_probability / update_probability in IEEE binary64
    (x86-64 SSE2 scalar double arithmetic, round-to-nearest-even), via Flocq. *)
From Coq Require Import ZArith Bool List.
From Flocq Require Import Core IEEE754.BinarySingleNaN IEEE754.Binary IEEE754.Bits.
Import ListNotations.
Local Open Scope Z_scope.

Definition d_half : binary64 := b64_of_bits 4602678819172646912.   (* 0x3FE0000000000000 = 0.5 *)
Definition d_w0   : binary64 := b64_of_bits 4607112050055839744.   (* 0x3FEFC00000000000 = 127/128 *)
Definition d_w1   : binary64 := b64_of_bits 4575657221408423936.   (* 0x3F80000000000000 = 1/128 *)
Definition d_256  : binary64 := b64_of_bits 4643211215818981376.   (* 0x4070000000000000 = 256.0 *)
Definition d_one  : binary64 := b64_of_bits 4607182418800017408.   (* 0x3FF0000000000000 = 1.0 *)
Definition d_zero : binary64 := B754_zero 53 1024 false.

(** static_cast<uint32_t>(double) for a non-negative finite value: truncation. *)
Definition d_trunc (x : binary64) : Z :=
  match x with
  | B754_finite _ _ false m e _ => if 0 <=? e then Zpos m * 2 ^ e else Zpos m / 2 ^ (- e)
  | _ => 0
  end.

(** uint32_t p_int = (uint32_t)((p * 256) + 0.5); p_int -= (p_int == 256); p_int += (p_int == 0); *)
Definition clamp_probability (p : binary64) : Z :=
  let p_int := d_trunc (b64_plus mode_NE (b64_mult mode_NE p d_256) d_half) mod 2 ^ 32 in
  let p_int := if p_int =? 256 then p_int - 1 else p_int in
  let p_int := if p_int =? 0 then p_int + 1 else p_int in
  p_int mod 256.
(** return old_p * w0 + (!bit) * w1; *)
Definition update_probability (old_p : binary64) (bit : bool) : binary64 :=
  b64_plus mode_NE (b64_mult mode_NE old_p d_w0)
                   (b64_mult mode_NE (if bit then d_zero else d_one) d_w1).

