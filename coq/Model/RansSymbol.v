(** Model of the rANS symbol coder of /repo/src/draco/compression/entropy:
      ans.h                   struct rans_sym, RAnsEncoder<P> (write_init, rans_write, write_end),
                              RAnsDecoder<P> (read_init, rans_read, fetch_sym, rans_build_look_up_table)
      rans_symbol_coding.h    ComputeRAnsUnclampedPrecision, ComputeRAnsPrecisionFromUniqueSymbolsBitLength
      rans_symbol_encoder.h   RAnsSymbolEncoder<N>::Create / EncodeTable / StartEncoding / EncodeSymbol / EndEncoding
      rans_symbol_decoder.h   RAnsSymbolDecoder<N>::Create / StartDecoding / DecodeSymbol

    Conventions.  Bytes are [list Z].  C++ vectors that are indexed at random ([probability_table_],
    [lut_table_]) are binary tries ([arr], Coq's PositiveMap) with a checked accessor [arr_get] that returns
    [None] outside the filled range; decoders turn that into [Oob], encoders into [None].
    uint32 arithmetic is written with an explicit [mod 2^32]; x >> k and x & (2^k-1) on unsigned values are
    written x / 2^k and x mod 2^k.
    The double-precision steps of Create are the two [Section] variables [rnd] and [scale]; the instance that
    reproduces the C++ bit for bit is in Model/RansFloat.v. *)
From Coq Require Import FMapPositive.
From Draco Require Import Base.Codec Model.Varint.
Local Open Scope Z_scope.

(** * Results of decoders: value, or `return false`, or an out-of-bounds access, or input outside the modelled
      domain (buffers of 2^26 bytes and more, where the C++ uint32 counters can wrap). *)
Inductive dres (A : Type) : Type := Ok (a : A) | Fail | Oob | Unmod.
Arguments Ok {A} a. Arguments Fail {A}. Arguments Oob {A}. Arguments Unmod {A}.
Definition dbind {A B} (r : dres A) (f : A -> dres B) : dres B :=
  match r with Ok a => f a | Fail => Fail | Oob => Oob | Unmod => Unmod end.
Notation "'dlet' x <- e ; f" := (dbind e (fun x => f))
  (at level 200, x pattern, e at level 100, f at level 200, right associativity).
Definition of_opt {A} (o : option A) : dres A := match o with Some a => Ok a | None => Fail end.
Definition to_opt {A} (r : dres A) : option A := match r with Ok a => Some a | _ => None end.

(** * Arrays with checked access *)
Definition arr (A : Type) := PositiveMap.t A.
Definition akey (i : Z) : positive := Z.to_pos (i + 1).
Definition arr_get {A} (m : arr A) (i : Z) : option A :=
  if i <? 0 then None else PositiveMap.find (akey i) m.
Definition arr_set {A} (m : arr A) (i : Z) (a : A) : arr A := PositiveMap.add (akey i) a m.
Fixpoint arr_fill {A} (l : list A) (i : Z) (m : arr A) : arr A :=
  match l with [] => m | a :: r => arr_fill r (i + 1) (arr_set m i a) end.
Definition arr_of_list {A} (l : list A) : arr A := arr_fill l 0 (PositiveMap.empty A).

(** [rev' l = rev_append l []] is List.rev in linear time ([List.rev_alt]). *)
Fixpoint zsum (l : list Z) : Z := match l with [] => 0 | x :: r => x + zsum r end.
Definition zlen {A} (l : list A) : Z := Z.of_nat (length l).

(** * rans_symbol_coding.h *)
(** ComputeRAnsPrecisionFromUniqueSymbolsBitLength: (3*bits)/2 clamped to [12,20]. *)
Definition rans_precision_bits (b : Z) : Z :=
  let u := (3 * b) / 2 in if u <? 12 then 12 else if u >? 20 then 20 else u.

(** * ans.h : RAnsEncoder<P>.  The coder state is (state, bytes written so far, most recent first). *)
Definition rans_L (P : Z) : Z := 4 * 2 ^ P.                      (* l_rans_base *)
Definition rstate := (Z * list Z)%type.
Definition rans_write_init (P : Z) : rstate := (rans_L P, []).

(** while (state >= l_rans_base / rans_precision * DRACO_ANS_IO_BASE * p) { buf[off++] = state % 256; state /= 256; }
    The loop runs at most 4 times for any uint32 state when the limit is positive; with p = 0 it never ends
    (fuel exhausted, [None]). *)
Fixpoint enc_renorm (fuel : nat) (lim x : Z) (stk : list Z) : option rstate :=
  match fuel with
  | O => None
  | S f => if x >=? lim then enc_renorm f lim (x / 256) (x mod 256 :: stk) else Some (x, stk)
  end.

(** rans_write(sym): sym = (prob, cum_prob). *)
Definition rans_write (P : Z) (sym : Z * Z) (st : rstate) : option rstate :=
  let '(p, c) := sym in
  let '(x, stk) := st in
  match enc_renorm 5 ((4 * 256 * p) mod 2 ^ 32) x stk with
  | None => None
  | Some (x', stk') => Some (((x' / p) * 2 ^ P + x' mod p + c) mod 2 ^ 32, stk')
  end.

(** write_end: the 1..4 byte tail with the 2-bit length tag in the top bits of the LAST byte.  A state that
    does not fit 30 bits writes nothing (DRACO_DCHECK only). *)
Definition rans_tail (P x : Z) : bytes :=
  let s := (x - rans_L P) mod 2 ^ 32 in
  if s <? 2 ^ 6 then [s]
  else if s <? 2 ^ 14 then let v := 2 ^ 14 + s in [v mod 256; (v / 256) mod 256]
  else if s <? 2 ^ 22 then let v := 2 * 2 ^ 22 + s in [v mod 256; (v / 256) mod 256; (v / 65536) mod 256]
  else if s <? 2 ^ 30 then let v := 3 * 2 ^ 30 + s in
                           [v mod 256; (v / 256) mod 256; (v / 65536) mod 256; (v / 16777216) mod 256]
  else [].
(** The bytes between write_init and write_end, in buffer order. *)
Definition rans_block (P : Z) (st : rstate) : bytes := rev_append (snd st) (rans_tail P (fst st)).

(** * ans.h : RAnsDecoder<P> *)
(** read_init(buf, offset) on the block [blk] (offset = its length).  Every branch checks that the block holds the
    1..4 tail bytes it reads (the x == 3 branch since commit f82c4f5), so nothing outside the block is looked at.
    [pre] (the bytes in front of the block, nearest first) is kept as an argument for the callers but is ignored.
    The decoder state is (state, unread bytes of the block, last first). *)
Definition rans_read_init (P : Z) (pre : list Z) (blk : bytes) : dres rstate :=
  let L := rans_L P in
  let chk (x : Z) (stk : list Z) : dres rstate :=
      let x' := (x + L) mod 2 ^ 32 in if x' >=? L * 256 then Fail else Ok (x', stk) in
  match rev' blk with
  | [] => Fail                                                     (* offset < 1 *)
  | b0 :: r0 =>
    let x := b0 / 64 in
    if x =? 0 then chk (b0 mod 64) r0
    else if x =? 1 then
      match r0 with
      | b1 :: r1 => chk ((b0 * 256 + b1) mod 2 ^ 14) r1
      | [] => Fail
      end
    else if x =? 2 then
      match r0 with
      | b1 :: b2 :: r2 => chk ((b0 * 65536 + b1 * 256 + b2) mod 2 ^ 22) r2
      | _ => Fail
      end
    else
      match r0 with
      | b1 :: b2 :: b3 :: r3 => chk ((b0 * 16777216 + b1 * 65536 + b2 * 256 + b3) mod 2 ^ 30) r3
      | _ => Fail                                                  (* offset < 4 *)
      end
  end.

(** while (state < l_rans_base && buf_offset > 0) state = state * 256 + buf[--buf_offset]; *)
Fixpoint dec_renorm (L x : Z) (stk : list Z) : rstate :=
  match stk with
  | [] => (x, [])
  | b :: r => if x <? L then dec_renorm L ((x * 256 + b) mod 2 ^ 32) r else (x, stk)
  end.

(** The decoder object after Create: num_symbols_ and probability_table_ (prob, cum_prob).
    lut_table_ (slot -> symbol, 2^P entries, filled by rans_build_look_up_table with symbol i in the slots
    [cum_prob_i, cum_prob_i + prob_i)) is not materialised: [fetch_sym] finds the symbol owning a slot by
    bisection on cum_prob (the last symbol whose cum_prob is <= the slot), which is the entry the C++ reads
    from its table whenever rans_build_look_up_table succeeded. *)
Record rdec := { d_n : Z; d_tbl : arr (Z * Z) }.

Fixpoint bsearch (fuel : nat) (tbl : arr (Z * Z)) (rem lo hi : Z) : option Z :=
  match fuel with
  | O => None
  | S f =>
    if hi - lo <=? 1 then Some lo else
    let mid := (lo + hi) / 2 in
    match arr_get tbl mid with
    | None => None
    | Some (_, c) => if c <=? rem then bsearch f tbl rem mid hi else bsearch f tbl rem lo mid
    end
  end.
Definition fetch_sym (d : rdec) (rem : Z) : option Z :=
  if d_n d <=? 0 then None else bsearch 40 (d_tbl d) rem 0 (d_n d).

(** rans_read: returns the symbol and the new state. *)
Definition rans_read (P : Z) (d : rdec) (st : rstate) : dres (Z * rstate) :=
  let '(x, stk) := st in
  let '(x1, stk1) := dec_renorm (rans_L P) x stk in
  let quo := x1 / 2 ^ P in
  let rem := x1 mod 2 ^ P in
  match fetch_sym d rem with                                       (* fetch_sym: lut_table_[rem] *)
  | None => Oob
  | Some s =>
    match arr_get (d_tbl d) s with                                 (* probability_table_[symbol] *)
    | None => Oob
    | Some (p, c) => Ok (s, ((quo * p + rem - c) mod 2 ^ 32, stk1))
    end
  end.

Fixpoint rans_read_n (P : Z) (d : rdec) (n : nat) (st : rstate) : dres (list Z * rstate) :=
  match n with
  | O => Ok ([], st)
  | S k => dlet (s, st1) <- rans_read P d st;
           dlet (l, st2) <- rans_read_n P d k st1;
           Ok (s :: l, st2)
  end.

Fixpoint zrepeat {A} (a : A) (n : nat) (tl : list A) : list A :=
  match n with O => tl | S k => a :: zrepeat a k tl end.

(** rans_build_look_up_table(token_probs, num_symbols): cumulative probabilities;
    false when the running total exceeds, or the final total differs from, rans_precision. *)
Fixpoint build_tbl (prec : Z) (probs : list Z) (cum : Z) : option (list (Z * Z)) :=
  match probs with
  | [] => if cum =? prec then Some [] else None
  | p :: r =>
    let cum' := (cum + p) mod 2 ^ 32 in
    if cum' >? prec then None
    else match build_tbl prec r cum' with
         | None => None
         | Some t => Some ((p, cum) :: t)
         end
  end.

(** * rans_symbol_encoder.h : EncodeTable *)
(** Bytes of one non-zero probability: ((prob << 2) | extra) then `extra` bytes prob >> (8(b+1)-2).
    [None]: prob >= 2^22 (`return false`). *)
Definition enc_prob (p : Z) : option bytes :=
  if p <? 2 ^ 6 then Some [(p * 4) mod 256]
  else if p <? 2 ^ 14 then Some [(p * 4 + 1) mod 256; (p / 2 ^ 6) mod 256]
  else if p <? 2 ^ 22 then Some [(p * 4 + 2) mod 256; (p / 2 ^ 6) mod 256; (p / 2 ^ 14) mod 256]
  else None.
Definition zero_run_byte (k : Z) : Z := k * 4 + 3.

(** The loop of EncodeTable as one left-to-right pass: [run = Some k] means a zero-probability entry was met
    k+1 entries ago and every entry since is zero (k <= 63 is the `offset` the C++ loop is counting).  The C++
    looks ahead with probability_table_[i + offset + 1] without a bound test; running off the end of the table
    (a table that ends in a zero entry) is an out-of-bounds read there and [None] here. *)
Fixpoint enc_table_loop (probs : list Z) (run : option Z) : option bytes :=
  match probs with
  | [] => match run with None => Some [] | Some _ => None end
  | p :: r =>
    if p =? 0 then
      match run with
      | None => enc_table_loop r (Some 0)
      | Some k => if k <? 63 then enc_table_loop r (Some (k + 1))
                  else match enc_table_loop r (Some 0) with
                       | Some t => Some (zero_run_byte k :: t)
                       | None => None
                       end
      end
    else
      match enc_prob p, enc_table_loop r None with
      | Some pb, Some t =>
        Some (match run with Some k => zero_run_byte k :: pb ++ t | None => pb ++ t end)
      | _, _ => None
      end
  end.
Definition enc_table (probs : list Z) : option bytes :=
  match enc_varint_u (zlen probs mod 2 ^ 32), enc_table_loop probs None with
  | Some n, Some t => Some (n ++ t)
  | _, _ => None
  end.

(** * rans_symbol_decoder.h : Create *)
(** The token loop.  Every iteration consumes at least one byte, so the recursion is on the buffer.
    [acc] is the table so far, reversed. *)
Fixpoint dec_table_loop (n i : Z) (bs : bytes) (acc : list Z) {struct bs} : dres (list Z * bytes) :=
  if i >=? n then Ok (rev' acc, bs) else
  match bs with
  | [] => Fail
  | b :: r =>
    let token := b mod 4 in
    if token =? 3 then
      let offset := b / 4 in
      if i + offset >=? n then Fail
      else dec_table_loop n (i + offset + 1) r (zrepeat 0 (Z.to_nat (offset + 1)) acc)
    else if token =? 0 then dec_table_loop n (i + 1) r (b / 4 :: acc)
    else if token =? 1 then
      match r with
      | e1 :: r1 => dec_table_loop n (i + 1) r1 (b / 4 + e1 * 2 ^ 6 :: acc)
      | [] => Fail
      end
    else
      match r with
      | e1 :: e2 :: r2 => dec_table_loop n (i + 1) r2 (b / 4 + e1 * 2 ^ 6 + e2 * 2 ^ 14 :: acc)
      | _ => Fail
      end
  end.

(** RAnsSymbolDecoder<N>::Create on a buffer of bitstream version [ver] (major*256+minor; 0 = not set).
    Versions before 2.0 store num_symbols as a fixed uint32.  Returns the decoder and the unread bytes.
    [Unmod]: num_symbols + 64 >= 2^32 (needs a buffer of 2^26 bytes; the uint32 `i + offset` could wrap). *)
Definition rans_dec_create (ver P : Z) (bs : bytes) : dres (rdec * bytes) :=
  if ver =? 0 then Fail else
  dlet (n, r) <- of_opt (if ver <? 512 then dec_le 4 bs else dec_varint_u 32 bs);
  if n / 64 >? zlen r then Fail else
  if n =? 0 then Ok ({| d_n := 0; d_tbl := PositiveMap.empty _ |}, r) else
  if n + 64 >=? 2 ^ 32 then Unmod else
  dlet (probs, r') <- dec_table_loop n 0 r [];
  match build_tbl (2 ^ P) probs 0 with
  | None => Fail
  | Some t => Ok ({| d_n := n; d_tbl := arr_of_list t |}, r')
  end.

(** The bytes just consumed, most recent first, in front of [pre]: [bs] = consumed ++ [rest]. *)
Definition consumed_rev (bs rest : bytes) (pre : list Z) : list Z :=
  rev_append (firstn (length bs - length rest)%nat bs) pre.

(** StartDecoding: bytes_encoded (varint u64; fixed u64 before 2.0) > remaining -> false; read_init on the
    block; the buffer is advanced past the block.  [Unmod]: a block of 2^31 bytes or more (the length is cast
    to int). *)
Definition rans_start_decoding (ver P : Z) (pre : list Z) (bs : bytes) : dres (rstate * bytes) :=
  dlet (len, r) <- of_opt (if ver <? 512 then dec_le 8 bs else dec_varint_u 64 bs);
  if len >? zlen r then Fail else
  if len >=? 2 ^ 31 then Unmod else
  let k := Z.to_nat len in
  dlet st <- rans_read_init P (consumed_rev bs r pre) (firstn k r);
  Ok (st, skipn k r).

(** The call sequence of DecodeRawSymbolsInternal<RAnsSymbolDecoder<N>> (also what the direct harness does):
    Create; num_values > 0 && num_symbols == 0 -> false; StartDecoding; DecodeSymbol * num_values. *)
Definition rans_decode_symbols (ver P : Z) (n : nat) (pre : list Z) (bs : bytes) : dres (list Z * bytes) :=
  dlet (d, r) <- rans_dec_create ver P bs;
  if (0 <? Z.of_nat n) && (d_n d =? 0) then Fail else
  dlet (st, r') <- rans_start_decoding ver P (consumed_rev bs r pre) r;
  dlet (syms, _) <- rans_read_n P d n st;
  Ok (syms, r').

(** * rans_symbol_encoder.h : Create
    [rnd total freq]      = static_cast<uint32_t>(double(freq) / double(total) * double(rans_precision) + 0.5f)
    [relf tot]            = act_rel_error_d = double(rans_precision) / double(tot)      (a value of the type [F])
    [scalef rel prob]     = static_cast<int32_t>(floor(rel * double(prob)))
    Outcomes: the table (prob per symbol); `return false`; the outer `while (error > 0)` did not end within
    the fuel (it never does in the C++ when it only has one symbol to adjust); or a value left the range of
    its C++ type (an oracle result outside [0, 2^32) resp. outside [0, prob], or a total above int) —
    situations whose wrap-around semantics are not modelled. *)
Inductive cres := COk (probs : list Z) | CFalse | CFuel | CUnmod.

Fixpoint drop_zeros (l : list Z) : list Z :=
  match l with [] => [] | x :: r => if x =? 0 then drop_zeros r else l end.
(** num_symbols = max_valid_symbol + 1 (at least 1): the frequencies up to the last non-zero one. *)
Definition trim_freqs (freqs : list Z) : list Z :=
  match rev' (drop_zeros (rev' freqs)) with [] => firstn 1 freqs | l => l end.

(** index of the last maximum (std::stable_sort by prob ascending, then .back()) *)
Fixpoint last_max (l : list Z) (i best bi : Z) : Z :=
  match l with [] => bi | p :: r => if p >=? best then last_max r (i + 1) p i else last_max r (i + 1) best bi end.

(** Insertion of (prob, index) into a list sorted by descending (prob, index); used through a merge sort. *)
Definition pair_ge (a b : Z * Z) : bool :=
  (fst b <? fst a) || ((fst a =? fst b) && (snd b <=? snd a)).
Fixpoint merge_desc (l1 : list (Z * Z)) : list (Z * Z) -> list (Z * Z) :=
  fix inner (l2 : list (Z * Z)) : list (Z * Z) :=
    match l1, l2 with
    | [], _ => l2
    | _, [] => l1
    | a :: r1, b :: r2 => if pair_ge a b then a :: merge_desc r1 l2 else b :: inner r2
    end.
(** bottom-up merge sort: a stack of sorted runs of doubling size *)
Fixpoint push_run (run : list (Z * Z)) (stack : list (option (list (Z * Z)))) : list (option (list (Z * Z))) :=
  match stack with
  | [] => [Some run]
  | None :: s => Some run :: s
  | Some r :: s => None :: push_run (merge_desc r run) s
  end.
Fixpoint flush_runs (stack : list (option (list (Z * Z)))) (acc : list (Z * Z)) : list (Z * Z) :=
  match stack with
  | [] => acc
  | None :: s => flush_runs s acc
  | Some r :: s => flush_runs s (merge_desc r acc)
  end.
Fixpoint sort_runs (l : list (Z * Z)) (stack : list (option (list (Z * Z)))) : list (Z * Z) :=
  match l with [] => flush_runs stack [] | a :: r => sort_runs r (push_run [a] stack) end.
(** Symbol ids by descending (prob, id): sorted_probabilities[num_symbols-1], [num_symbols-2], ..., [0].
    (prob, id) pairs are all distinct, so this is the reverse of what the stable sort by prob produces. *)
Fixpoint index_from (i : Z) (l : list Z) : list (Z * Z) :=
  match l with [] => [] | p :: r => (p, i) :: index_from (i + 1) r end.
Definition sorted_desc (probs : list Z) : list Z := map snd (sort_runs (index_from 0 probs) []).

Section Create.
  Variable F : Type.
  Variable rnd : Z -> Z -> Z.
  Variable relf : Z -> F.
  Variable scalef : F -> Z -> Z.
  Variable P : Z.
  Let prec := 2 ^ P.

  (** One pass of `for (j = num_symbols - 1; j > 0; --j)` over the ids [ids] (descending order, without
      sorted_probabilities[0]); [first] = (j == num_symbols - 1).  [act] is total_rans_prob at the start of the
      pass (act_rel_error_d is computed once per pass), [total]/[err] are updated as the pass goes. *)
  Inductive pass_res := PCont (a : arr Z) (total err : Z) | PFalse | POob | PUnmod.
  Fixpoint repair_pass (act : F) (ids : list Z) (first : bool) (a : arr Z) (total err : Z) : pass_res :=
    match ids with
    | [] => PCont a total err
    | id :: r =>
      match arr_get a id with
      | None => POob
      | Some p =>
        if p <=? 1 then (if first then PFalse else PCont a total err)
        else
          let np := scalef act p in
          if (np <? 0) || (np >? p) then PUnmod else
          let fix0 := p - np in
          let fix1 := if fix0 =? 0 then 1 else fix0 in
          let fix2 := if fix1 >=? p then p - 1 else fix1 in
          let fix3 := if fix2 >? err then err else fix2 in
          let a' := arr_set a id (p - fix3) in
          if total - fix3 =? prec then PCont a' (total - fix3) (err - fix3)
          else repair_pass act r false a' (total - fix3) (err - fix3)
      end
    end.
  (** while (error > 0) *)
  Fixpoint repair_loop (fuel : nat) (ids : list Z) (a : arr Z) (total err : Z) : pass_res :=
    if err <=? 0 then PCont a total err else
    match fuel with
    | O => PCont a total err    (* err > 0 left: reported as CFuel by [rans_create] *)
    | S f =>
      match repair_pass (relf total) ids true a total err with
      | PCont a' total' err' => repair_loop f ids a' total' err'
      | other => other
      end
    end.

  Fixpoint read_back (a : arr Z) (i : Z) (l : list Z) : option (list Z) :=
    match l with
    | [] => Some []
    | _ :: r => match arr_get a i, read_back a (i + 1) r with
                | Some p, Some t => Some (p :: t)
                | _, _ => None
                end
    end.

  (** Create up to (not including) EncodeTable: the final probabilities. *)
  Definition rans_create (freqs : list Z) : cres :=
    let fr := trim_freqs freqs in
    let total_freq := zsum freqs mod 2 ^ 64 in
    let rt := rnd total_freq in
    (* a zero frequency gives 0.0 / total * precision + 0.5 = 0.5, truncated to 0, for every total > 0: not sent
       through the oracle, so that the extracted model costs float operations for used symbols only *)
    let probs0 := map (fun f => let r := if f =? 0 then 0 else rt f in if (r =? 0) && (0 <? f) then 1 else r) fr in
    if negb (forallb (fun r => (0 <=? r) && (r <? 2 ^ 32)) probs0) then CUnmod else
    let total0 := zsum probs0 in
    if total0 >=? 2 ^ 31 then CUnmod else
    (* `uint32_t total_prob` summed over the table, then `if (total_prob != rans_precision_) return false`;
       a sum outside uint32 (it would wrap) is reported as unmodelled *)
    let fin (probs : list Z) : cres :=
        let t := zsum probs in
        if (t <? 0) || (t >=? 2 ^ 32) then CUnmod else if t =? prec then COk probs else CFalse in
    if total0 =? prec then fin probs0
    else if total0 <? prec then
      let a := arr_of_list probs0 in
      let imax := last_max probs0 0 (-1) 0 in
      match arr_get a imax with
      | None => CUnmod
      | Some p => match read_back (arr_set a imax (p + (prec - total0))) 0 probs0 with
                  | Some probs => fin probs
                  | None => CUnmod
                  end
      end
    else
      let err := total0 - prec in
      match repair_loop (S (Z.to_nat err)) (removelast (sorted_desc probs0)) (arr_of_list probs0) total0 err with
      | PCont a _ e =>
        if 0 <? e then CFuel else
        match read_back a 0 probs0 with Some probs => fin probs | None => CUnmod end
      | PFalse => CFalse
      | POob => CUnmod
      | PUnmod => CUnmod
      end.
End Create.

(** cum_prob of every entry *)
Fixpoint with_cum (probs : list Z) (cum : Z) : list (Z * Z) :=
  match probs with [] => [] | p :: r => (p, cum) :: with_cum r (cum + p) end.

(** StartEncoding; EncodeSymbol for the symbols in REVERSE order (what the callers do because
    needs_reverse_encoding() is true); [None] if a symbol is outside the table (unchecked
    probability_table_[symbol]) or has probability 0 (rans_write then never terminates). *)
Fixpoint rans_encode_syms (P : Z) (tbl : arr (Z * Z)) (syms : list Z) (st : rstate) : option rstate :=
  match syms with
  | [] => Some st
  | s :: r =>
    match rans_encode_syms P tbl r st with
    | None => None
    | Some st' => match arr_get tbl s with
                  | None => None
                  | Some sym => rans_write P sym st'
                  end
    end
  end.

(** EndEncoding: varint(bytes_written) then the block. *)
Definition rans_end_encoding (P : Z) (st : rstate) : option bytes :=
  let blk := rans_block P st in
  match enc_varint_u (zlen blk) with
  | Some l => Some (l ++ blk)
  | None => None
  end.

(** Table bytes ++ length ++ block for the symbols [syms] (in their natural order) under probabilities [probs]. *)
Definition rans_encode_with (P : Z) (probs : list Z) (syms : list Z) : option bytes :=
  match enc_table probs with
  | None => None
  | Some tb =>
    match rans_encode_syms P (arr_of_list (with_cum probs 0)) syms (rans_write_init P) with
    | None => None
    | Some st => match rans_end_encoding P st with
                 | Some b => Some (tb ++ b)
                 | None => None
                 end
    end
  end.
