(** Mesh prediction schemes of the Edgebreaker attribute layer (property C01):
      compression/attributes/prediction_schemes/mesh_prediction_scheme_data.h
      .../mesh_prediction_scheme_parallelogram_{shared,encoder,decoder}.h
      .../mesh_prediction_scheme_constrained_multi_parallelogram_{shared,encoder,decoder}.h
      .../mesh_prediction_scheme_tex_coords_portable_{predictor,encoder,decoder}.h, core/math_utils.h (IntSqrt)
      .../mesh_prediction_scheme_geometric_normal_{encoder,decoder,predictor_area,predictor_base}.h (section 6)
    for DataTypeT = CorrType = int32_t, TransformT = PredictionSchemeWrap{En,De}codingTransform<int32_t>
    (Model/Wrap.v), MeshDataT = MeshPredictionSchemeData<CornerTable>.

    Shape of every scheme.  The ENCODER walks the entries p = n-1 … 0 over the ORIGINAL data and writes
    out_corr[p] = transform.ComputeCorrection(orig[p], prediction(p)); the DECODER walks p = 0 … n-1 over the
    data it has DECODED so far and writes out_data[p] = transform.ComputeOriginalValue(prediction(p), corr[p]).
    [causal_enc]/[causal_dec] model exactly these two loops for an arbitrary predictor.  Causality is true by
    construction: the predictor is handed only the prefix (entries 0 … p-1) of the array the C++ passes as a
    whole (the C++ guards every read of in_data/out_data by a `< data_entry_id` test; a read the guards would
    let through but that is not in the prefix — a negative entry id — makes the model fail, it is an
    out-of-bounds read in the C++).

    Policy.  Some encoders choose side bits (crease flags, orientations) by an optimisation over the original
    value.  The choice is an INPUT of the model encoder ([choice : nat -> A], read off what the implementation
    chose); the theorems quantify over every choice.  What the encoder records per entry is a value of type [W];
    the decoder threads a state [St] (the streams it reads the bits from).

    Failure.  [None] = an array index outside its array in the C++ (undefined behaviour there), fuel exhaustion
    of a swing loop (a loop the C++ would not leave), or `return false`.  The round-trip theorems need no
    well-formedness: whenever the model encoder returns [Some], the decoder returns the original.  The
    well-formedness the C++ assumes is only needed for the encoder not to fail ([md_wf] in Predict_proofs.v). *)
From Coq Require Import ZArith List Bool Arith.
From Draco Require Import Base.Codec Model.Varint Model.Wrap Model.Octahedron Model.CornerTable Model.SeqAttr Model.BitCoders.
Import ListNotations.
Local Open Scope Z_scope.

(** * 1. The two loops, for any predictor and any transform *)
Section Causal.
  Context {E Pr C A W St : Type}.
  Variable tenc : E -> Pr -> C.          (* transform().ComputeCorrection(orig, pred) *)
  Variable tdec : Pr -> C -> E.          (* transform().ComputeOriginalValue(pred, corr) *)
  (** encoder-side predictor: prefix of the ORIGINAL data, entry id, the policy choice for this entry
      -> prediction and what the encoder records for the decoder *)
  Variable Pe : list E -> nat -> A -> option (Pr * W).
  (** decoder-side predictor: prefix of the DECODED data, entry id, reader state -> prediction, new state *)
  Variable Pd : list E -> nat -> St -> option (Pr * St).

  (** for (p = k-1; p >= 0; --p) { out_corr[p] = …; record }   —  [out] = out_corr[k … n-1] (writing
      out_corr[p] for descending p is consing), [ws] = the records of entries k … n-1 in ASCENDING entry order
      (the C++ push_back order is the reverse of this list). *)
  Fixpoint enc_down (data : list E) (choice : nat -> A) (k : nat) (out : list C) (ws : list W)
    : option (list C * list W) :=
    match k with
    | O => Some (out, ws)
    | S i =>
      match nth_error data i with
      | None => None
      | Some o =>
        match Pe (firstn i data) i (choice i) with
        | None => None
        | Some (p, w) => enc_down data choice i (tenc o p :: out) (w :: ws)
        end
      end
    end.
  Definition causal_enc (data : list E) (choice : nat -> A) : option (list C * list W) :=
    enc_down data choice (length data) [] [].

  (** for (p = i; p < n; ++p) out_data[p] = …   —  [out] = out_data[0 … i-1] *)
  Fixpoint dec_up (corr : list C) (i : nat) (out : list E) (st : St) : option (list E * St) :=
    match corr with
    | [] => Some (out, st)
    | c :: rest =>
      match Pd out i st with
      | None => None
      | Some (p, st') => dec_up rest (S i) (out ++ [tdec p c]) st'
      end
    end.
  Definition causal_dec (corr : list C) (st : St) : option (list E * St) := dec_up corr 0%nat [] st.
End Causal.

(** * 2. Side information: MeshPredictionSchemeData<CornerTable> *)
Definition row := list Z.                       (* one entry: num_components int32 values *)
Record mesh_data := mk_md {
  md_c2v : list nat;             (* corner_table()->Vertex(c) = corner_to_vertex_map_[c] *)
  md_opp : list (option nat);    (* corner_table()->Opposite(c) = opposite_corners_[c]; None = kInvalidCornerIndex *)
  md_d2c : list nat;             (* data_to_corner_map: the corner processed when entry p was coded *)
  md_v2d : list Z                (* vertex_to_data_map (int32): the entry id of a vertex *)
}.
Definition md_num_corners (md : mesh_data) : Z := Z.of_nat (length (md_c2v md)).
(** array reads: [None] = index outside the array *)
Definition md_opposite (md : mesh_data) (c : nat) : option (option nat) := nth_error (md_opp md) c.
Definition md_entry_of_corner (md : mesh_data) (c : nat) : option Z :=
  match nth_error (md_c2v md) c with
  | Some v => nth_error (md_v2d md) v
  | None => None
  end.
(** SwingLeft(c) = Next(Opposite(Next(c))), SwingRight(c) = Previous(Opposite(Previous(c))) *)
Definition md_swing_left (md : mesh_data) (c : nat) : option (option nat) :=
  match md_opposite md (next_c c) with
  | None => None
  | Some None => Some None
  | Some (Some o) => Some (Some (next_c o))
  end.
Definition md_swing_right (md : mesh_data) (c : nat) : option (option nat) :=
  match md_opposite md (prev_c c) with
  | None => None
  | Some None => Some None
  | Some (Some o) => Some (Some (prev_c o))
  end.
(** in_data + e * num_components, read through the prefix the predictor is given *)
Definition data_at (pre : list row) (e : Z) : option row :=
  if e <? 0 then None else nth_error pre (Z.to_nat e).

Fixpoint map3 (f : Z -> Z -> Z -> Z) (a b c : list Z) : list Z :=
  match a, b, c with
  | x :: a', y :: b', z :: c' => f x y z :: map3 f a' b' c'
  | _, _, _ => []
  end.

(** the wrap transform on rows (ComputeCorrection / ComputeOriginalValue loop over the components) *)
Definition row_enc (b : wrap_bounds) (o p : row) : row := map2 (wrap_enc b) o p.
Definition row_dec (b : wrap_bounds) (p c : row) : row := map2 (wrap_dec b) p c.
(** EncodeTransformData / DecodeTransformData of the wrap transform: min_value, max_value as int32 *)
Definition wrap_data_enc (b : wrap_bounds) : bytes :=
  enc_le 4 (wb_min b mod 2 ^ 32) ++ enc_le 4 (wb_max b mod 2 ^ 32).
Definition wrap_data_dec (bs : bytes) : option (wrap_bounds * bytes) :=
  match dec_le 4 bs with
  | None => None
  | Some (mnu, r1) =>
    match dec_le 4 r1 with
    | None => None
    | Some (mxu, r2) =>
      match wrap_dec_init (i32_of_u32 mnu) (i32_of_u32 mxu) with
      | None => None
      | Some b => Some (b, r2)
      end
    end
  end.

(** The well-formedness the C++ assumes of MeshPredictionSchemeData (nothing checks it): the table has 3 corners per
    face and as many Opposite as Vertex entries, opposites are corners of the table, every corner's vertex has a
    non-negative entry id in vertex_to_data_map (ids >= the current entry are simply "not yet available"; a negative
    id would pass every `< data_entry_id` test and index in front of the array), data_to_corner_map holds corners
    of the table, one per entry.  Nothing about the ORDER of the entries is needed. *)
Definition md_wf (md : mesh_data) (n : nat) : Prop :=
  length (md_opp md) = length (md_c2v md) /\
  (exists nf, length (md_c2v md) = (3 * nf)%nat) /\
  Forall (fun o => match o with Some c => (c < length (md_c2v md))%nat | None => True end) (md_opp md) /\
  Forall (fun v => exists e, nth_error (md_v2d md) v = Some e /\ 0 <= e) (md_c2v md) /\
  Forall (fun c => (c < length (md_c2v md))%nat) (md_d2c md) /\
  length (md_d2c md) = n.

(** * 3. ComputeParallelogramPrediction (mesh_prediction_scheme_parallelogram_shared.h)
      oci = table->Opposite(ci); if invalid return false;
      GetParallelogramEntries(oci): vert_opp/next/prev = vertex_to_data_map[Vertex(oci / Next(oci) / Previous(oci))]
      if (vert_opp < data_entry_id && vert_next < data_entry_id && vert_prev < data_entry_id)
         result = (int64)next + (int64)prev - (int64)opp;  out[c] = static_cast<int32_t>(result);  return true
      return false
    The sum of three int32 values is exact in int64; the cast back is [to_i32].
    Result: [None] = out-of-bounds read; [Some None] = returned false; [Some (Some r)] = prediction r. *)
Definition par_val (n p o : Z) : Z := to_i32 ((n + p) - o).
Definition par_prediction (md : mesh_data) (pre : list row) (p : Z) (ci : nat) : option (option row) :=
  match md_opposite md ci with
  | None => None
  | Some None => Some None
  | Some (Some oci) =>
    match md_entry_of_corner md oci, md_entry_of_corner md (next_c oci), md_entry_of_corner md (prev_c oci) with
    | Some vo, Some vn, Some vp =>
      if (vo <? p) && (vn <? p) && (vp <? p) then
        match data_at pre vn, data_at pre vp, data_at pre vo with
        | Some rn, Some rp, Some ro => Some (Some (map3 par_val rn rp ro))
        | _, _, _ => None
        end
      else Some None
    | _, _, _ => None
    end
  end.

(** ** MeshPredictionSchemeParallelogram{Encoder,Decoder}: the prediction of entry p
      p = 0: zeros;  p > 0: the parallelogram of corner data_to_corner_map[p], else entry p-1 (delta). *)
Definition par_predict (md : mesh_data) (nc : nat) (pre : list row) (i : nat) : option row :=
  match i with
  | O => Some (repeat 0 nc)
  | S j =>
    match nth_error (md_d2c md) i with
    | None => None
    | Some ci =>
      match par_prediction md pre (Z.of_nat i) ci with
      | None => None
      | Some (Some r) => Some r
      | Some None => nth_error pre j
      end
    end
  end.
Definition stateless {P S X : Type} (f : option P) (s : S) (x : X) : option (P * X) :=
  match f with Some p => Some (p, x) | None => None end.

(** The contract of both classes: one data_to_corner_map entry per data entry, at least one entry (both
    classes read/write entry 0 unconditionally), at least one component. *)
Definition sizes_ok (md : mesh_data) (nc n : nat) : bool :=
  (length (md_d2c md) =? n)%nat && negb (n =? 0)%nat && negb (nc =? 0)%nat.

(** ComputeCorrectionValues + EncodePredictionData (the wrap bounds; [None] also when the value range is
    too wide for the wrap transform, EncodeTransformData returns false). *)
Definition par_encode (md : mesh_data) (nc : nat) (data : list row) : option (list row * bytes) :=
  if negb (sizes_ok md nc (length data)) then None else
  match wrap_bounds_enc (concat data) with
  | None => None
  | Some b =>
    match causal_enc (row_enc b) (fun pre i (_ : unit) => stateless (par_predict md nc pre i) tt tt) data (fun _ => tt) with
    | None => None
    | Some (corr, _) => Some (corr, wrap_data_enc b)
    end
  end.
(** DecodePredictionData + ComputeOriginalValues *)
Definition par_decode (md : mesh_data) (nc : nat) (corr : list row) (bs : bytes) : option (list row * bytes) :=
  if negb (sizes_ok md nc (length corr)) then None else
  match wrap_data_dec bs with
  | None => None
  | Some (b, rest) =>
    match causal_dec (row_dec b) (fun pre i (_ : unit) => stateless (par_predict md nc pre i) tt tt) corr tt with
    | None => None
    | Some (out, _) => Some (out, rest)
    end
  end.

(** * 4. Constrained multi-parallelogram *)
(** The loop over the corners of the vertex (identical in encoder and decoder):
      corner_id = start; first_pass = true;
      while (corner_id != kInvalidCornerIndex) {
        if (ComputeParallelogramPrediction(p, corner_id, …, pred_vals[num_parallelograms]))
          { ++num_parallelograms; if (num_parallelograms == kMaxNumParallelograms) break; }
        corner_id = first_pass ? SwingLeft(corner_id) : SwingRight(corner_id);
        if (corner_id == start) break;
        if (corner_id == kInvalidCornerIndex && first_pass) { first_pass = false; corner_id = SwingRight(start); }
      }
    Fuel: one unit per iteration; a corner table visits every corner of the vertex at most once, so
    S (number of corners) never runs out on a table built by CornerTable::Create. *)
Definition kMaxNumParallelograms : nat := 4.
Fixpoint mp_collect (fuel : nat) (md : mesh_data) (pre : list row) (p : Z) (start : nat)
    (corner : option nat) (first_pass : bool) (acc : list row) : option (list row) :=
  match corner with
  | None => Some acc
  | Some c =>
    match fuel with
    | O => None
    | S f =>
      match par_prediction md pre p c with
      | None => None
      | Some r =>
        let acc' := match r with Some v => acc ++ [v] | None => acc end in
        if (match r with Some _ => true | None => false end) && (length acc' =? kMaxNumParallelograms)%nat
        then Some acc'
        else
          match (if first_pass then md_swing_left md c else md_swing_right md c) with
          | None => None
          | Some nxt =>
            match nxt with
            | Some c' =>
              if (c' =? start)%nat then Some acc' else mp_collect f md pre p start (Some c') first_pass acc'
            | None =>
              if first_pass then
                match md_swing_right md start with
                | None => None
                | Some nxt2 => mp_collect f md pre p start nxt2 false acc'
                end
              else Some acc'
            end
          end
      end
    end
  end.
Definition mp_parallelograms (md : mesh_data) (pre : list row) (i : nat) : option (list row) :=
  match nth_error (md_d2c md) i with
  | None => None
  | Some ci => mp_collect (S (length (md_opp md))) md pre (Z.of_nat i) ci (Some ci) true []
  end.

(** The prediction from the parallelograms that are not creases:
      encoder: multi_pred_vals[c] += pred_vals[j][c]   (int32 `+=`: signed overflow is undefined; [mp_sum_no_ub])
      decoder: multi_pred_vals[c] = AddAsUnsigned(multi_pred_vals[c], pred_vals[i][c])   (wraps)
      both:    multi_pred_vals[c] /= num_used_parallelograms   (int32 / int, truncating)
    No parallelogram used: the previous entry (delta). *)
Definition add32 (a b : Z) : Z := to_i32 (a + b).
Fixpoint mp_used (preds : list row) (crease : list bool) : list row :=
  match preds, crease with
  | r :: preds', f :: crease' => if f then mp_used preds' crease' else r :: mp_used preds' crease'
  | _, _ => []
  end.
Definition mp_sum (nc : nat) (used : list row) : row := fold_left (map2 add32) used (repeat 0 nc).
Definition mp_combine (nc : nat) (preds : list row) (crease : list bool) (delta : option row) : option row :=
  match mp_used preds crease with
  | [] => delta
  | used => Some (map (fun s => Z.quot s (Z.of_nat (length used))) (mp_sum nc used))
  end.
(** no signed overflow in the encoder's accumulation *)
Fixpoint mp_sum_no_ub_from (acc : row) (used : list row) : bool :=
  match used with
  | [] => true
  | r :: rest => forallb in_i32 (map2 Z.add acc r) && mp_sum_no_ub_from (map2 add32 acc r) rest
  end.
Definition mp_sum_no_ub (nc : nat) (used : list row) : bool := mp_sum_no_ub_from (repeat 0 nc) used.

(** encoder side: [crease j] = "parallelogram j of this entry is a crease (not used)": the encoder's policy.
    Records the flags it pushes to is_crease_edge_[num_parallelograms - 1] (nothing when there is none). *)
Definition mp_predict_enc (md : mesh_data) (nc : nat) (pre : list row) (i : nat) (crease : nat -> bool)
  : option (row * list bool) :=
  match i with
  | O => Some (repeat 0 nc, [])
  | S j =>
    match mp_parallelograms md pre i with
    | None => None
    | Some preds =>
      let flags := map crease (seq 0 (length preds)) in
      match mp_combine nc preds flags (nth_error pre j) with
      | None => None
      | Some r => Some (r, flags)
      end
    end
  end.
(** decoder side: state = the unread part of is_crease_edge_[0..3] (the C++ keeps the vectors and a read
    position per context; `is_crease_edge_[context].size() <= pos` -> return false). *)
Definition mp_predict_dec (md : mesh_data) (nc : nat) (pre : list row) (i : nat) (st : list (list bool))
  : option (row * list (list bool)) :=
  match i with
  | O => Some (repeat 0 nc, st)
  | S j =>
    match mp_parallelograms md pre i with
    | None => None
    | Some preds =>
      let np := length preds in
      match np with
      | O => match nth_error pre j with Some r => Some (r, st) | None => None end
      | S ctx =>
        match nth_error st ctx with
        | None => None
        | Some stream =>
          if (length stream <? np)%nat then None else
          match mp_combine nc preds (firstn np stream) (nth_error pre j) with
          | None => None
          | Some r => Some (r, upd st ctx (skipn np stream))
          end
        end
      end
    end
  end.

(** is_crease_edge_[k] as the encoder leaves it: entries in descending order, flags of one entry ascending *)
Definition mp_enc_vector (ws : list (list bool)) (k : nat) : list bool :=
  concat (rev (filter (fun w => (length w =? S k)%nat) ws)).
(** EncodePredictionData, one context (m = k + 1 flags per vertex):
      for (j = size - m; j >= 0; j -= m) for (k = 0; k < m; ++k) EncodeBit(is_crease_edge_[i][j + k]); *)
Fixpoint mp_regroup_from (fuel : nat) (m : nat) (vec : list bool) (j : Z) : list bool :=
  match fuel with
  | O => []
  | S f => if j <? 0 then [] else firstn m (skipn (Z.to_nat j) vec) ++ mp_regroup_from f m vec (j - Z.of_nat m)
  end.
Definition mp_regroup (m : nat) (vec : list bool) : list bool :=
  mp_regroup_from (S (length vec)) m vec (Z.of_nat (length vec) - Z.of_nat m).
(**   EncodeVarint<uint32_t>(size); if (size) { RAnsBitEncoder … EndEncoding } *)
Definition mp_enc_context (k : nat) (vec : list bool) : option bytes :=
  match enc_varint_u (Z.of_nat (length vec) mod 2 ^ 32) with
  | None => None
  | Some hd =>
    if (length vec =? 0)%nat then Some hd else
    match ransbit_encode (mp_regroup (S k) vec) with
    | None => None
    | Some body => Some (hd ++ body)
    end
  end.
Fixpoint mp_enc_contexts (vecs : list (list bool)) (k : nat) : option bytes :=
  match vecs with
  | [] => Some []
  | v :: rest =>
    match mp_enc_context k v, mp_enc_contexts rest (S k) with
    | Some a, Some b => Some (a ++ b)
    | _, _ => None
    end
  end.
(** DecodePredictionData (bitstream >= 2.2), one context:
      DecodeVarint(&num_flags); if (num_flags > num_corners) return false;
      if (num_flags > 0) { StartDecoding; num_flags × DecodeNextBit; EndDecoding } *)
Definition mp_dec_context (ver : Z) (num_corners : Z) (bs : bytes) : option (list bool * bytes) :=
  match dec_varint_u 32 bs with
  | None => None
  | Some (nf, r1) =>
    if nf >? num_corners then None else
    if nf =? 0 then Some ([], r1) else
    match ransbit_start ver r1 with
    | None => None
    | Some (st, r2) => Some (fst (read_n ransbit_next (Z.to_nat nf) st), r2)
    end
  end.
Fixpoint mp_dec_contexts (n : nat) (ver num_corners : Z) (bs : bytes) : option (list (list bool) * bytes) :=
  match n with
  | O => Some ([], bs)
  | S k =>
    match mp_dec_context ver num_corners bs with
    | None => None
    | Some (v, r1) =>
      match mp_dec_contexts k ver num_corners r1 with
      | None => None
      | Some (vs, r2) => Some (v :: vs, r2)
      end
    end
  end.

(** ComputeCorrectionValues (with the crease choice [crease entry parallelogram]) + EncodePredictionData *)
Definition mp_encode (md : mesh_data) (nc : nat) (data : list row) (crease : nat -> nat -> bool)
  : option (list row * bytes) :=
  if negb (sizes_ok md nc (length data)) then None else
  match wrap_bounds_enc (concat data) with
  | None => None
  | Some b =>
    match causal_enc (row_enc b) (mp_predict_enc md nc) data crease with
    | None => None
    | Some (corr, ws) =>
      match mp_enc_contexts (map (mp_enc_vector ws) (seq 0 kMaxNumParallelograms)) 0 with
      | None => None
      | Some fb => Some (corr, fb ++ wrap_data_enc b)
      end
    end
  end.
(** DecodePredictionData + ComputeOriginalValues *)
Definition mp_decode (ver : Z) (md : mesh_data) (nc : nat) (corr : list row) (bs : bytes)
  : option (list row * bytes) :=
  if negb (sizes_ok md nc (length corr)) then None else
  match mp_dec_contexts kMaxNumParallelograms ver (md_num_corners md) bs with
  | None => None
  | Some (streams, r1) =>
    match wrap_data_dec r1 with
    | None => None
    | Some (b, rest) =>
      match causal_dec (row_dec b) (mp_predict_dec md nc) corr streams with
      | None => None
      | Some (out, _) => Some (out, rest)
      end
    end
  end.

(** The decoder's guard `num_flags > corner_table->num_corners()` (and `num_orientations > num_corners`): what the
    encoder pushed to is_crease_edge_[k] must not exceed the number of corners.  [mp_records] = the per-entry
    records of the encoder (entry ascending); [mp_guard_ok] = every context passes the guard.  With one entry per
    vertex (data_to_corner_map[e] a corner of the vertex of entry e, distinct vertices) every flag belongs to a
    distinct corner, so the guard holds; with arbitrary in-bounds maps it can fail (harness experiment). *)
Definition mp_records (md : mesh_data) (nc : nat) (data : list row) (crease : nat -> nat -> bool) : option (list (list bool)) :=
  match wrap_bounds_enc (concat data) with
  | None => None
  | Some b =>
    match causal_enc (row_enc b) (mp_predict_enc md nc) data crease with
    | Some (_, ws) => Some ws
    | None => None
    end
  end.
Definition mp_guard_ok (md : mesh_data) (nc : nat) (data : list row) (crease : nat -> nat -> bool) : Prop :=
  forall ws, mp_records md nc data crease = Some ws ->
  forall k, (k < 4)%nat -> Z.of_nat (length (mp_enc_vector ws k)) <= md_num_corners md.

(** Driver support (not part of any theorem): the per-entry crease choice that corresponds to the four flag
    streams in decoder order, computed over the original data (the policy "read off what the implementation
    chose").  Entry i gets the next num_parallelograms(i) flags of context num_parallelograms(i) - 1. *)
Fixpoint mp_choice_from (md : mesh_data) (data : list row) (n : nat) (i : nat) (st : list (list bool))
  : list (list bool) :=
  match n with
  | O => []
  | S n' =>
    let np := match i with
              | O => O
              | S _ => match mp_parallelograms md (firstn i data) i with Some ps => length ps | None => O end
              end in
    match np with
    | O => [] :: mp_choice_from md data n' (S i) st
    | S ctx => let stream := nth ctx st [] in
               firstn np stream :: mp_choice_from md data n' (S i) (upd st ctx (skipn np stream))
    end
  end.
Definition mp_choice (md : mesh_data) (data : list row) (streams : list (list bool)) : nat -> nat -> bool :=
  let tbl := mp_choice_from md data (length data) 0 streams in
  fun i j => nth j (nth i tbl []) true.

(** * 5. Texture coordinates, portable predictor
    (mesh_prediction_scheme_tex_coords_portable_{predictor,encoder,decoder}.h, IntSqrt of core/math_utils.h)
    num_components = 2; the parent attribute gives one int32 position per ENTRY
    (GetPositionForEntryId(e) = pos_attribute->ConvertValue<int64>(mapped_index(entry_to_point_id_map[e]))).

    Arithmetic.  All vectors are VectorD<int64_t,…>; every operation is modelled with its 64-bit result
    ([to_i64]/[to_u64] of the exact value).  Where the C++ type is signed an overflow is undefined behaviour in
    C++ (the three `return false` guards exclude some but not all of them: e.g. the SUM
    n_uv * pn_norm2_squared + cn_dot_pn * pn_uv is unguarded); encoder and decoder evaluate the same
    expressions (the decoder's final +/- in uint64_t), so the wrapped model is the same function on both sides;
    the harness keeps the operands where the compiled code wraps or does not overflow at all. *)
Definition to_i64 (x : Z) : Z := (x + 9223372036854775808) mod 18446744073709551616 - 9223372036854775808.
Definition to_u64 (x : Z) : Z := x mod 18446744073709551616.
Definition i64_max : Z := 9223372036854775807.

(** IntSqrt(uint64_t number) *)
Fixpoint isqrt_estimate (fuel : nat) (act sr : Z) : option Z :=
  match fuel with
  | O => None
  | S f => if act >=? 2 then isqrt_estimate f (act / 4) (to_u64 (sr * 2)) else Some sr
  end.
Fixpoint isqrt_newton (fuel : nat) (number sr : Z) : option Z :=
  match fuel with
  | O => None
  | S f =>
    let sr' := to_u64 (sr + number / sr) / 2 in
    if to_u64 (sr' * sr') >? number then isqrt_newton f number sr' else Some sr'
  end.
Definition int_sqrt (number : Z) : option Z :=
  if number =? 0 then Some 0 else
  match isqrt_estimate 66 number 1 with
  | None => None
  | Some sr => isqrt_newton 200 number sr
  end.

Definition v3 := (Z * Z * Z)%type.
Definition v3_sub (a b : v3) : v3 :=
  let '(a0, a1, a2) := a in let '(b0, b1, b2) := b in (to_i64 (a0 - b0), to_i64 (a1 - b1), to_i64 (a2 - b2)).
Definition v3_dot (a b : v3) : Z :=
  let '(a0, a1, a2) := a in let '(b0, b1, b2) := b in to_i64 (a0 * b0 + a1 * b1 + a2 * b2).
Definition abs64 (x : Z) : Z := to_i64 (Z.abs x).

Definition tc_pos_at (pos : list v3) (e : Z) : option v3 :=
  if e <? 0 then None else nth_error pos (Z.to_nat e).
Definition tc_uv_at (pre : list row) (e : Z) : option (Z * Z) :=
  match data_at pre e with
  | Some [u; v] => Some (u, v)
  | _ => None
  end.

(** what ComputePredictedValue yields: a prediction that needs no orientation, or the two candidates
    predicted_uv_0 (orientation true: x_uv + cx_uv) and predicted_uv_1 (false: x_uv - cx_uv) *)
Inductive tc_res := TcPlain (r : row) | TcOri (r_true r_false : row).

(** the part after `if (pn_norm2_squared != 0)`; [None] = return false *)
Definition tc_oriented (n_uv p_uv : Z * Z) (tip nxt prv : v3) (pn : v3) (pn_norm2 : Z) : option tc_res :=
  let cn := v3_sub tip nxt in
  let cn_dot_pn := v3_dot pn cn in
  let pn_uv := (to_i64 (fst p_uv - fst n_uv), to_i64 (snd p_uv - snd n_uv)) in
  let n_uv_absmax := Z.max (abs64 (fst n_uv)) (abs64 (snd n_uv)) in
  if to_u64 n_uv_absmax >? i64_max / pn_norm2 then None else
  let pn_uv_absmax := Z.max (abs64 (fst pn_uv)) (abs64 (snd pn_uv)) in
  if abs64 cn_dot_pn >? Z.quot i64_max pn_uv_absmax then None else
  let s := to_i64 pn_norm2 in
  let x_uv := (to_i64 (to_i64 (fst n_uv * s) + to_i64 (cn_dot_pn * fst pn_uv)),
               to_i64 (to_i64 (snd n_uv * s) + to_i64 (cn_dot_pn * snd pn_uv))) in
  let '(pn0, pn1, pn2) := pn in
  let pn_absmax := Z.max (Z.max (abs64 pn0) (abs64 pn1)) (abs64 pn2) in
  if abs64 cn_dot_pn >? Z.quot i64_max pn_absmax then None else
  let '(n0, n1, n2) := nxt in
  let x_pos := (to_i64 (n0 + to_i64 (Z.quot (to_i64 (cn_dot_pn * pn0)) s)),
                to_i64 (n1 + to_i64 (Z.quot (to_i64 (cn_dot_pn * pn1)) s)),
                to_i64 (n2 + to_i64 (Z.quot (to_i64 (cn_dot_pn * pn2)) s))) in
  let cx := v3_sub tip x_pos in
  let cx_norm2 := to_u64 (v3_dot cx cx) in
  match int_sqrt (to_u64 (cx_norm2 * pn_norm2)) with
  | None => None
  | Some norm =>
    let ns := to_i64 norm in
    let cx_uv := (to_i64 (snd pn_uv * ns), to_i64 (to_i64 (- fst pn_uv) * ns)) in
    let fin (v : Z) := to_i32 (to_i64 (Z.quot (to_i64 v) s)) in
    Some (TcOri [fin (fst x_uv + fst cx_uv); fin (snd x_uv + snd cx_uv)]
                [fin (fst x_uv - fst cx_uv); fin (snd x_uv - snd cx_uv)])
  end.

(** ComputePredictedValue<is_encoder_t>(corner_id, data, data_id).  [None]: out-of-bounds read or `return false`. *)
Definition tc_compute (md : mesh_data) (pos : list v3) (pre : list row) (i : nat) : option tc_res :=
  match nth_error (md_d2c md) i with
  | None => None
  | Some ci =>
    match md_entry_of_corner md (next_c ci), md_entry_of_corner md (prev_c ci) with
    | Some next_id, Some prev_id =>
      let id := Z.of_nat i in
      let fallback :=
        (* data_offset: the assignment from prev_data_id is always overwritten or unused *)
        if next_id <? id then match tc_uv_at pre next_id with Some (u, v) => Some (TcPlain [u; v]) | None => None end
        else if id >? 0 then match tc_uv_at pre (id - 1) with Some (u, v) => Some (TcPlain [u; v]) | None => None end
        else Some (TcPlain [0; 0]) in
      if (prev_id <? id) && (next_id <? id) then
        match tc_uv_at pre next_id, tc_uv_at pre prev_id with
        | Some n_uv, Some p_uv =>
          if (fst p_uv =? fst n_uv) && (snd p_uv =? snd n_uv) then Some (TcPlain [fst p_uv; snd p_uv]) else
          match tc_pos_at pos id, tc_pos_at pos next_id, tc_pos_at pos prev_id with
          | Some tip, Some nxt, Some prv =>
            let pn := v3_sub prv nxt in
            let pn_norm2 := to_u64 (v3_dot pn pn) in
            if pn_norm2 =? 0 then fallback else tc_oriented n_uv p_uv tip nxt prv pn pn_norm2
          | _, _, _ => None
          end
        | _, _ => None
        end
      else fallback
    | _, _ => None
    end
  end.

(** encoder: the orientation is the policy (the C++ picks the candidate closer to the original);
    records the orientations_.push_back *)
Definition tc_predict_enc (md : mesh_data) (pos : list v3) (pre : list row) (i : nat) (ori : bool)
  : option (row * list bool) :=
  match tc_compute md pos pre i with
  | None => None
  | Some (TcPlain r) => Some (r, [])
  | Some (TcOri rt rf) => Some (if ori then rt else rf, [ori])
  end.
(** decoder: state = orientations_ seen from its back (orientations_.back(); pop_back();
    `if (orientations_.empty()) return false`) *)
Definition tc_predict_dec (md : mesh_data) (pos : list v3) (pre : list row) (i : nat) (st : list bool)
  : option (row * list bool) :=
  match tc_compute md pos pre i with
  | None => None
  | Some (TcPlain r) => Some (r, st)
  | Some (TcOri rt rf) =>
    match st with
    | [] => None
    | ori :: st' => Some (if ori then rt else rf, st')
    end
  end.

(** EncodePredictionData: int32 num_orientations; bits (orientation == last_orientation), last starts true;
    the RAnsBit block is written also when there is no orientation. *)
Fixpoint tc_delta_enc (last : bool) (v : list bool) : list bool :=
  match v with
  | [] => []
  | o :: r => Bool.eqb o last :: tc_delta_enc o r
  end.
Fixpoint tc_delta_dec (last : bool) (bits : list bool) : list bool :=
  match bits with
  | [] => []
  | b :: r => let o := if b then last else negb last in o :: tc_delta_dec o r
  end.
Definition tc_enc_orientations (vec : list bool) : option bytes :=
  match ransbit_encode (tc_delta_enc true vec) with
  | None => None
  | Some body => Some (enc_le 4 (Z.of_nat (length vec) mod 2 ^ 32) ++ body)
  end.
(** DecodePredictionData: num < 0 -> false; num > num_corners -> false *)
Definition tc_dec_orientations (ver num_corners : Z) (bs : bytes) : option (list bool * bytes) :=
  match dec_le 4 bs with
  | None => None
  | Some (nu, r1) =>
    let num := i32_of_u32 nu in
    if num <? 0 then None else
    if num >? num_corners then None else
    match ransbit_start ver r1 with
    | None => None
    | Some (st, r2) => Some (tc_delta_dec true (fst (read_n ransbit_next (Z.to_nat num) st)), r2)
    end
  end.

(** ComputeCorrectionValues (orientation choice [ori entry]) + EncodePredictionData.  (For n = 0 the C++ loops do
    not run and the wrap transform writes its initial bounds; that corner is outside the model: [None].) *)
Definition tc_encode (md : mesh_data) (pos : list v3) (data : list row) (ori : nat -> bool)
  : option (list row * bytes) :=
  if negb (sizes_ok md 2 (length data)) then None else
  match wrap_bounds_enc (concat data) with
  | None => None
  | Some b =>
    match causal_enc (row_enc b) (tc_predict_enc md pos) data ori with
    | None => None
    | Some (corr, ws) =>
      match tc_enc_orientations (rev (concat ws)) with
      | None => None
      | Some ob => Some (corr, ob ++ wrap_data_enc b)
      end
    end
  end.
Definition tc_decode (ver : Z) (md : mesh_data) (pos : list v3) (corr : list row) (bs : bytes)
  : option (list row * bytes) :=
  if negb (sizes_ok md 2 (length corr)) then None else
  match tc_dec_orientations ver (md_num_corners md) bs with
  | None => None
  | Some (vec, r1) =>
    match wrap_data_dec r1 with
    | None => None
    | Some (b, rest) =>
      match causal_dec (row_dec b) (tc_predict_dec md pos) corr (rev vec) with
      | None => None
      | Some (out, _) => Some (out, rest)
      end
    end
  end.

(** Driver support: the per-entry orientation that corresponds to the encoder's orientations_ vector
    (push order = entries descending), computed over the original data. *)
Fixpoint tc_choice_from (md : mesh_data) (pos : list v3) (data : list row) (n i : nat) (stack : list bool) : list bool :=
  match n with
  | O => []
  | S n' =>
    match tc_compute md pos (firstn i data) i with
    | Some (TcOri _ _) =>
      match stack with
      | o :: s' => o :: tc_choice_from md pos data n' (S i) s'
      | [] => true :: tc_choice_from md pos data n' (S i) []
      end
    | _ => true :: tc_choice_from md pos data n' (S i) stack
    end
  end.
Definition tc_choice (md : mesh_data) (pos : list v3) (data : list row) (vec : list bool) : nat -> bool :=
  let tbl := tc_choice_from md pos data (length data) 0 (rev vec) in
  fun i => nth i tbl true.

(** * 6. Geometric normal prediction
    (mesh_prediction_scheme_geometric_normal_{encoder,decoder}.h, …_predictor_area.h (TRIANGLE_AREA mode, the only
    one the encoder uses and the only one bitstream >= 2.2 can express), …_predictor_base.h,
    mesh/corner_table_iterators.h (VertexCornersIterator), OctahedronToolBox::CanonicalizeIntegerVector /
    IntegerVectorToQuantizedOctahedralCoords of normal_compression_utils.h)
    with TransformT = PredictionSchemeNormalOctahedronCanonicalized{En,De}codingTransform<int32_t> (Model/Octahedron.v).
    Entries are octahedral coordinate pairs; the prediction depends on the side information only (corner table, maps,
    the int32 positions of the entries): BOTH loops run data_id = 0 … n-1.  The flip bit is the encoder's policy. *)

(** The encoder loop as written (ascending); same predictor interface as [enc_down].  [i] = entries done,
    [todo] = the entries still to do, [out]/[ws] in ascending order. *)
Section CausalUp.
  Context {E Pr C A W : Type}.
  Variable tenc : E -> Pr -> C.
  Variable Pe : list E -> nat -> A -> option (Pr * W).
  Fixpoint enc_up (data : list E) (choice : nat -> A) (i : nat) (todo : list E) (out : list C) (ws : list W)
    : option (list C * list W) :=
    match todo with
    | [] => Some (out, ws)
    | o :: rest =>
      match Pe (firstn i data) i (choice i) with
      | None => None
      | Some (p, w) => enc_up data choice (S i) rest (out ++ [tenc o p]) (ws ++ [w])
      end
    end.
  Definition causal_enc_up (data : list E) (choice : nat -> A) : option (list C * list W) :=
    enc_up data choice 0%nat data [] [].
End CausalUp.

(** VertexCornersIterator(table, corner_id): the corners visited, in order.
      Next(): if (left_traversal_) { corner_ = SwingLeft(corner_);
                 if (corner_ == kInvalid) { corner_ = SwingRight(start_corner_); left_traversal_ = false; }
                 else if (corner_ == start_corner_) corner_ = kInvalid; }
              else corner_ = SwingRight(corner_);
    Fuel as in [mp_collect]. *)
Fixpoint gn_corners (fuel : nat) (md : mesh_data) (start : nat) (corner : option nat) (left : bool) (acc : list nat)
  : option (list nat) :=
  match corner with
  | None => Some acc
  | Some c =>
    match fuel with
    | O => None
    | S f =>
      let acc' := acc ++ [c] in
      if left then
        match md_swing_left md c with
        | None => None
        | Some None =>
          match md_swing_right md start with
          | None => None
          | Some nxt => gn_corners f md start nxt false acc'
          end
        | Some (Some c') => if (c' =? start)%nat then Some acc' else gn_corners f md start (Some c') true acc'
        end
      else
        match md_swing_right md c with
        | None => None
        | Some nxt => gn_corners f md start nxt false acc'
        end
    end
  end.

(** GetPositionForCorner(ci) = position of entry vertex_to_data_map->at(Vertex(ci)): out of range -> [None] *)
Definition gn_pos_of_corner (md : mesh_data) (pos : list v3) (c : nat) : option v3 :=
  match md_entry_of_corner md c with
  | Some e => tc_pos_at pos e
  | None => None
  end.
(** CrossProduct<int64_t>: r0 = u1*v2 - u2*v1, r1 = u2*v0 - u0*v2, r2 = u0*v1 - u1*v0 (signed: overflow is UB
    for position differences >= 2^31; wrapped here) *)
Definition v3_cross (u v : v3) : v3 :=
  let '(u0, u1, u2) := u in let '(v0, v1, v2) := v in
  (to_i64 (to_i64 (u1 * v2) - to_i64 (u2 * v1)),
   to_i64 (to_i64 (u2 * v0) - to_i64 (u0 * v2)),
   to_i64 (to_i64 (u0 * v1) - to_i64 (u1 * v0))).
(** normal_data[k] = normal_data[k] + cross_data[k] as uint64_t *)
Definition v3_addu (a b : v3) : v3 :=
  let '(a0, a1, a2) := a in let '(b0, b1, b2) := b in (to_i64 (a0 + b0), to_i64 (a1 + b1), to_i64 (a2 + b2)).
(** VectorD<int64_t,3>::AbsSum(): saturates at int64 max *)
Definition abs_sum64 (v : v3) : Z :=
  let '(a, b, c) := v in
  let s1 := abs64 a in
  if s1 >? i64_max - abs64 b then i64_max else
  let s2 := s1 + abs64 b in
  if s2 >? i64_max - abs64 c then i64_max else s2 + abs64 c.

Fixpoint gn_sum (md : mesh_data) (pos : list v3) (cent : v3) (corners : list nat) (normal : v3) : option v3 :=
  match corners with
  | [] => Some normal
  | c :: rest =>
    match gn_pos_of_corner md pos (next_c c), gn_pos_of_corner md pos (prev_c c) with
    | Some pn, Some pp => gn_sum md pos cent rest (v3_addu normal (v3_cross (v3_sub pn cent) (v3_sub pp cent)))
    | _, _ => None
    end
  end.
(** MeshPredictionSchemeGeometricNormalPredictorArea::ComputePredictedValue (TRIANGLE_AREA):
      upper_bound = 1 << 29; abs_sum = normal.AbsSum();
      if (abs_sum > upper_bound) normal = normal / (abs_sum / upper_bound);   prediction[k] = (int32_t)normal[k] *)
Definition gn_normal (md : mesh_data) (pos : list v3) (ci : nat) : option v3 :=
  match gn_pos_of_corner md pos ci with
  | None => None
  | Some cent =>
    match gn_corners (S (length (md_opp md))) md ci (Some ci) true [] with
    | None => None
    | Some corners =>
      match gn_sum md pos cent corners (0, 0, 0) with
      | None => None
      | Some (n0, n1, n2) =>
        let s := abs_sum64 (n0, n1, n2) in
        let '(m0, m1, m2) :=
          if s >? 536870912 then let q := s / 536870912 in (Z.quot n0 q, Z.quot n1 q, Z.quot n2 q)
          else (n0, n1, n2) in
        Some (to_i32 m0, to_i32 m1, to_i32 m2)
      end
    end
  end.

(** OctahedronToolBox::CanonicalizeIntegerVector<int32_t>:
      abs_sum = (int64)|v0| + |v1| + |v2|;
      abs_sum == 0: v0 = center_value_;
      else v0 = (int64)v0 * center / abs_sum; v1 = (int64)v1 * center / abs_sum;
           v2 = v2 >= 0 ? center - |v0| - |v1| : -(center - |v0| - |v1|)
    (std::abs(INT_MIN) would be UB; the components handed in are below 2^30 in magnitude.  The results are at
    most center_value_ in magnitude — [canonicalize_int_vec_bounds] — so the int32 stores are exact.) *)
Definition canonicalize_int_vec (b : obox) (v : v3) : v3 :=
  let '(x, y, z) := v in
  let c := ob_center b in
  let abs_sum := Z.abs x + Z.abs y + Z.abs z in
  if abs_sum =? 0 then (c, y, z)
  else
    let x' := Z.quot (x * c) abs_sum in
    let y' := Z.quot (y * c) abs_sum in
    let r := c - Z.abs x' - Z.abs y' in
    (x', y', if z >=? 0 then r else - r).
(** OctahedronToolBox::IntegerVectorToQuantizedOctahedralCoords *)
Definition int_vec_to_oct (b : obox) (v : v3) : pt :=
  let '(x, y, z) := v in
  let c := ob_center b in
  let mx := ob_maxv b in
  let st :=
    if x >=? 0 then (y + c, z + c)
    else ((if y <? 0 then Z.abs z else mx - Z.abs z), (if z <? 0 then Z.abs y else mx - Z.abs y)) in
  canonicalize b st.
Definition v3_neg (v : v3) : v3 := let '(x, y, z) := v in (- x, - y, - z).

(** the predicted octahedral coordinates for flip = false / true:
    canonicalize the integer vector FIRST, negate AFTER, convert last (encoder and decoder alike) *)
Definition gn_predict (b : obox) (md : mesh_data) (pos : list v3) (i : nat) (flip : bool) : option pt :=
  match nth_error (md_d2c md) i with
  | None => None
  | Some ci =>
    match gn_normal md pos ci with
    | None => None
    | Some n3 =>
      let v := canonicalize_int_vec b n3 in
      Some (int_vec_to_oct b (if flip then v3_neg v else v))
    end
  end.
Definition gn_predict_enc (b : obox) (md : mesh_data) (pos : list v3) (pre : list pt) (i : nat) (flip : bool)
  : option (pt * bool) :=
  match gn_predict b md pos i flip with Some p => Some (p, flip) | None => None end.
(** decoder: state = the flip bits not yet read (DecodeNextBit never fails) *)
Definition gn_predict_dec (b : obox) (md : mesh_data) (pos : list v3) (pre : list pt) (i : nat) (st : list bool)
  : option (pt * list bool) :=
  match st with
  | [] => None
  | flip :: st' => match gn_predict b md pos i flip with Some p => Some (p, st') | None => None end
  end.
(** the encoder's correction: ComputeCorrection, then ModMax (to compare the two candidates: policy), then
    MakePositive of the chosen one *)
Definition gn_corr (b : obox) (orig pred : pt) : pt :=
  let c := oct_canon_enc b orig pred in
  (make_positive b (mod_max b (fst c)), make_positive b (mod_max b (snd c))).

(** ComputeCorrectionValues + EncodePredictionData: transform data (max_quantized_value, center_value as int32),
    then the RAnsBit block of the flip bits (one per entry).  [q] = quantization bits of the transform. *)
Definition gn_encode (q : Z) (md : mesh_data) (pos : list v3) (data : list pt) (flip : nat -> bool)
  : option (list pt * bytes) :=
  if negb (length (md_d2c md) =? length data)%nat then None else
  match set_quantization_bits q with
  | None => None
  | Some b =>
    match causal_enc_up (gn_corr b) (gn_predict_enc b md pos) data flip with
    | None => None
    | Some (corr, ws) =>
      match ransbit_encode ws with
      | None => None
      | Some fb => Some (corr, enc_le 4 (ob_mqv b mod 2 ^ 32) ++ enc_le 4 (ob_center b mod 2 ^ 32) ++ fb)
      end
    end
  end.
(** DecodePredictionData (bitstream >= 2.2: no prediction-mode byte) + ComputeOriginalValues *)
Definition gn_decode (ver : Z) (md : mesh_data) (pos : list v3) (corr : list pt) (bs : bytes)
  : option (list pt * bytes) :=
  if negb (length (md_d2c md) =? length corr)%nat then None else
  match dec_le 4 bs with
  | None => None
  | Some (mu, r1) =>
    match dec_le 4 r1 with
    | None => None
    | Some (_, r2) =>
      match oct_canon_dec_init (i32_of_u32 mu) with
      | None => None
      | Some b =>
        match ransbit_start ver r2 with
        | None => None
        | Some (st, rest) =>
          let bits := fst (read_n ransbit_next (length corr) st) in
          match causal_dec (oct_canon_dec b) (gn_predict_dec b md pos) corr bits with
          | None => None
          | Some (out, _) => Some (out, rest)
          end
        end
      end
    end
  end.

(** ** Signed 64-bit operations of ComputePredictedValue (after the fix that adds the two checked products as
    unsigned): the value every SIGNED int64 operation of the oriented branch would produce in exact arithmetic, in
    program order, up to the first `return false`.  Before the first element outside the int64 range the machine
    values equal the exact ones, so "all elements in range" = "no signed overflow" ([tc_no_ub]).  Unsigned
    operations (pn_norm2 * cx_norm2, the sum of the two checked products, IntSqrt, the decoder's final +/-) are
    defined for all operands and do not appear.  [enc = true] adds the encoder's signed x_uv +/- cx_uv (the decoder does these in uint64_t). *)
Definition in_i64 (x : Z) : bool := (-9223372036854775808 <=? x) && (x <=? 9223372036854775807).
Definition dot_trace (a b : v3) : list Z :=
  let '(a0, a1, a2) := a in let '(b0, b1, b2) := b in
  [a0 * b0; a0 * b0 + a1 * b1; a1 * b1; a0 * b0 + a1 * b1 + a2 * b2; a2 * b2].
Definition tc_signed_trace (enc : bool) (n_uv p_uv : Z * Z) (tip nxt prv : v3) : list Z :=
  let '(t0, t1, t2) := tip in let '(n0, n1, n2) := nxt in let '(p0, p1, p2) := prv in
  let pn := (p0 - n0, p1 - n1, p2 - n2) in
  let '(pn0, pn1, pn2) := pn in
  let pn_norm2 := pn0 * pn0 + pn1 * pn1 + pn2 * pn2 in
  [pn0; pn1; pn2] ++ dot_trace pn pn ++
  (if pn_norm2 =? 0 then [] else
   let cn := (t0 - n0, t1 - n1, t2 - n2) in
   let '(cn0, cn1, cn2) := cn in
   let cn_dot_pn := pn0 * cn0 + pn1 * cn1 + pn2 * cn2 in
   let pn_uv := (fst p_uv - fst n_uv, snd p_uv - snd n_uv) in
   let n_uv_absmax := Z.max (Z.abs (fst n_uv)) (Z.abs (snd n_uv)) in
   [cn0; cn1; cn2] ++ dot_trace pn cn ++ [fst pn_uv; snd pn_uv; Z.abs (fst n_uv); Z.abs (snd n_uv)] ++
   (if n_uv_absmax >? i64_max / pn_norm2 then [] else
    let pn_uv_absmax := Z.max (Z.abs (fst pn_uv)) (Z.abs (snd pn_uv)) in
    [Z.abs (fst pn_uv); Z.abs (snd pn_uv); Z.abs cn_dot_pn] ++
    (if Z.abs cn_dot_pn >? Z.quot i64_max pn_uv_absmax then [] else
     let x_uv := (fst n_uv * pn_norm2 + cn_dot_pn * fst pn_uv, snd n_uv * pn_norm2 + cn_dot_pn * snd pn_uv) in
     let pn_absmax := Z.max (Z.max (Z.abs pn0) (Z.abs pn1)) (Z.abs pn2) in
     [fst n_uv * pn_norm2; snd n_uv * pn_norm2; cn_dot_pn * fst pn_uv; cn_dot_pn * snd pn_uv;
      Z.abs pn0; Z.abs pn1; Z.abs pn2] ++
     (if Z.abs cn_dot_pn >? Z.quot i64_max pn_absmax then [] else
      let q0 := Z.quot (cn_dot_pn * pn0) pn_norm2 in
      let q1 := Z.quot (cn_dot_pn * pn1) pn_norm2 in
      let q2 := Z.quot (cn_dot_pn * pn2) pn_norm2 in
      let cx := (t0 - (n0 + q0), t1 - (n1 + q1), t2 - (n2 + q2)) in
      let '(cx0, cx1, cx2) := cx in
      let cx_norm2 := cx0 * cx0 + cx1 * cx1 + cx2 * cx2 in
      [cn_dot_pn * pn0; cn_dot_pn * pn1; cn_dot_pn * pn2; q0; q1; q2; n0 + q0; n1 + q1; n2 + q2; cx0; cx1; cx2] ++
      dot_trace cx cx ++
      (match int_sqrt (to_u64 (cx_norm2 * pn_norm2)) with
      | None => []
      | Some norm =>
        let cxu0 := snd pn_uv * norm in
        let cxu1 := (- fst pn_uv) * norm in
        [- fst pn_uv; cxu0; cxu1] ++
        (if enc then
           [fst x_uv + cxu0; snd x_uv + cxu1; fst x_uv - cxu0; snd x_uv - cxu1;
            Z.quot (fst x_uv + cxu0) pn_norm2; Z.quot (snd x_uv + cxu1) pn_norm2;
            Z.quot (fst x_uv - cxu0) pn_norm2; Z.quot (snd x_uv - cxu1) pn_norm2]
         else [])
      end))))).
Definition tc_no_ub (enc : bool) (n_uv p_uv : Z * Z) (tip nxt prv : v3) : bool :=
  forallb in_i64 (tc_signed_trace enc n_uv p_uv tip nxt prv).
