(** The sequential codecs end to end: compression/point_cloud/point_cloud_encoder.cc / _decoder.cc (header,
    metadata flag, attribute encoders framing), point_cloud_sequential_{en,de}coder.cc,
    mesh/mesh_sequential_{en,de}coder.cc (connectivity in its raw widths and the entropy-coded variant),
    attributes/attributes_{en,de}coder.cc, sequential_attribute_{en,de}coders_controller.cc, LinearSequencer.
    Keyframe animations (animation/keyframe_animation_{en,de}coder.cc) are point clouds coded by the
    sequential point-cloud codec.

    Parameters: the symbol coder (C08) and the metadata coder (C11); the theorems assume their
    round-trip laws only. *)
From Draco Require Import Base.Codec Base.Float32 Gen.Constants Model.Varint Model.Wrap Model.Quantize Model.Octahedron Model.Normals Model.SeqAttr.
Local Open Scope Z_scope.

Record att_desc := {
  ad_type : Z;        (* GeometryAttribute::Type *)
  ad_dt : Z;          (* DataType *)
  ad_nc : Z;          (* num_components *)
  ad_norm : bool;     (* normalized *)
  ad_uid : Z          (* unique_id *)
}.
(** Which sequential attribute coder the encoder instantiates (CreateSequentialEncoder) and with what options. *)
Inductive att_kind :=
| KGeneric
| KInteger (o : int_opts)
| KQuant (q : Z) (explicit : option (list Z * Z)) (o : int_opts)    (* explicit (origin bits, range bits) *)
| KNormal (q : Z) (o : int_opts).                                   (* quantized normals (octahedral), q = quantization_bits *)

Record attribute := { a_desc : att_desc; a_kind : att_kind; a_rows : list (list Z) (* per point: component bit patterns *) }.

Definition kind_id (k : att_kind) : Z :=
  match k with
  | KGeneric => SEQUENTIAL_ATTRIBUTE_ENCODER_GENERIC_
  | KInteger _ => SEQUENTIAL_ATTRIBUTE_ENCODER_INTEGER_
  | KQuant _ _ _ => SEQUENTIAL_ATTRIBUTE_ENCODER_QUANTIZATION_
  | KNormal _ _ => SEQUENTIAL_ATTRIBUTE_ENCODER_NORMALS_
  end.
(** CreateSequentialEncoder's choice, as a check on the given kind *)
Definition kind_matches (d : att_desc) (k : att_kind) : bool :=
  match k with
  | KInteger _ => dt_is_int (ad_dt d)
  | KQuant q _ _ => (ad_dt d =? DT_FLOAT32_) && (0 <? q) && negb (ad_type d =? ATT_NORMAL_)
  | KNormal q _ => (ad_dt d =? DT_FLOAT32_) && (0 <? q) && (ad_type d =? ATT_NORMAL_)
  | KGeneric => negb (dt_is_int (ad_dt d))
  end.

(** the 2-component portable form of quantized normals *)
Definition row_of_pt (p : pt) : list Z := [fst p; snd p].
Definition pt_of_row (r : list Z) : pt := match r with [s; t] => (s, t) | _ => (0, 0) end.
Definition vec3_of_row (r : list Z) : vec3 := match r with [a; b; c] => vec3_of_bits a b c | _ => vec3_of_bits 0 0 0 end.
Definition vec3_bits (v : vec3) : list Z := let '(x, y, z) := v in [bits_of_f32 x; bits_of_f32 y; bits_of_f32 z].

Section SeqCodec.
  Variable enc_syms : Z -> Z -> Z -> list Z -> option bytes.
  Variable dec_syms : nat -> nat -> bytes -> option (list Z * bytes).
  Context {MD : Type}.
  Variable enc_md : MD -> option bytes.
  Variable dec_md : bytes -> option (MD * bytes).

  Definition magic : bytes := [68; 82; 65; 67; 79].   (* "DRACO" *)

  (** PointCloudEncoder::EncodeHeader *)
  Definition enc_header (gtype method : Z) (has_md : bool) : bytes :=
    let '(maj, mnr) := if gtype =? POINT_CLOUD_
                       then (kDracoPointCloudBitstreamVersionMajor, kDracoPointCloudBitstreamVersionMinor)
                       else (kDracoMeshBitstreamVersionMajor, kDracoMeshBitstreamVersionMinor) in
    magic ++ [maj; mnr; gtype; method] ++ enc_le 2 (if has_md then METADATA_FLAG_MASK_ else 0).

  (** AttributesEncoder::EncodeAttributesEncoderData + the per-attribute sequential coder ids *)
  Definition enc_desc (d : att_desc) : option bytes :=
    match enc_varint_u (ad_uid d) with
    | Some u => Some ([ad_type d mod 256; ad_dt d mod 256; ad_nc d mod 256; if ad_norm d then 1 else 0] ++ u)
    | None => None
    end.
  Fixpoint enc_descs (atts : list attribute) : option bytes :=
    match atts with
    | [] => Some []
    | a :: r => match enc_desc (a_desc a), enc_descs r with
                | Some x, Some y => Some (x ++ y)
                | _, _ => None
                end
    end.

  (** values of one attribute (EncodePortableAttribute); the quantization parameters are computed in Init *)
  Definition quant_params (a : attribute) : option qparams :=
    match a_kind a with
    | KQuant q None _ =>
        match compute_parameters (map (map f32_of_bits) (a_rows a)) q with Ok p => Some p | _ => None end
    | KQuant q (Some (org, rg)) _ =>
        match set_parameters q (map f32_of_bits org) (f32_of_bits rg) with Ok p => Some p | _ => None end
    | _ => None
    end.
  Definition enc_values (a : attribute) : option bytes :=
    let nc := Z.to_nat (ad_nc (a_desc a)) in
    match a_kind a with
    | KGeneric => Some (enc_generic (Z.to_nat (dt_len (ad_dt (a_desc a)))) (a_rows a))
    | KInteger o =>
        match omap (omap (to_int32_value (ad_dt (a_desc a)))) (a_rows a) with
        | Some rows => enc_int_block enc_syms o nc rows
        | None => None
        end
    | KQuant _ _ o =>
        match quant_params a with
        | Some p =>
            match generate_portable p (map (map f32_of_bits) (a_rows a)) with
            | Ok words => enc_int_block enc_syms o nc (map (map i32_of_u32) words)
            | _ => None
            end
        | None => None
        end
    | KNormal q o =>
        (* SequentialNormalAttributeEncoder::Init: 3 components (q >= 1 is kind_matches); PrepareValues =
           AttributeOctahedronTransform::TransformAttribute, which rejects q outside 2..30 *)
        if negb (ad_nc (a_desc a) =? 3) then None else
        match oct_generate_portable q (map vec3_of_row (a_rows a)) with
        | Ok pts => enc_norm_block enc_syms o q pts
        | _ => None
        end
    end.
  Definition enc_transform_data (a : attribute) : option bytes :=
    match a_kind a with
    | KQuant _ _ _ => match quant_params a with Some p => encode_parameters p | None => None end
    | KNormal q _ => oct_encode_parameters q
    | _ => Some []
    end.
  Fixpoint ocat {A} (f : A -> option bytes) (l : list A) : option bytes :=
    match l with
    | [] => Some []
    | a :: r => match f a, ocat f r with
                | Some x, Some y => Some (x ++ y)
                | _, _ => None
                end
    end.

  (** PointCloudEncoder::EncodePointAttributes for the sequential methods: one attributes encoder holding
      all attributes in their order (none when there is no attribute). *)
  Definition enc_attributes (atts : list attribute) : option bytes :=
    match atts with
    | [] => Some [0]
    | _ =>
      if negb (forallb (fun a => kind_matches (a_desc a) (a_kind a)) atts) then None else
      match enc_varint_u (Z.of_nat (length atts)), enc_descs atts,
            ocat enc_values atts, ocat enc_transform_data atts with
      | Some n, Some ds, Some vs, Some ts =>
          Some ([1] ++ n ++ ds ++ map (fun a => kind_id (a_kind a)) atts ++ vs ++ ts)
      | _, _, _, _ => None
      end
    end.

  Definition enc_md_opt (m : option MD) : option bytes :=
    match m with None => Some [] | Some x => enc_md x end.

  (** PointCloudSequentialEncoder (and KeyframeAnimationEncoder) *)
  Definition enc_pc_seq (npoints : Z) (md : option MD) (atts : list attribute) : option bytes :=
    match enc_md_opt md, enc_attributes atts with
    | Some m, Some a =>
        Some (enc_header POINT_CLOUD_ POINT_CLOUD_SEQUENTIAL_ENCODING_ (match md with Some _ => true | None => false end)
              ++ m ++ enc_le 4 (npoints mod 2 ^ 32) ++ a)
    | _, _ => None
    end.

  (** MeshSequentialEncoder::EncodeConnectivity.  [conn]: None = raw indices, Some method = entropy-coded
      index differences (option compress_connectivity; the symbol scheme is the coder's policy). *)
  Definition index_width (npoints : Z) : Z :=
    if npoints <? 256 then 1 else if npoints <? 2 ^ 16 then 2 else if npoints <? 2 ^ 21 then 0 (* varint *) else 4.
  Definition enc_index (npoints : Z) (i : Z) : option bytes :=
    let w := index_width npoints in
    if w =? 0 then enc_varint_u i else Some (enc_le (Z.to_nat w) i).
  Fixpoint index_diffs (last : Z) (idx : list Z) : list Z :=
    match idx with
    | [] => []
    | i :: r => let d := i - last in (Z.abs d * 2 + (if d <? 0 then 1 else 0)) :: index_diffs i r
    end.
  Definition enc_connectivity (npoints : Z) (conn : option Z) (faces : list (Z * Z * Z)) : option bytes :=
    let idx := flat_map (fun f => let '(a, b, c) := f in [a; b; c]) faces in
    match enc_varint_u (Z.of_nat (length faces)), enc_varint_u npoints with
    | Some nf, Some np =>
        match conn with
        | Some method =>
            match enc_syms method 7 1 (index_diffs 0 idx) with   (* options == nullptr: default level 7 *)
            | Some body => Some (nf ++ np ++ [0] ++ body)
            | None => None
            end
        | None =>
            match ocat (enc_index npoints) idx with
            | Some body => Some (nf ++ np ++ [1] ++ body)
            | None => None
            end
        end
    | _, _ => None
    end.
  Definition enc_mesh_seq (npoints : Z) (md : option MD) (conn : option Z) (faces : list (Z * Z * Z))
                          (atts : list attribute) : option bytes :=
    match enc_md_opt md, enc_connectivity npoints conn faces, enc_attributes atts with
    | Some m, Some c, Some a =>
        Some (enc_header TRIANGULAR_MESH_ MESH_SEQUENTIAL_ENCODING_ (match md with Some _ => true | None => false end)
              ++ m ++ c ++ a)
    | _, _, _ => None
    end.

  (** ** Decoders (bitstream versions >= 2.0 of the sequential methods) *)

  Record header := { h_maj : Z; h_min : Z; h_type : Z; h_method : Z; h_flags : Z }.
  Inductive dstatus := DOk | DIoError | DNotDraco | DUnknownVersion | DError.

  (** PointCloudDecoder::DecodeHeader *)
  Definition dec_header (bs : bytes) : option (header * bytes) + dstatus :=
    match bs with
    | b0 :: b1 :: b2 :: b3 :: b4 :: r =>
        if negb (forallb (fun p => fst p =? snd p) (combine [b0; b1; b2; b3; b4] magic)) then inr DNotDraco else
        match r with
        | maj :: mnr :: ty :: me :: f0 :: f1 :: r' =>
            inl (Some ({| h_maj := maj; h_min := mnr; h_type := ty; h_method := me; h_flags := f0 + 256 * f1 |}, r'))
        | _ => inr DIoError
        end
    | _ => inr DIoError
    end.
  (** the version gate of PointCloudDecoder::Decode *)
  Definition version_ok (h : header) : bool :=
    let '(mmaj, mmin) := if h_type h =? POINT_CLOUD_
                         then (kDracoPointCloudBitstreamVersionMajor, kDracoPointCloudBitstreamVersionMinor)
                         else (kDracoMeshBitstreamVersionMajor, kDracoMeshBitstreamVersionMinor) in
    negb ((h_maj h <? 1) || (h_maj h >? mmaj)) && negb ((h_maj h =? mmaj) && (h_min h >? mmin)).

  (** AttributesDecoder::DecodeAttributesDecoderData (version >= 2.0) for [n] attributes *)
  Definition dec_desc (bs : bytes) : option (att_desc * bytes) :=
    match bs with
    | ty :: dt :: nc :: nm :: r =>
        if ty >=? NAMED_ATTRIBUTES_COUNT_ then None
        else if (dt =? DT_INVALID_) || (dt >=? DT_TYPES_COUNT_) then None
        else if nc =? 0 then None
        else match dec_varint_u 32 r with
             | Some (uid, r') => Some ({| ad_type := ty; ad_dt := dt; ad_nc := nc; ad_norm := 0 <? nm; ad_uid := uid |}, r')
             | None => None
             end
    | _ => None
    end.
  Fixpoint dec_descs (n : nat) (bs : bytes) : option (list att_desc * bytes) :=
    match n with
    | O => Some ([], bs)
    | S k => match dec_desc bs with
             | Some (d, r) => match dec_descs k r with
                              | Some (ds, r') => Some (d :: ds, r')
                              | None => None
                              end
             | None => None
             end
    end.
  Fixpoint take_bytes (n : nat) (bs : bytes) : option (list Z * bytes) :=
    match n with
    | O => Some ([], bs)
    | S k => match bs with
             | b :: r => match take_bytes k r with Some (l, r') => Some (b :: l, r') | None => None end
             | [] => None
             end
    end.

  (** what a decoded attribute holds *)
  Record dec_att := { da_desc : att_desc; da_kind_id : Z; da_rows : list (list Z);
                      da_tdata : option qparams (* AttributeTransformData left on a skipped quantized attribute *);
                      da_oct : option Z (* ATTRIBUTE_OCTAHEDRON_TRANSFORM data (quantization bits) left on a skipped normal attribute *) }.

  (** DecoderOptions: SetSkipAttributeTransform(type) — by attribute type *)
  Variable skip : Z -> bool.

  (** DecodePortableAttribute for one attribute: the rows it leaves in the portable/int form, or the
      final raw rows for the generic coder *)
  Definition dec_values (ver : Z) (npoints : nat) (d : att_desc) (kid : Z) (bs : bytes) : option (list (list Z) * bytes) :=
    let nc := Z.to_nat (ad_nc d) in
    if kid =? SEQUENTIAL_ATTRIBUTE_ENCODER_GENERIC_ then dec_generic (Z.to_nat (dt_len (ad_dt d))) nc npoints bs
    else if kid =? SEQUENTIAL_ATTRIBUTE_ENCODER_INTEGER_ then dec_int_block dec_syms nc npoints bs
    else if kid =? SEQUENTIAL_ATTRIBUTE_ENCODER_QUANTIZATION_ then
      (if ad_dt d =? DT_FLOAT32_ then dec_int_block dec_syms nc npoints bs else None)   (* Init checks DT_FLOAT32 *)
    else if kid =? SEQUENTIAL_ATTRIBUTE_ENCODER_NORMALS_ then
      (* SequentialNormalAttributeDecoder::Init: 3 components, DT_FLOAT32; the portable attribute has 2 components *)
      (if (ad_nc d =? 3) && (ad_dt d =? DT_FLOAT32_) then
         match dec_norm_block dec_syms ver npoints bs with
         | Some (pts, r) => Some (map row_of_pt pts, r)
         | None => None
         end
       else None)
    else None.
  Fixpoint dec_all_values (ver : Z) (npoints : nat) (ds : list (att_desc * Z)) (bs : bytes)
    : option (list (list (list Z)) * bytes) :=
    match ds with
    | [] => Some ([], bs)
    | (d, kid) :: r => match dec_values ver npoints d kid bs with
                       | Some (rows, r1) => match dec_all_values ver npoints r r1 with
                                            | Some (l, r2) => Some (rows :: l, r2)
                                            | None => None
                                            end
                       | None => None
                       end
    end.
  (** DecodeDataNeededByPortableTransform + TransformAttributeToOriginalFormat for one attribute *)
  Definition finish_att (d : att_desc) (kid : Z) (rows : list (list Z)) (bs : bytes)
    : option (dec_att * bytes) :=
    let portable_desc := {| ad_type := ad_type d; ad_dt := DT_INT32_; ad_nc := ad_nc d; ad_norm := false; ad_uid := ad_uid d |} in
    let words := map (map (fun v => v mod 2 ^ 32)) rows in
    if kid =? SEQUENTIAL_ATTRIBUTE_ENCODER_GENERIC_ then
      Some ({| da_desc := d; da_kind_id := kid; da_rows := rows; da_tdata := None; da_oct := None |}, bs)   (* no portable attribute: never skipped *)
    else if kid =? SEQUENTIAL_ATTRIBUTE_ENCODER_INTEGER_ then
      if skip (ad_type d) then
        Some ({| da_desc := portable_desc; da_kind_id := kid; da_rows := words; da_tdata := None; da_oct := None |}, bs)   (* attribute := copy of the int32 portable attribute *)
      else if dt_is_int (ad_dt d) then
        Some ({| da_desc := d; da_kind_id := kid; da_rows := map (map (of_int32_value (ad_dt d))) rows; da_tdata := None; da_oct := None |}, bs)
      else None                                                                          (* StoreValues default: false *)
    else if kid =? SEQUENTIAL_ATTRIBUTE_ENCODER_NORMALS_ then
      (* DecodeDataNeededByPortableTransform = AttributeOctahedronTransform::DecodeParameters (one byte, unchecked);
         StoreValues = InverseTransformAttribute, which rejects bits outside 2..30; skipped: the 2-component int32
         portable attribute with the octahedron transform data *)
      match oct_decode_parameters bs with
      | Some (q, r) =>
          if skip (ad_type d) then
            Some ({| da_desc := {| ad_type := ad_type d; ad_dt := DT_INT32_; ad_nc := 2; ad_norm := false; ad_uid := ad_uid d |};
                     da_kind_id := kid; da_rows := words; da_tdata := None; da_oct := Some q |}, r)
          else
            match oct_inverse_transform q (map pt_of_row rows) with
            | Ok vs => Some ({| da_desc := d; da_kind_id := kid; da_rows := map vec3_bits vs; da_tdata := None; da_oct := None |}, r)
            | _ => None
            end
      | None => None
      end
    else
      match decode_parameters (Z.to_nat (ad_nc d)) bs with
      | Some (p, r) =>
          if skip (ad_type d) then
            Some ({| da_desc := portable_desc; da_kind_id := kid; da_rows := words; da_tdata := Some p; da_oct := None |}, r)
          else
            match inverse_transform p words with
            | Ok fr => Some ({| da_desc := d; da_kind_id := kid; da_rows := map (map bits_of_f32) fr; da_tdata := None; da_oct := None |}, r)
            | _ => None
            end
      | None => None
      end.
  Fixpoint finish_all (ds : list (att_desc * Z)) (rowss : list (list (list Z))) (bs : bytes)
    : option (list dec_att * bytes) :=
    match ds, rowss with
    | [], _ => Some ([], bs)
    | (d, kid) :: r, rows :: rr =>
        match finish_att d kid rows bs with
        | Some (a, r1) =>
            match finish_all r rr r1 with
            | Some (l, r2) => Some (a :: l, r2)
            | None => None
            end
        | None => None
        end
    | _, [] => None
    end.

  (** PointCloudDecoder::DecodePointAttributes with SequentialAttributeDecodersController(s).
      Several attribute decoders may follow each other in a (foreign) stream; the sequential encoders write
      zero or one. *)
  Definition dec_one_decoder_data (bs : bytes) : option (list (att_desc * Z) * bytes) :=
    match dec_varint_u 32 bs with
    | Some (n, r) =>
        if n =? 0 then None
        else if n >? 5 * Z.of_nat (length r) then None
        else match dec_descs (Z.to_nat n) r with
             | Some (ds, r1) =>
                 match take_bytes (Z.to_nat n) r1 with
                 | Some (kids, r2) =>
                     if forallb (fun k => (k =? SEQUENTIAL_ATTRIBUTE_ENCODER_GENERIC_) || (k =? SEQUENTIAL_ATTRIBUTE_ENCODER_INTEGER_)
                                          || (k =? SEQUENTIAL_ATTRIBUTE_ENCODER_QUANTIZATION_)
                                          || (k =? SEQUENTIAL_ATTRIBUTE_ENCODER_NORMALS_)) kids
                     then Some (combine ds kids, r2) else None
                 | None => None
                 end
             | None => None
             end
    | None => None
    end.
  Fixpoint dec_decoders_data (n : nat) (bs : bytes) : option (list (list (att_desc * Z)) * bytes) :=
    match n with
    | O => Some ([], bs)
    | S k => match dec_one_decoder_data bs with
             | Some (d, r) => match dec_decoders_data k r with
                              | Some (l, r') => Some (d :: l, r')
                              | None => None
                              end
             | None => None
             end
    end.
  Fixpoint dec_decoders_atts (ver : Z) (npoints : nat) (dds : list (list (att_desc * Z))) (bs : bytes)
    : option (list dec_att * bytes) :=
    match dds with
    | [] => Some ([], bs)
    | ds :: r =>
        match dec_all_values ver npoints ds bs with
        | Some (rowss, r1) =>
            match finish_all ds rowss r1 with
            | Some (atts, r2) => match dec_decoders_atts ver npoints r r2 with
                                 | Some (l, r3) => Some (atts ++ l, r3)
                                 | None => None
                                 end
            | None => None
            end
        | None => None
        end
    end.
  Definition dec_attributes (ver : Z) (npoints : nat) (bs : bytes) : option (list dec_att * bytes) :=
    match bs with
    | [] => None
    | nd :: r =>
        match dec_decoders_data (Z.to_nat nd) r with
        | Some (dds, r1) => dec_decoders_atts ver npoints dds r1
        | None => None
        end
    end.

  Record dec_pc := { dp_npoints : Z; dp_md : option MD; dp_atts : list dec_att }.

  (** Decoder::DecodePointCloudFromBuffer on a sequential point cloud stream (also KeyframeAnimationDecoder).
      [maxpts]: an explicit bound standing for "allocation of num_points entries succeeds". *)
  Definition dec_pc_seq (bs : bytes) : option (dec_pc * bytes) :=
    match dec_header bs with
    | inl (Some (h, r0)) =>
        if negb (h_type h =? POINT_CLOUD_) then None
        else if negb (h_method h =? POINT_CLOUD_SEQUENTIAL_ENCODING_) then None
        else if negb (version_ok h) then None
        else if (h_maj h * 256 + h_min h <? bitstream_version_2_0) then None   (* legacy streams: not modelled here *)
        else
          let mdres := if 0 <? Z.land (h_flags h) METADATA_FLAG_MASK_
                       then match dec_md r0 with Some (m, r) => Some (Some m, r) | None => None end
                       else Some (None, r0) in
          match mdres with
          | None => None
          | Some (md, r1) =>
              match dec_le 4 r1 with
              | None => None
              | Some (np, r2) =>
                  match dec_attributes (h_maj h * 256 + h_min h) (Z.to_nat np) r2 with
                  | Some (atts, r3) => Some ({| dp_npoints := np; dp_md := md; dp_atts := atts |}, r3)
                  | None => None
                  end
              end
          end
    | _ => None
    end.

  (** MeshSequentialDecoder::DecodeConnectivity (bitstream >= 2.2) *)
  Fixpoint dec_indices (npoints : Z) (n : nat) (bs : bytes) : option (list Z * bytes) :=
    match n with
    | O => Some ([], bs)
    | S k =>
        let one := if npoints <? 256 then dec_le 1 bs
                   else if npoints <? 2 ^ 16 then dec_le 2 bs
                   else if npoints <? 2 ^ 21 then dec_varint_u 32 bs
                   else dec_le 4 bs in
        match one with
        | Some (i, r) => match dec_indices npoints k r with
                         | Some (l, r') => Some (i :: l, r')
                         | None => None
                         end
        | None => None
        end
    end.
  Fixpoint undo_diffs (last : Z) (syms : list Z) : option (list Z) :=
    match syms with
    | [] => Some []
    | s :: r =>
        let d := s / 2 in                          (* encoded_val >> 1, stored in int32 (s < 2^32 so d < 2^31) *)
        let v := if Z.odd s then (if d >? last then None else Some (last - d))
                 else (if d >? 2 ^ 31 - 1 - last then None else Some (last + d)) in
        match v with
        | Some i => match undo_diffs i r with Some l => Some (i :: l) | None => None end
        | None => None
        end
    end.
  Fixpoint triples (l : list Z) : list (Z * Z * Z) :=
    match l with
    | a :: b :: c :: r => (a, b, c) :: triples r
    | _ => []
    end.
  Definition dec_connectivity (bs : bytes) : option (Z * list (Z * Z * Z) * bytes) :=
    match dec_varint_u 32 bs with
    | None => None
    | Some (nf, r0) =>
      match dec_varint_u 32 r0 with
      | None => None
      | Some (np, r1) =>
        if nf >? (2 ^ 32 - 1) / 3 then None
        else if nf >? Z.of_nat (length r1) / 3 then None
        else match r1 with
             | [] => None
             | cm :: r2 =>
               let idx :=
                 if cm =? 0 then
                   match dec_syms (Z.to_nat (nf * 3)) 1 r2 with
                   | Some (syms, r3) => match undo_diffs 0 syms with Some l => Some (l, r3) | None => None end
                   | None => None
                   end
                 else dec_indices np (Z.to_nat (nf * 3)) r2 in
               match idx with
               | None => None
               | Some (l, r3) =>
                   if forallb (fun i => i <? np) l then Some (np, triples l, r3) else None   (* face indices must exist *)
               end
             end
      end
    end.

  Record dec_mesh := { dm_npoints : Z; dm_md : option MD; dm_faces : list (Z * Z * Z); dm_atts : list dec_att }.
  Definition dec_mesh_seq (bs : bytes) : option (dec_mesh * bytes) :=
    match dec_header bs with
    | inl (Some (h, r0)) =>
        if negb (h_type h =? TRIANGULAR_MESH_) then None
        else if negb (h_method h =? MESH_SEQUENTIAL_ENCODING_) then None
        else if negb (version_ok h) then None
        else if (h_maj h * 256 + h_min h <? bitstream_version_2_2) then None   (* legacy streams: not modelled here *)
        else
          let mdres := if 0 <? Z.land (h_flags h) METADATA_FLAG_MASK_
                       then match dec_md r0 with Some (m, r) => Some (Some m, r) | None => None end
                       else Some (None, r0) in
          match mdres with
          | None => None
          | Some (md, r1) =>
              match dec_connectivity r1 with
              | None => None
              | Some (np, faces, r2) =>
                  match dec_attributes (h_maj h * 256 + h_min h) (Z.to_nat np) r2 with
                  | Some (atts, r3) => Some ({| dm_npoints := np; dm_md := md; dm_faces := faces; dm_atts := atts |}, r3)
                  | None => None
                  end
              end
          end
    | _ => None
    end.
End SeqCodec.
