(** Tie of the regenerated leaf functions (Gen/Leaf.v, produced on every run by tools/leaf_translate.py from
    the C++ source as it is NOW) to the hand-written model functions the property theorems are about.
    One block per function between the markers  BEGIN tie <name> / END tie <name>  (tools and lib/tieleaf.py
    re-check the blocks one by one when the file as a whole does not compile, so every block must only use the
    header above the first marker and itself).  Statements are for ALL arguments in the range of the C++
    parameter types (unbounded where the model is unbounded); proofs are by unfolding + lia / Base.Bits lemmas,
    never by sampling.  A lemma that cannot be proved is left out (the function is then `correspondence-only`). *)
From Coq Require Import ZArith Lia Bool List ZifyBool.
From Draco Require Import Base.Bits Gen.Leaf Model.Varint Model.Wrap Model.Octahedron Model.RansSymbol.
Local Open Scope Z_scope.

Ltac divmod := Z.div_mod_to_equations; lia.

(** Generic closing tactic for comparison-only functions: it does not depend on the shape of the generated
    definition (order of the tests, names and number of the let-bindings), so a behaviour-preserving rewrite of
    the C++ still checks; a behaviour-changing one leaves a false arithmetic goal and fails. *)
Ltac tie_split :=
  repeat match goal with
         | |- context [if ?c then _ else _] => destruct c eqn:?
         end.
Ltac tie_done := first [reflexivity | lia | (f_equal; lia) | divmod | (f_equal; divmod)].
Ltac tie_auto := first [reflexivity | (cbv zeta; tie_split; tie_done)].
(** the same for `gen_f_no_ub args = true` under range hypotheses *)
Ltac tie_ub := unfold irange; cbv zeta; tie_split; lia.

(** Fallback for the 8- and 16-bit instantiations only: exhaustive evaluation of EVERY value of the (finite) domain
    [lo, lo + n - 1] named in the statement -- complete, and independent of the shape of the generated code. *)
Fixpoint zall (fuel : nat) (f : Z -> bool) (i : Z) : bool :=
  match fuel with O => true | S k => f i && zall k f (i + 1) end.
Lemma zall_spec fuel : forall f i, zall fuel f i = true -> forall x, i <= x < i + Z.of_nat fuel -> f x = true.
Proof.
  induction fuel as [|k IH]; intros f i H x Hx; [lia|].
  cbn [zall] in H. apply andb_true_iff in H. destruct H as [H0 H1].
  destruct (Z.eq_dec x i) as [->|]; [exact H0|]. apply (IH f (i + 1) H1). lia.
Qed.
Lemma zall_range f lo n : 0 <= n -> zall (Z.to_nat n) f lo = true -> forall x, lo <= x < lo + n -> f x = true.
Proof. intros Hn H x Hx. apply (zall_spec _ _ _ H). rewrite Z2Nat.id by lia. lia. Qed.
Ltac tie_sweep g m lo n :=
  match goal with |- g ?v = m ?v =>
    apply Z.eqb_eq;
    apply (zall_range (fun x => g x =? m x) lo n); [lia | vm_compute; reflexivity | lia]
  end.

(** Shape-independent fallback for shift/mask code: shifts become * and / by 2, `| 1` on an even value becomes + 1,
    `& 1` becomes mod 2; what is left is linear arithmetic with div/mod by literals. *)
Lemma lor1_even a : a mod 2 = 0 -> Z.lor a 1 = a + 1.
Proof.
  intros H. assert (E : a = (a / 2) * 2 ^ 1) by (change (2 ^ 1) with 2; divmod).
  rewrite E at 1. rewrite (lor_mul_add (a / 2) 1 1) by lia. lia.
Qed.
Ltac tie_bits :=
  cbv zeta; tie_split;
  rewrite ?Z.shiftl_mul_pow2, ?Z.shiftr_div_pow2 in * by lia; change (2 ^ 1) with 2 in *;
  repeat match goal with |- context [Z.lor ?a 1] => rewrite (lor1_even a) by divmod end;
  rewrite ?land1_mod2 in *;
  divmod.

(** zig-zag helpers, for every width w >= 1 *)
Lemma tie_shl1_mod w a : 1 <= w -> Z.shiftl a 1 mod 2 ^ w = 2 * (a mod 2 ^ (w - 1)).
Proof.
  intros. rewrite Z.shiftl_mul_pow2 by lia. change (2 ^ 1) with 2.
  replace (2 ^ w) with (2 * 2 ^ (w - 1)) by (rewrite <- Z.pow_succ_r by lia; f_equal; lia).
  rewrite (Z.mul_comm a 2). rewrite Z.mul_mod_distr_l; [reflexivity | | lia].
  pose proof (Z.pow_pos_nonneg 2 (w - 1)). lia.
Qed.
Lemma tie_lor1 w a : 1 <= w ->
  Z.lor (Z.shiftl a 1 mod 2 ^ w) 1 = Z.shiftl a 1 mod 2 ^ w + 1 /\ 0 <= Z.shiftl a 1 mod 2 ^ w + 1 < 2 ^ w.
Proof.
  intros. rewrite tie_shl1_mod by lia.
  assert (0 < 2 ^ (w - 1)) by (apply Z.pow_pos_nonneg; lia).
  assert (2 ^ w = 2 * 2 ^ (w - 1)) by (rewrite <- Z.pow_succ_r by lia; f_equal; lia).
  pose proof (Z.mod_pos_bound a (2 ^ (w - 1))).
  split; [| lia].
  rewrite (Z.mul_comm 2). exact (lor_mul_add (a mod 2 ^ (w - 1)) 1 1 ltac:(lia) ltac:(lia)).
Qed.

(* BEGIN tie ConvertSignedIntToSymbol *)
Lemma tie_ConvertSignedIntToSymbol_i8 v : -128 <= v <= 127 -> gen_ConvertSignedIntToSymbol_i8 v = zigzag_enc 8 v.
Proof.
  intros. first [ solve [
    unfold gen_ConvertSignedIntToSymbol_i8, zigzag_enc; change (2 ^ 8) with 256;
    destruct (v >=? 0); [reflexivity|]; cbv zeta;
    replace (((- (v + 1) + 128) mod 256 - 128) mod 256) with ((- (v + 1)) mod 256) by divmod;
    destruct (tie_lor1 8 ((- (v + 1)) mod 256)) as [E R]; [lia|]; change (2 ^ 8) with 256 in *;
    rewrite E; apply Z.mod_small; lia ]
  | tie_sweep gen_ConvertSignedIntToSymbol_i8 (zigzag_enc 8) (-128) 256 ].
Qed.
Print Assumptions tie_ConvertSignedIntToSymbol_i8.
Lemma tie_ConvertSignedIntToSymbol_i16 v : -32768 <= v <= 32767 -> gen_ConvertSignedIntToSymbol_i16 v = zigzag_enc 16 v.
Proof.
  intros. first [ solve [
    unfold gen_ConvertSignedIntToSymbol_i16, zigzag_enc; change (2 ^ 16) with 65536;
    destruct (v >=? 0); [reflexivity|]; cbv zeta;
    replace (((- (v + 1) + 32768) mod 65536 - 32768) mod 65536) with ((- (v + 1)) mod 65536) by divmod;
    destruct (tie_lor1 16 ((- (v + 1)) mod 65536)) as [E R]; [lia|]; change (2 ^ 16) with 65536 in *;
    rewrite E; apply Z.mod_small; lia ]
  | tie_sweep gen_ConvertSignedIntToSymbol_i16 (zigzag_enc 16) (-32768) 65536 ].
Qed.
Print Assumptions tie_ConvertSignedIntToSymbol_i16.
Lemma tie_ConvertSignedIntToSymbol_i32 v : -2147483648 <= v <= 2147483647 ->
  gen_ConvertSignedIntToSymbol_i32 v = zigzag_enc 32 v.
Proof.
  intros. first [ reflexivity
                | unfold gen_ConvertSignedIntToSymbol_i32, zigzag_enc; change (2 ^ 32) with 4294967296; tie_bits ].
Qed.
Print Assumptions tie_ConvertSignedIntToSymbol_i32.
Lemma tie_ConvertSignedIntToSymbol_i64 v : -9223372036854775808 <= v <= 9223372036854775807 ->
  gen_ConvertSignedIntToSymbol_i64 v = zigzag_enc 64 v.
Proof.
  intros. first [ reflexivity
                | unfold gen_ConvertSignedIntToSymbol_i64, zigzag_enc; change (2 ^ 64) with 18446744073709551616; tie_bits ].
Qed.
Print Assumptions tie_ConvertSignedIntToSymbol_i64.
(* END tie ConvertSignedIntToSymbol *)

(* BEGIN tie ConvertSymbolToSignedInt *)
Lemma tie_zz_dec_aux w s : 1 <= w -> 0 <= s < 2 ^ w ->
  0 <= Z.shiftr s 1 < 2 ^ (w - 1) /\ to_signed w (Z.shiftr s 1) = Z.shiftr s 1.
Proof.
  intros Hw Hs. rewrite shiftr1_div2.
  assert (2 ^ w = 2 * 2 ^ (w - 1)) by (rewrite <- Z.pow_succ_r by lia; f_equal; lia).
  assert (0 <= s / 2 < 2 ^ (w - 1)) by divmod.
  split; [assumption|]. unfold to_signed. destruct (s / 2 <? 2 ^ (w - 1)) eqn:E; lia.
Qed.
Lemma tie_ConvertSymbolToSignedInt_u8 s : 0 <= s < 256 -> gen_ConvertSymbolToSignedInt_u8 s = zigzag_dec 8 s.
Proof.
  intros. first [ solve [
    unfold gen_ConvertSymbolToSignedInt_u8, zigzag_dec; cbv zeta; rewrite negb_involutive;
    destruct (tie_zz_dec_aux 8 s) as [R ->]; [lia | change (2 ^ 8) with 256; lia |]; change (2 ^ (8 - 1)) with 128 in R;
    set (h := Z.shiftr s 1) in *; clearbody h;
    rewrite (Z.mod_small h) by lia;
    destruct (Z.land s 1 =? 0);
    [ rewrite (Z.mod_small (h + 128)) by lia; lia
    | rewrite (Z.mod_small (h + 128)) by lia; replace (h + 128 - 128) with h by lia;
      rewrite (Z.mod_small (- h - 1 + 128)) by lia; lia ] ]
  | tie_sweep gen_ConvertSymbolToSignedInt_u8 (zigzag_dec 8) 0 256 ].
Qed.
Print Assumptions tie_ConvertSymbolToSignedInt_u8.
Lemma tie_ConvertSymbolToSignedInt_u16 s : 0 <= s < 65536 -> gen_ConvertSymbolToSignedInt_u16 s = zigzag_dec 16 s.
Proof.
  intros. first [ solve [
    unfold gen_ConvertSymbolToSignedInt_u16, zigzag_dec; cbv zeta; rewrite negb_involutive;
    destruct (tie_zz_dec_aux 16 s) as [R ->]; [lia | change (2 ^ 16) with 65536; lia |]; change (2 ^ (16 - 1)) with 32768 in R;
    set (h := Z.shiftr s 1) in *; clearbody h;
    rewrite (Z.mod_small h) by lia;
    destruct (Z.land s 1 =? 0);
    [ rewrite (Z.mod_small (h + 32768)) by lia; lia
    | rewrite (Z.mod_small (h + 32768)) by lia; replace (h + 32768 - 32768) with h by lia;
      rewrite (Z.mod_small (- h - 1 + 32768)) by lia; lia ] ]
  | tie_sweep gen_ConvertSymbolToSignedInt_u16 (zigzag_dec 16) 0 65536 ].
Qed.
Print Assumptions tie_ConvertSymbolToSignedInt_u16.
Lemma tie_ConvertSymbolToSignedInt_u32 s : 0 <= s < 4294967296 -> gen_ConvertSymbolToSignedInt_u32 s = zigzag_dec 32 s.
Proof.
  intros. first [ solve [
    unfold gen_ConvertSymbolToSignedInt_u32, zigzag_dec; cbv zeta; rewrite negb_involutive;
    destruct (tie_zz_dec_aux 32 s) as [R ->]; [lia | change (2 ^ 32) with 4294967296; lia |];
    change (2 ^ (32 - 1)) with 2147483648 in R;
    set (h := Z.shiftr s 1) in *; clearbody h;
    rewrite (Z.mod_small (h + 2147483648)) by lia;
    destruct (Z.land s 1 =? 0); lia ]
  | unfold gen_ConvertSymbolToSignedInt_u32, zigzag_dec, to_signed;
    change (2 ^ (32 - 1)) with 2147483648; change (2 ^ 32) with 4294967296; tie_bits ].
Qed.
Print Assumptions tie_ConvertSymbolToSignedInt_u32.
Lemma tie_ConvertSymbolToSignedInt_u64 s : 0 <= s < 18446744073709551616 -> gen_ConvertSymbolToSignedInt_u64 s = zigzag_dec 64 s.
Proof.
  intros. first [ solve [
    unfold gen_ConvertSymbolToSignedInt_u64, zigzag_dec; cbv zeta; rewrite negb_involutive;
    destruct (tie_zz_dec_aux 64 s) as [R ->]; [lia | change (2 ^ 64) with 18446744073709551616; lia |];
    change (2 ^ (64 - 1)) with 9223372036854775808 in R;
    set (h := Z.shiftr s 1) in *; clearbody h;
    rewrite (Z.mod_small (h + 9223372036854775808)) by lia;
    destruct (Z.land s 1 =? 0); lia ]
  | unfold gen_ConvertSymbolToSignedInt_u64, zigzag_dec, to_signed;
    change (2 ^ (64 - 1)) with 9223372036854775808; change (2 ^ 64) with 18446744073709551616; tie_bits ].
Qed.
Print Assumptions tie_ConvertSymbolToSignedInt_u64.
(* END tie ConvertSymbolToSignedInt *)

(* BEGIN tie AddAsUnsigned *)
Lemma tie_AddAsUnsigned_i32 a b : gen_AddAsUnsigned_i32 a b = add_as_unsigned a b.
Proof. unfold gen_AddAsUnsigned_i32, add_as_unsigned, to_i32, u32. tie_auto. Qed.
Print Assumptions tie_AddAsUnsigned_i32.
(* END tie AddAsUnsigned *)

(* BEGIN tie IsInDiamond *)
Lemma tie_IsInDiamond b s t : gen_IsInDiamond (ob_center b) s t = is_in_diamond b s t.
Proof. unfold gen_IsInDiamond, is_in_diamond, u32. tie_auto. Qed.
Print Assumptions tie_IsInDiamond.
(* END tie IsInDiamond *)

(* BEGIN tie IsInDiamond_no_ub *)
(** std::abs(INT_MIN) is the only undefined behaviour *)
Lemma tie_IsInDiamond_no_ub c s t : -2147483648 < s -> -2147483648 < t -> gen_IsInDiamond_no_ub c s t = true.
Proof. intros. unfold gen_IsInDiamond_no_ub. tie_ub. Qed.
Print Assumptions tie_IsInDiamond_no_ub.
(* END tie IsInDiamond_no_ub *)

(* BEGIN tie InvertDiamond *)
Lemma tie_InvertDiamond b s t : gen_InvertDiamond (ob_center b) s t = invert_diamond b (s, t).
Proof.
  unfold gen_InvertDiamond, invert_diamond, invert_signs, u32, to_i32. cbv zeta.
  destruct (s >=? 0), (t >=? 0), (s <=? 0), (t <=? 0), (s >? 0), (t >? 0); reflexivity.
Qed.
Print Assumptions tie_InvertDiamond.
(* END tie InvertDiamond *)

(* BEGIN tie ModMax *)
Lemma tie_ModMax b x : gen_ModMax (ob_center b) (ob_mqv b) x = mod_max b x.
Proof. unfold gen_ModMax, mod_max. tie_auto. Qed.
Print Assumptions tie_ModMax.
(* END tie ModMax *)

(* BEGIN tie ModMax_no_ub *)
(** no signed overflow for any int32 x when 0 <= center and 0 <= mqv <= 2^31-1 (every reachable tool box state) *)
Lemma tie_ModMax_no_ub c m x : -2147483648 <= x <= 2147483647 -> 0 <= c <= 2147483647 -> 0 <= m <= 2147483647 ->
  gen_ModMax_no_ub c m x = true.
Proof. intros. unfold gen_ModMax_no_ub. tie_ub. Qed.
Print Assumptions tie_ModMax_no_ub.
(* END tie ModMax_no_ub *)

(* BEGIN tie MakePositive *)
Lemma tie_MakePositive b x : gen_MakePositive (ob_mqv b) x = make_positive b x.
Proof. unfold gen_MakePositive, make_positive. tie_auto. Qed.
Print Assumptions tie_MakePositive.
(* END tie MakePositive *)

(* BEGIN tie CanonicalizeOctahedralCoords *)
Lemma tie_CanonicalizeOctahedralCoords b s t :
  gen_CanonicalizeOctahedralCoords (ob_maxv b) (ob_center b) s t = canonicalize b (s, t).
Proof. unfold gen_CanonicalizeOctahedralCoords, canonicalize. tie_auto. Qed.
Print Assumptions tie_CanonicalizeOctahedralCoords.
(* END tie CanonicalizeOctahedralCoords *)

(* BEGIN tie CanonicalizeOctahedralCoords_no_ub *)
(** the generated UB predicate is the model's trace predicate *)
Lemma tie_CanonicalizeOctahedralCoords_no_ub b s t :
  gen_CanonicalizeOctahedralCoords_no_ub (ob_maxv b) (ob_center b) s t = all_in_i32 (canonicalize_trace b (s, t)).
Proof.
  unfold gen_CanonicalizeOctahedralCoords_no_ub, canonicalize_trace, all_in_i32, irange, in_i32.
  destruct ((s =? 0) && (t =? 0) || (s =? 0) && (t =? ob_maxv b) || (s =? ob_maxv b) && (t =? 0)); [reflexivity|].
  destruct ((s =? 0) && (t >? ob_center b)); [cbn [forallb]; rewrite andb_true_r; reflexivity|].
  destruct ((s =? ob_maxv b) && (t <? ob_center b)); [cbn [forallb]; rewrite andb_true_r; reflexivity|].
  destruct ((t =? ob_maxv b) && (s <? ob_center b)); [cbn [forallb]; rewrite andb_true_r; reflexivity|].
  destruct ((t =? 0) && (s >? ob_center b)); [cbn [forallb]; rewrite andb_true_r; reflexivity|reflexivity].
Qed.
Print Assumptions tie_CanonicalizeOctahedralCoords_no_ub.
(* END tie CanonicalizeOctahedralCoords_no_ub *)

(* BEGIN tie SetQuantizationBits *)
(** returns false = the model's None (the four integer fields keep their old values); true = Some state with exactly
    the fields written.  The store to the float field dequantization_scale_ is outside the integer model
    ("ignore_fields" of the whitelist entry). *)
Lemma tie_SetQuantizationBits q qb0 m0 v0 c0 :
  gen_SetQuantizationBits qb0 m0 v0 c0 q =
  match set_quantization_bits q with
  | Some o => (true, ob_q o, ob_mqv o, ob_maxv o, ob_center o)
  | None => (false, qb0, m0, v0, c0)
  end.
Proof. unfold gen_SetQuantizationBits, set_quantization_bits, to_i32, u32. tie_auto. Qed.
Print Assumptions tie_SetQuantizationBits.
(* END tie SetQuantizationBits *)

(* BEGIN tie SetQuantizationBits_no_ub *)
(** for EVERY q: the shift count is in range and max_quantized_value_ - 1 does not overflow *)
Lemma tie_SetQuantizationBits_no_ub q qb0 m0 v0 c0 : gen_SetQuantizationBits_no_ub qb0 m0 v0 c0 q = true.
Proof.
  unfold gen_SetQuantizationBits_no_ub, irange. cbv zeta.
  destruct ((q <? 2) || (q >? 30)) eqn:E; [reflexivity|].
  assert (Hq : 2 <= q <= 30) by lia.
  rewrite Z.shiftl_mul_pow2 by lia.
  assert (2 ^ 2 <= 2 ^ q <= 2 ^ 30) by (split; apply Z.pow_le_mono_r; lia).
  change (2 ^ 2) with 4 in *. change (2 ^ 30) with 1073741824 in *.
  set (p := 2 ^ q) in *. clearbody p.
  rewrite (Z.mod_small (1 * p)) by lia. rewrite (Z.mod_small (1 * p - 1)) by lia.
  rewrite (Z.mod_small (1 * p - 1 + 2147483648)) by lia. lia.
Qed.
Print Assumptions tie_SetQuantizationBits_no_ub.
(* END tie SetQuantizationBits_no_ub *)

(* BEGIN tie IsInBottomLeft *)
Lemma tie_IsInBottomLeft x y : gen_IsInBottomLeft_i32 x y = is_in_bottom_left (x, y).
Proof. unfold gen_IsInBottomLeft_i32, is_in_bottom_left. tie_auto. Qed.
Print Assumptions tie_IsInBottomLeft.
(* END tie IsInBottomLeft *)

(* BEGIN tie GetRotationCount *)
Lemma tie_GetRotationCount x y : gen_GetRotationCount_i32 x y = rotation_count (x, y).
Proof. unfold gen_GetRotationCount_i32, rotation_count. tie_auto. Qed.
Print Assumptions tie_GetRotationCount.
(* END tie GetRotationCount *)

(* BEGIN tie RotatePoint *)
Lemma tie_RotatePoint x y k : gen_RotatePoint_i32 x y k = rotate_point (x, y) k.
Proof. unfold gen_RotatePoint_i32, rotate_point. tie_auto. Qed.
Print Assumptions tie_RotatePoint.
(* END tie RotatePoint *)

(* BEGIN tie RotatePoint_no_ub *)
(** unary minus on INT_MIN is the only undefined behaviour *)
Lemma tie_RotatePoint_no_ub x y k : -2147483648 < x <= 2147483647 -> -2147483648 < y <= 2147483647 ->
  gen_RotatePoint_i32_no_ub x y k = true.
Proof. intros. unfold gen_RotatePoint_i32_no_ub. tie_ub. Qed.
Print Assumptions tie_RotatePoint_no_ub.
(* END tie RotatePoint_no_ub *)

(* BEGIN tie ClampPredictedValue *)
Lemma tie_ClampPredictedValue b p : gen_ClampPredictedValue_i32 (wb_min b) (wb_max b) p = wrap_clamp b p.
Proof. unfold gen_ClampPredictedValue_i32, wrap_clamp. tie_auto. Qed.
Print Assumptions tie_ClampPredictedValue.
(* END tie ClampPredictedValue *)

(* BEGIN tie InitCorrectionBounds *)
(** returns false = the model's None (the three bound fields keep their old values d0 c0 c1);
    returns true  = Some bounds with exactly the fields written. *)
Lemma tie_InitCorrectionBounds mn mx d0 c0 c1 :
  gen_InitCorrectionBounds_i32 mn mx d0 c0 c1 =
  match wrap_init mn mx with
  | Some b => (true, wb_max_dif b, wb_min_corr b, wb_max_corr b)
  | None => (false, d0, c0, c1)
  end.
Proof.
  unfold gen_InitCorrectionBounds_i32, wrap_init, to_i32. cbv zeta.
  destruct ((mx - mn <? 0) || (mx - mn >=? 2147483647)); [reflexivity|].
  cbn [wb_max_dif wb_min_corr wb_max_corr].
  destruct (Z.land (1 + ((mx - mn + 2147483648) mod 4294967296 - 2147483648)) 1 =? 0); reflexivity.
Qed.
Print Assumptions tie_InitCorrectionBounds.
Lemma tie_InitCorrectionBounds_fields mn mx b : wrap_init mn mx = Some b -> wb_min b = mn /\ wb_max b = mx.
Proof.
  unfold wrap_init. destruct ((mx - mn <? 0) || (mx - mn >=? 2147483647)); [discriminate|].
  intros E. injection E as <-. split; reflexivity.
Qed.
Print Assumptions tie_InitCorrectionBounds_fields.
(* END tie InitCorrectionBounds *)

(* BEGIN tie InitCorrectionBounds_no_ub *)
(** no signed overflow for int32 fields (the int64 subtraction, 1 + (int32)dif, the negation, the decrement) *)
Lemma tie_InitCorrectionBounds_no_ub mn mx d0 c0 c1 :
  -2147483648 <= mn <= 2147483647 -> -2147483648 <= mx <= 2147483647 ->
  gen_InitCorrectionBounds_i32_no_ub mn mx d0 c0 c1 = true.
Proof.
  intros. unfold gen_InitCorrectionBounds_i32_no_ub, irange. cbv zeta.
  destruct ((mx - mn <? 0) || (mx - mn >=? 2147483647)) eqn:E; [lia|].
  rewrite (Z.mod_small (mx - mn + 2147483648)) by lia.
  replace (mx - mn + 2147483648 - 2147483648) with (mx - mn) by lia.
  set (d := 1 + (mx - mn)) in *. assert (1 <= d <= 2147483647) by lia. clearbody d.
  assert (0 <= Z.quot d 2 <= d) by (rewrite Z.quot_div_nonneg by lia; divmod).
  destruct (Z.land d 1 =? 0); lia.
Qed.
Print Assumptions tie_InitCorrectionBounds_no_ub.
(* END tie InitCorrectionBounds_no_ub *)

(* BEGIN tie ComputeRAnsPrecisionFromUniqueSymbolsBitLength *)
(** C++ `/` truncates, the model uses floor division: equal for the non-negative bit lengths the callers pass *)
Lemma tie_ComputeRAnsUnclampedPrecision b : 0 <= b -> gen_ComputeRAnsUnclampedPrecision b = (3 * b) / 2.
Proof. intros. unfold gen_ComputeRAnsUnclampedPrecision. apply Z.quot_div_nonneg; lia. Qed.
Print Assumptions tie_ComputeRAnsUnclampedPrecision.
Lemma tie_ComputeRAnsPrecisionFromUniqueSymbolsBitLength b : 0 <= b ->
  gen_ComputeRAnsPrecisionFromUniqueSymbolsBitLength b = rans_precision_bits b.
Proof.
  intros. unfold gen_ComputeRAnsPrecisionFromUniqueSymbolsBitLength, rans_precision_bits.
  rewrite tie_ComputeRAnsUnclampedPrecision by lia. reflexivity.
Qed.
Print Assumptions tie_ComputeRAnsPrecisionFromUniqueSymbolsBitLength.
(* END tie ComputeRAnsPrecisionFromUniqueSymbolsBitLength *)

(* BEGIN tie ComputeRAnsPrecisionFromUniqueSymbolsBitLength_no_ub *)
Lemma tie_ComputeRAnsPrecision_no_ub b : 0 <= b <= 715827882 -> gen_ComputeRAnsPrecisionFromUniqueSymbolsBitLength_no_ub b = true.
Proof.
  intros. unfold gen_ComputeRAnsPrecisionFromUniqueSymbolsBitLength_no_ub, gen_ComputeRAnsUnclampedPrecision_no_ub, irange.
  assert ((-2147483648 <=? 3 * b) && (3 * b <=? 2147483647) = true) as -> by lia.
  destruct (gen_ComputeRAnsUnclampedPrecision b <? 12), (gen_ComputeRAnsUnclampedPrecision b >? 20); reflexivity.
Qed.
Print Assumptions tie_ComputeRAnsPrecision_no_ub.
(* END tie ComputeRAnsPrecisionFromUniqueSymbolsBitLength_no_ub *)
