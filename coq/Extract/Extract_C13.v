From Coq Require Import ExtrOcamlBasic.
From Draco Require Import Base.DriverSupport Model.CornerTable.
Extraction "m.ml" ds_api ct_create vertex_parent.
