From Coq Require Import ExtrOcamlBasic.
From Draco Require Import Base.DriverSupport Base.Float32 Model.Varint Model.BitCoders Model.SeqCodec Model.KdTree.
Extraction "m.ml" ds_api enc_le dec_le kd_encode_points kd_decode_points kd_enc_pc kd_dec_pc_stream bits_of_f32.
