From Coq Require Import ExtrOcamlBasic.
From Draco Require Import Base.DriverSupport Model.Fans.
Extraction "m.ml" ds_api enc_count enc_count_with_shortcut dec_points labels_wfb dedup_okb recompute_table no_interior_seams
  eb_reported_faces eb_written_faces eb_decoded_faces seq_mesh_reported seq_mesh_header seq_mesh_decoded
  pc_reported pc_header pc_decoded api_reported.
