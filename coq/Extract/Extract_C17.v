From Coq Require Import ExtrOcamlBasic.
From Draco Require Import Base.DriverSupport Model.Varint Model.BitBuffer Model.Ans Model.BitCoders Model.AdaptiveProb.
Extraction "m.ml" ds_api enc_varint_u dec_varint_u enc_varint_s dec_varint_s enc_le dec_le
  enc_items dec_items
  flatten read_n read_ops
  ransbit_encode ransbit_start ransbit_next
  adaptive_encode adaptive_start adaptive_next clamp_probability update_probability d_half
  direct_encode direct_start direct_next direct_lsb
  folded_encode folded_start folded_read folded_bit.
