From Coq Require Import ExtrOcamlBasic.
From Draco Require Import Base.DriverSupport Model.Varint.
Extraction "m.ml" ds_api enc_varint_u dec_varint_u enc_varint_s dec_varint_s enc_le dec_le.
