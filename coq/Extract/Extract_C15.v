From Coq Require Import ExtrOcamlBasic.
From Draco Require Import Base.DriverSupport Model.Dedup Model.IoText Model.PlyModel Model.StlModel Model.ObjModel.
Extraction "m.ml" ds_api ply_write ply_decode ply_decode_raw ply_reader stl_write stl_read
  obj_write render_obj obj_decode obj_decode_raw parse_corner corner_text.
