From Coq Require Import ExtrOcamlBasic.
From Draco Require Import Base.DriverSupport Model.BitCoders Model.EbTraversal.
Extraction "m.ml" ds_api enc_conn enc_trav_std enc_trav_val dec_conn drain_std read_n ransbit_next read_seams
  vd_run val_env_step conn_max_vertices.
