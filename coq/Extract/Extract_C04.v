From Coq Require Import ExtrOcamlBasic.
From Draco Require Import Base.DriverSupport Base.Float32 Model.Quantize.
Extraction "m.ml" ds_api f32_of_bits bits_of_f32 obs_bits obs_row
  quantizer_init quantizer_init_delta quantize_float dequantizer_init dequantize_float
  set_parameters compute_parameters generate_portable generate_portable_ids
  inverse_transform kd_inverse_transform encode_parameters decode_parameters kd_decode_parameters
  quant_f deq_f requant_f qp_bits qp_min qp_range.
