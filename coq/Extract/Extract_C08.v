From Coq Require Import ExtrOcamlBasic.
From Draco Require Import Base.DriverSupport Model.Varint Model.RansSymbol Model.RansFloat Model.SymbolCoding Model.RansBound Model.SymbolPolicy.
Extraction "m.ml" ds_api rans_precision_bits enc_symbols auto_method_ok dec_symbols create_f64 rans_encode_with enc_table
  rans_decode_symbols rans_encode_syms rans_write_init rans_block rans_area_used rans_reserved ebits_report
  with_cum arr_of_list zlen enc_symbols_with default_raw_bit_length.
