From Coq Require Import ExtrOcamlBasic.
From Draco Require Import Base.DriverSupport Model.Varint Model.RansSymbol Model.RansFloat Model.SymbolCoding.
Extraction "m.ml" ds_api rans_precision_bits enc_symbols auto_method_ok dec_symbols create_f64 rans_encode_with enc_table
  rans_decode_symbols.
