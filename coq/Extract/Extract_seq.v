From Coq Require Import ExtrOcamlBasic.
From Draco Require Import Base.DriverSupport Base.Float32 Model.Varint Model.Metadata Model.SeqAttr Model.SeqCodec Model.SeqCodecInst.
Extraction "m.ml" ds_api i_enc_pc_seq i_enc_mesh_seq i_dec_pc_seq i_dec_mesh_seq md_enc md_dec enc_le dec_le dt_len bits_of_f32 i_version_ok.
