From Coq Require Import ExtrOcamlBasic.
From Draco Require Import Base.DriverSupport Model.CornerTable Model.Predict.
Extraction "m.ml" ds_api ct_create par_encode par_decode mp_encode mp_decode mp_choice tc_encode tc_decode tc_choice gn_encode gn_decode.
