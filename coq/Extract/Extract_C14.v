From Coq Require Import ExtrOcamlBasic.
From Draco Require Import Base.DriverSupport Model.Dedup Model.Cleanup Model.Strips.
Extraction "m.ml" ds_api dedup_values dedup_attribute_values dedup_point_ids cleanup soup_build pc_build
  remove_degenerate_faces remove_duplicate_faces remove_unused_attributes strips_restart strips_degenerate strips_walks_ok opp_wf_b.
