From Coq Require Import ExtrOcamlBasic.
From Draco Require Import Base.DriverSupport Model.CornerTable Model.Edgebreaker Model.EbEncoder.
Extraction "m.ml" ds_api ct_create eb_encode_ct eb_decode_of eb_iso_b tabulate.
