From Coq Require Import ExtrOcamlBasic.
From Draco Require Import Base.DriverSupport Model.Edgebreaker.
Extraction "m.ml" ds_api eb_core eb_full bits_of_list tabulate assign_points_seam init_st.
