From Coq Require Import ExtrOcamlBasic.
From Draco Require Import Base.DriverSupport Model.Varint Model.Metadata.
Extraction "m.ml" ds_api enc_geometry enc_node dec_geometry_rec dec_geometry_stack dec_node_rec dec_node_stack
  node_sorted keys_sorted.
