From Coq Require Import ExtrOcamlBasic.
From Draco Require Import Base.DriverSupport Base.Float32 Base.Float64 Model.Quantize Model.Octahedron Model.Normals.
Extraction "m.ml" ds_api f32_of_bits bits_of_f32 obs_bits
  set_quantization_bits ob_center ob_maxv ob_mqv canonicalize
  normal_to_oct_bits oct_to_normal_bits int_vec_to_oct canonicalize_int_vector float_vector_to_int_vec
  vec3_of_bits obs_vec3 oct_generate_portable oct_inverse_transform oct_encode_parameters oct_decode_parameters
  requant_normal quantized_oct_to_unit_vector.
