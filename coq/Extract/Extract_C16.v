From Coq Require Import ExtrOcamlBasic.
From Draco Require Import Base.DriverSupport Model.Wrap Model.Octahedron.
Extraction "m.ml" ds_api
  in_i32 to_i32 wrap_init wrap_dec_init wrap_clamp wrap_enc wrap_enc_no_ub wrap_dec
  wb_min wb_max wb_max_dif wb_min_corr wb_max_corr
  ob_q ob_mqv ob_maxv ob_center obox_of_center
  set_quantization_bits set_max_quantized_value oct_canon_dec_init
  is_in_diamond invert_diamond mod_max make_positive canonicalize canonicalize_trace
  rotation_count rotate_point is_in_bottom_left add_as_unsigned all_in_i32
  oct_canon_enc oct_canon_enc_no_ub oct_canon_dec oct_canon_dec_no_ub oct_enc oct_dec.
