From Coq Require Import ExtrOcamlBasic.
From Draco Require Import Base.DriverSupport Model.CornerTable Model.Traverser.
Extraction "m.ml" ds_api ct_create tt_of_ct tt_of_att dfs_sequence mpd_sequence enc_v2d0 dec_v2d0 tt_okb
  eb_corner_order eb_decoder_order eb_corner_map tt_num_vertices tt_num_faces.
