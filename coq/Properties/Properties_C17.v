(** C17 — bit, varint and buffer primitives round-trip every value.
    This file only restates theorems proved in Proofs/ and prints their assumptions.
    Shape of every statement: [enc x = Some bs -> dec (bs ++ rest) = Some (x, rest)] — lossless,
    self-delimiting, unaffected by what follows. *)
From Draco Require Import Base.Codec Gen.Constants Model.Varint Model.BitBuffer Model.Ans Model.BitCoders
  Model.AdaptiveProb
  Proofs.Varint_proofs Proofs.BitBuffer_proofs Proofs.Ans_proofs Proofs.BitCoders_proofs
  Proofs.DirectCoder_proofs Proofs.FoldedCoder_proofs Proofs.C17_final_proofs.
Local Open Scope Z_scope.

(** ** Variable-length integers, zig-zag, byte-aligned scalars *)
Theorem C17_varint_unsigned_roundtrips : forall w, width_ok w ->
  roundtrips enc_varint_u (dec_varint_u w) (fun v => 0 <= v < 2 ^ w).
Proof. exact varint_u_roundtrips. Qed.
Print Assumptions C17_varint_unsigned_roundtrips.

(** The encoder never fails on a value of the type and never needs more bytes than the
    decoder's depth limit (regenerated from the source: Gen.Constants.varint_max_depth_of_sizeof). *)
Theorem C17_varint_encoder_total : forall w v, width_ok w -> 0 <= v < 2 ^ w ->
  exists bs, enc_varint_u v = Some bs /\ (0 < length bs <= varint_max_depth w)%nat /\ wf_bytes bs.
Proof. exact enc_varint_u_total. Qed.
Print Assumptions C17_varint_encoder_total.

Theorem C17_varint_signed_roundtrips : forall w, width_ok w ->
  roundtrips (enc_varint_s w) (dec_varint_s w) (fun v => - 2 ^ (w - 1) <= v < 2 ^ (w - 1)).
Proof. exact varint_s_roundtrips. Qed.
Print Assumptions C17_varint_signed_roundtrips.

Theorem C17_zigzag_inverse : forall w v, 1 <= w -> - 2 ^ (w - 1) <= v < 2 ^ (w - 1) ->
  zigzag_dec w (zigzag_enc w v) = v.
Proof. exact zigzag_inverse. Qed.
Print Assumptions C17_zigzag_inverse.

Theorem C17_scalar_roundtrips : forall n,
  roundtrips (fun v => Some (enc_le n v)) (dec_le n) (fun v => 0 <= v < 256 ^ Z.of_nat n).
Proof. exact le_roundtrips. Qed.
Print Assumptions C17_scalar_roundtrips.

(** ** Bit sequences with and without stored size, interleaved with byte-mode data
    (any list of items; every block may hold any number of 0..32-bit writes that fit the reservation). *)
Theorem C17_bit_and_byte_items_roundtrip : forall ver, 514 <= ver -> forall its bs rest,
  Forall item_ok its -> enc_items its = Some bs ->
  dec_items ver (map shape_of its) (bs ++ rest) = Some (map expect_of its, rest).
Proof. exact items_roundtrip. Qed.
Print Assumptions C17_bit_and_byte_items_roundtrip.

(** Reading past the written data yields zeros (and the model never indexes outside the buffer). *)
Theorem C17_bits_past_end_are_zero : forall bs off n, wf_bytes bs -> 8 * Z.of_nat (length bs) <= off -> 0 <= n ->
  (le_val bs / 2 ^ off) mod 2 ^ n = 0.
Proof. exact get_bits_past_end. Qed.
Print Assumptions C17_bits_past_end_are_zero.

(** ** rABS core: the table-driven division is exact, and every (bit, probability) sequence round-trips *)
Theorem C17_fastdiv_correct : forall y x, 1 <= y <= 255 -> 0 <= x < 2 ^ 31 -> fastdiv x y = x / y.
Proof. exact fastdiv_correct. Qed.
Print Assumptions C17_fastdiv_correct.

Theorem C17_rabs_block_roundtrip : forall syms, probs_ok syms ->
  exists blk, rabs_block syms = Some blk /\ Forall is_byte blk /\ (length blk <= length syms + 3)%nat /\
    exists x0 stk0, ans_read_init (rev blk) = Some (x0, stk0) /\
      exists x' s', rabs_decode (map snd syms) x0 stk0 = (map fst syms, x', s') /\ renorm x' s' = (ansL, []).
Proof. exact rabs_block_roundtrip. Qed.
Print Assumptions C17_rabs_block_roundtrip.

(** ** RAnsBitEncoder/Decoder: any sequence of EncodeBit / EncodeLeastSignificantBits32(1..32 bits) *)
Theorem C17_ransbit_roundtrip : forall ver ops bs rest,
  514 <= ver -> ops_nonneg ops -> Z.of_nat (length (flatten ops)) + 3 < 2 ^ 32 ->
  ransbit_encode (flatten ops) = Some bs ->
  exists st, ransbit_start ver (bs ++ rest) = Some (st, rest) /\
             fst (read_ops ransbit_next (map rop_of ops) st) = map value_of ops.
Proof. exact ransbit_ops_roundtrip. Qed.
Print Assumptions C17_ransbit_roundtrip.

Theorem C17_ransbit_encoder_total : forall bits, Z.of_nat (length bits) + 3 < 2 ^ 32 ->
  exists bs, ransbit_encode bits = Some bs.
Proof. exact ransbit_encode_total. Qed.
Print Assumptions C17_ransbit_encoder_total.

(** ** AdaptiveRAnsBitEncoder/Decoder: for EVERY probability state machine whose clamp lands in 1..255
    (the binary64 recurrence of the C++ is the instance AdaptiveProb.clamp_probability/update_probability,
    tied by correspondence). *)
Theorem C17_adaptive_roundtrip : forall (PS : Type) (p_clamp : PS -> Z) (p_upd : PS -> bool -> PS) p_init ops bs rest,
  (forall p, 1 <= p_clamp p <= 255) ->
  ops_nonneg ops -> Z.of_nat (length (flatten ops)) + 3 < 2 ^ 32 ->
  adaptive_encode p_clamp p_upd p_init (flatten ops) = Some bs ->
  exists st, adaptive_start p_init (bs ++ rest) = Some (st, rest) /\
             fst (read_ops (adaptive_next p_clamp p_upd) (map rop_of ops) st) = map value_of ops.
Proof. intros PS. exact (@adaptive_ops_roundtrip PS). Qed.
Print Assumptions C17_adaptive_roundtrip.

(** The adaptive encoder's scratch buffer (number of bits + 16 bytes) always suffices. *)
Theorem C17_adaptive_buffer_suffices : forall (PS : Type) (p_clamp : PS -> Z) (p_upd : PS -> bool -> PS),
  (forall p, 1 <= p_clamp p <= 255) -> forall p_init bits,
  exists blk, rabs_block (adaptive_syms p_clamp p_upd p_init bits) = Some blk /\
              (length blk <= length bits + 3)%nat.
Proof. intros PS. exact (@adaptive_buffer_suffices PS). Qed.
Print Assumptions C17_adaptive_buffer_suffices.

(** ** DirectBitEncoder/Decoder *)
Theorem C17_direct_roundtrip : forall ops bs rest,
  ops_nonneg ops -> 4 * (Z.of_nat (length (flatten ops)) / 32 + 1) < 2 ^ 32 ->
  direct_encode (flatten ops) = Some bs ->
  exists st, direct_start (bs ++ rest) = Some (st, rest) /\
             fst (read_ops direct_next (map rop_of ops) st) = map value_of ops.
Proof. exact direct_ops_roundtrip. Qed.
Print Assumptions C17_direct_roundtrip.

Theorem C17_direct_lsb_is_n_bit_reads : forall n st, (n <= length (ds_bits st))%nat ->
  direct_lsb n st = Some (val_msb (fst (read_n direct_next n st)), snd (read_n direct_next n st)).
Proof. exact direct_lsb_spec. Qed.
Print Assumptions C17_direct_lsb_is_n_bit_reads.

(** ** FoldedBit32Encoder/Decoder over ANY inner coder satisfying the bit-coder law, and the RAnsBit instance *)
Theorem C17_folded_roundtrip_generic : forall (St : Type)
  (inner_enc : list bool -> option bytes) (inner_start : bytes -> option (St * bytes)) (inner_next : St -> bool * St),
  (forall bits bs rest, inner_enc bits = Some bs ->
     exists st, inner_start (bs ++ rest) = Some (st, rest) /\ fst (read_n inner_next (length bits) st) = bits) ->
  forall ops bs rest, ops_ok ops -> folded_encode inner_enc ops = Some bs ->
  exists sts sts', folded_start inner_start (bs ++ rest) = Some (sts, rest) /\
    folded_read inner_next (map rop_of ops) sts = Some (map value_of ops, sts').
Proof. intros St. exact (@folded_roundtrip St). Qed.
Print Assumptions C17_folded_roundtrip_generic.

Theorem C17_folded_ransbit_roundtrip : forall ver ops bs rest,
  514 <= ver -> ops_ok ops -> Z.of_nat (length ops) + 3 < 2 ^ 32 ->
  folded_encode ransbit_encode ops = Some bs ->
  exists sts sts', folded_start (ransbit_start ver) (bs ++ rest) = Some (sts, rest) /\
    folded_read ransbit_next (map rop_of ops) sts = Some (map value_of ops, sts').
Proof. exact folded_ransbit_roundtrip. Qed.
Print Assumptions C17_folded_ransbit_roundtrip.

(** ** Non-vacuity: the premises are met by concrete values, and the functions compute. *)
Example C17_example_varint : enc_varint_u 300 = Some [172; 2] /\ dec_varint_u 32 [172; 2; 9] = Some (300, [9]).
Proof. vm_compute. split; reflexivity. Qed.
Example C17_example_items :
  let its := [IBytes [7; 8]; IBlock 20 true [(3, 5); (9, 300)]; IBytes [1]] in
  Forall item_ok its /\
  enc_items its = Some [7; 8; 2; 101; 9; 1] /\
  dec_items 514 (map shape_of its) ([7; 8; 2; 101; 9; 1] ++ [99]) = Some (map expect_of its, [99]).
Proof.
  cbn zeta. split; [repeat constructor; cbn; lia|]. split; vm_compute; reflexivity.
Qed.
Example C17_example_ransbit :
  let ops := [OBit true; OLsb 5 19; OBit false; OLsb 32 4294967295] in
  ransbit_encode (flatten ops) = Some [20; 4; 96; 106; 74; 137] /\
  match ransbit_start 514 ([20; 4; 96; 106; 74; 137] ++ [1; 2]) with
  | Some (st, rest) => rest = [1; 2] /\ fst (read_ops ransbit_next (map rop_of ops) st) = [1; 19; 0; 4294967295]
  | None => False
  end.
Proof. cbn zeta. split; [vm_compute; reflexivity|]. vm_compute. split; reflexivity. Qed.
Example C17_example_adaptive_instance_in_range :
  forallb (fun p => (1 <=? p) && (p <=? 255))
    (map (fun st => clamp_probability st) [d_half; update_probability d_half true; update_probability d_half false]) = true.
Proof. vm_compute. reflexivity. Qed.
