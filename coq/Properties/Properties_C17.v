(** C17 — bit, varint and buffer primitives round-trip every value.
    This file only restates theorems proved in Proofs/ and prints their assumptions. *)
From Draco Require Import Base.Codec Model.Varint Proofs.Varint_proofs.
Local Open Scope Z_scope.

(** Unsigned varints of every width: lossless, self-delimiting, independent of trailing bytes. *)
Theorem C17_varint_unsigned_roundtrips : forall w, width_ok w ->
  roundtrips enc_varint_u (dec_varint_u w) (fun v => 0 <= v < 2 ^ w).
Proof. exact varint_u_roundtrips. Qed.
Print Assumptions C17_varint_unsigned_roundtrips.

(** The encoder never fails on a value of the type and never needs more bytes than the
    decoder's depth limit allows. *)
Theorem C17_varint_encoder_total : forall w v, width_ok w -> 0 <= v < 2 ^ w ->
  exists bs, enc_varint_u v = Some bs /\ (0 < length bs <= varint_max_depth w)%nat /\ wf_bytes bs.
Proof. exact enc_varint_u_total. Qed.
Print Assumptions C17_varint_encoder_total.

Theorem C17_varint_signed_roundtrips : forall w, width_ok w ->
  roundtrips (enc_varint_s w) (dec_varint_s w) (fun v => - 2 ^ (w - 1) <= v < 2 ^ (w - 1)).
Proof. exact varint_s_roundtrips. Qed.
Print Assumptions C17_varint_signed_roundtrips.

Theorem C17_zigzag_inverse : forall w v, 1 <= w -> - 2 ^ (w - 1) <= v < 2 ^ (w - 1) ->
  zigzag_dec w (zigzag_enc w v) = v.
Proof. exact zigzag_inverse. Qed.
Print Assumptions C17_zigzag_inverse.

Theorem C17_scalar_roundtrips : forall n,
  roundtrips (fun v => Some (enc_le n v)) (dec_le n) (fun v => 0 <= v < 256 ^ Z.of_nat n).
Proof. exact le_roundtrips. Qed.
Print Assumptions C17_scalar_roundtrips.

(** Non-vacuity: the premises are met by concrete values, and the functions compute. *)
Example C17_example_varint : enc_varint_u 300 = Some [172; 2] /\ dec_varint_u 32 [172; 2; 9] = Some (300, [9]).
Proof. vm_compute. split; reflexivity. Qed.
