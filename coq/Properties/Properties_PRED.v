(** C01 (Edgebreaker attribute layer) — the mesh prediction schemes are lossless.
    This file only restates theorems proved in Proofs/Predict_proofs.v and prints their assumptions.
    Model: Model/Predict.v (the two loops of every scheme, MeshPredictionSchemeData as lists, the parallelogram,
    constrained multi-parallelogram and portable texture-coordinate predictors with int32/int64 arithmetic explicit,
    EncodePredictionData/DecodePredictionData byte layouts) over Model/Wrap.v (C16), Model/BitCoders.v (RAnsBit, C17),
    Model/Varint.v; the corner table is a pair of arbitrary lists (Vertex, Opposite) — Model/CornerTable.v's
    [ct_create] produces them in the correspondence runs.

    None of the round-trip theorems needs a well-formedness hypothesis on the table or the maps: whenever the model
    encoder returns [Some] (no out-of-bounds read, no `return false`), the decoder returns the original.  What IS
    assumed is listed at each theorem; the hypotheses the proofs forced are [mp_guard_ok] and
    [length data <= num_corners] (the decoders' `> num_corners` guards) — see the harness experiment. *)
From Coq Require Import ZArith List Bool Lia.
From Draco Require Import Base.Codec Model.Wrap Model.Octahedron Model.CornerTable Model.SeqAttr Model.BitCoders Model.Predict
  Proofs.Wrap_proofs Proofs.Octahedron_proofs Proofs.Predict_proofs.
Import ListNotations.
Local Open Scope Z_scope.

(** ---- the generic theorem ----
    ANY encoder-side predictor [Pe] (prefix of the ORIGINAL entries, entry id, policy choice |-> prediction, record),
    ANY decoder-side predictor [Pd] (prefix of the DECODED entries, entry id, reader state |-> prediction, state),
    ANY transform with  tdec p (tenc o p) = o  for originals in [D] and predictions in [PD],
    [PD] closed under what [Pe] produces from prefixes in [D],
    [Rep ws st]: reader state [st] holds the records [ws] of the entries still to come, and the decoder-side predictor
    follows the encoder-side one on such a state.
    Then for EVERY policy [choice]: the encoder loop (p = n-1 … 0 over the original data) and the decoder loop
    (p = 0 … n-1 over its own output) meet: the decoder returns exactly the original entries, one correction per
    entry, one record per entry, and all records are consumed. *)
Theorem C01_pred_causal_roundtrip :
  forall (E Pr C A W St : Type) (tenc : E -> Pr -> C) (tdec : Pr -> C -> E)
         (Pe : list E -> nat -> A -> option (Pr * W)) (Pd : list E -> nat -> St -> option (Pr * St))
         (D : E -> Prop) (PD : Pr -> Prop) (Rep : list W -> St -> Prop),
  (forall o p, D o -> PD p -> tdec p (tenc o p) = o) ->
  (forall pre i a p w, length pre = i -> Forall D pre -> Pe pre i a = Some (p, w) -> PD p) ->
  (forall pre i a p w ws st, length pre = i -> Forall D pre -> Pe pre i a = Some (p, w) -> Rep (w :: ws) st ->
     exists st', Pd pre i st = Some (p, st') /\ Rep ws st') ->
  forall (data : list E) (choice : nat -> A) (corr : list C) (ws : list W) (st0 : St),
  Forall D data -> causal_enc tenc Pe data choice = Some (corr, ws) -> Rep ws st0 ->
  length corr = length data /\ length ws = length data /\
  exists st', causal_dec tdec Pd corr st0 = Some (data, st') /\ Rep [] st'.
Proof. exact @causal_prediction_roundtrip. Qed.
Print Assumptions C01_pred_causal_roundtrip.

(** ---- MeshPredictionSchemeParallelogram{Encoder,Decoder} with the wrap transform ----
    every table, every pair of maps, every number of components, every list of int32 rows: if the encoder succeeds
    (in-bounds reads, value range accepted by the wrap transform) then the decoder, given the corrections and the
    prediction data followed by anything, returns the original rows and leaves exactly what followed. *)
Theorem C01_pred_parallelogram_roundtrip : forall md nc (data : list row) corr bs rest,
  Forall (fun r => length r = nc /\ Forall i32 r) data ->
  par_encode md nc data = Some (corr, bs) ->
  par_decode md nc corr (bs ++ rest) = Some (data, rest) /\ length corr = length data.
Proof. exact par_roundtrip. Qed.
Print Assumptions C01_pred_parallelogram_roundtrip.

(** ---- MeshPredictionSchemeConstrainedMultiParallelogram{Encoder,Decoder} ----
    for EVERY crease-flag assignment [crease entry parallelogram] (the encoder's optimisation is one of them),
    bitstream >= 2.2, a corner count that fits uint32, and the decoder's guard num_flags <= num_corners satisfied by
    what the encoder pushed ([mp_guard_ok], forced by the proof): corrections + prediction data (four varint-counted
    RAnsBit blocks regrouped into decoder order, then the wrap bounds) decode to the original rows. *)
Theorem C01_pred_constrained_multi_roundtrip : forall ver md nc (data : list row) crease corr bs rest,
  514 <= ver -> md_num_corners md + 3 < 2 ^ 32 ->
  Forall (fun r => length r = nc /\ Forall i32 r) data ->
  mp_guard_ok md nc data crease ->
  mp_encode md nc data crease = Some (corr, bs) ->
  mp_decode ver md nc corr (bs ++ rest) = Some (data, rest) /\ length corr = length data.
Proof. exact mp_roundtrip. Qed.
Print Assumptions C01_pred_constrained_multi_roundtrip.

(** EncodePredictionData's loop (j = size - m; j >= 0; j -= m) turns the encoder's vector (entries descending)
    into the order the decoder consumes (entries ascending), for every context. *)
Theorem C01_pred_constrained_multi_regroup : forall ws k,
  mp_regroup (S k) (mp_enc_vector ws k) = concat (filter (fun w => (length w =? S k)%nat) ws).
Proof. exact mp_regroup_vector. Qed.
Print Assumptions C01_pred_constrained_multi_regroup.

(** ---- MeshPredictionSchemeTexCoordsPortable{Encoder,Decoder} ----
    for EVERY orientation assignment [ori entry], every list of per-entry positions, bitstream >= 2.2, at most
    num_corners entries (the decoder's guard num_orientations <= num_corners, forced by the proof) and a corner
    count below 2^31 - 3: corrections + prediction data decode to the original rows.  (64-bit arithmetic modelled
    with wrap-around; where the C++ type is signed this is the compiled behaviour, not the standard's.) *)
Theorem C01_pred_tex_coords_portable_roundtrip : forall ver md pos (data : list row) ori corr bs rest,
  514 <= ver -> md_num_corners md < 2 ^ 31 - 3 ->
  Z.of_nat (length data) <= md_num_corners md ->
  Forall (fun r => length r = 2%nat /\ Forall i32 r) data ->
  tc_encode md pos data ori = Some (corr, bs) ->
  tc_decode ver md pos corr (bs ++ rest) = Some (data, rest) /\ length corr = length data.
Proof. exact tc_roundtrip. Qed.
Print Assumptions C01_pred_tex_coords_portable_roundtrip.

(** ---- the same generic theorem for an encoder loop that runs p = 0 … n-1 (the geometric normal encoder) ---- *)
Theorem C01_pred_causal_roundtrip_ascending :
  forall (E Pr C A W St : Type) (tenc : E -> Pr -> C) (tdec : Pr -> C -> E)
         (Pe : list E -> nat -> A -> option (Pr * W)) (Pd : list E -> nat -> St -> option (Pr * St))
         (D : E -> Prop) (PD : Pr -> Prop) (Rep : list W -> St -> Prop),
  (forall o p, D o -> PD p -> tdec p (tenc o p) = o) ->
  (forall pre i a p w, length pre = i -> Forall D pre -> Pe pre i a = Some (p, w) -> PD p) ->
  (forall pre i a p w ws st, length pre = i -> Forall D pre -> Pe pre i a = Some (p, w) -> Rep (w :: ws) st ->
     exists st', Pd pre i st = Some (p, st') /\ Rep ws st') ->
  forall (data : list E) (choice : nat -> A) (corr : list C) (ws : list W) (st0 : St),
  Forall D data -> causal_enc_up tenc Pe data choice = Some (corr, ws) -> Rep ws st0 ->
  length corr = length data /\ length ws = length data /\
  exists st', causal_dec tdec Pd corr st0 = Some (data, st') /\ Rep [] st'.
Proof. exact @causal_prediction_roundtrip_up. Qed.
Print Assumptions C01_pred_causal_roundtrip_ascending.

(** ---- MeshPredictionSchemeGeometricNormal{Encoder,Decoder} with the canonicalized octahedral transform ----
    for EVERY flip assignment [flip entry] (the encoder picks the sign whose correction is smaller), every table, maps
    and positions, every quantization q the tool box accepts (2..30), canonical octahedral coordinates as originals
    (what the C16 transform theorem asks; the encoder's portable normals are canonical), bitstream >= 2.2: the
    corrections and the prediction data (max_quantized_value, center_value, RAnsBit block of the flip bits) decode to
    the originals.  Uses C16 (oct_canon_roundtrip_machine), the exactness of CanonicalizeIntegerVector's int32 stores
    (its result has L1 norm center_value) and ModMax;MakePositive = identity on corrections. *)
Theorem C01_pred_geometric_normal_roundtrip : forall ver q md pos (data : list pt) flip corr bs rest,
  514 <= ver -> Z.of_nat (length data) + 3 < 2 ^ 32 ->
  (forall b, set_quantization_bits q = Some b -> Forall (canonical (ob_center b)) data) ->
  gn_encode q md pos data flip = Some (corr, bs) ->
  gn_decode ver md pos corr (bs ++ rest) = Some (data, rest) /\ length corr = length data.
Proof. exact gn_roundtrip. Qed.
Print Assumptions C01_pred_geometric_normal_roundtrip.

(** CanonicalizeIntegerVector returns a vector of L1 norm center_value for EVERY integer input (so its int32 stores
    are exact and the octahedral coordinates derived from it, for either sign, lie in the square). *)
Theorem C01_pred_canonicalize_integer_vector_norm : forall b v, 0 <= ob_center b ->
  let '(x, y, z) := canonicalize_int_vec b v in Z.abs x + Z.abs y + Z.abs z = ob_center b.
Proof. exact canonicalize_int_vec_bounds. Qed.
Print Assumptions C01_pred_canonicalize_integer_vector_norm.

(** ---- the well-formedness the C++ assumes ([md_wf]: array bounds and non-negative entry ids only; nothing about the
    order of the entries) is enough for the parallelogram encoder to read in bounds: it can only fail on a value
    range too wide for the wrap transform. ---- *)
Theorem C01_pred_parallelogram_encoder_in_bounds : forall md nc (data : list row),
  md_wf md (length data) -> data <> [] -> nc <> 0%nat ->
  wrap_bounds_enc (concat data) <> None -> par_encode md nc data <> None.
Proof. exact par_encode_total. Qed.
Print Assumptions C01_pred_parallelogram_encoder_in_bounds.

(** ---- a defect the model exposes: the ENCODER of the constrained multi-parallelogram scheme accumulates the
    parallelogram predictions with int32 `+=` (the decoder uses AddAsUnsigned for the same sum).  With 29-bit values
    (inside the 30-bit quantization limit) on an octahedron, the four predictions of the last vertex are 3 * 2^28 each
    and the sum of three of them exceeds int32: signed overflow, undefined behaviour (reproduced on the library with
    UBSan: mesh_prediction_scheme_constrained_multi_parallelogram_encoder.h:314).  The compiled code wraps, and the
    round-trip theorem above is about the wrapping model. *)
Definition oct_md : mesh_data :=
  match ct_create [(0, 1, 2); (0, 2, 3); (0, 3, 4); (0, 4, 1); (5, 2, 1); (5, 3, 2); (5, 4, 3); (5, 1, 4)]%nat with
  | Some t => mk_md (ct_c2v t) (ct_opp t) [0; 1; 2; 5; 8; 12]%nat [0; 1; 2; 3; 4; 5]
  | None => mk_md [] [] [] []
  end.
Definition oct_data : list row := [[-268435456]; [268435456]; [268435456]; [268435456]; [268435456]; [268435451]].
Theorem C01_pred_constrained_multi_encoder_no_overflow_refuted :
  exists md (data : list row) i preds,
    Forall (Forall (fun v => - 2 ^ 29 <= v < 2 ^ 29)) data /\
    mp_parallelograms md (firstn i data) i = Some preds /\ mp_sum_no_ub 1 preds = false.
Proof. exact mp_encoder_overflow_witness. Qed.
Print Assumptions C01_pred_constrained_multi_encoder_no_overflow_refuted.

(** ---- signed 64-bit arithmetic of the portable tex-coords predictor (after fix 4112635) ----
    [tc_no_ub enc …]: every SIGNED int64 operation of ComputePredictedValue's oriented branch (differences, Dot /
    SquaredNorm products and partial sums, std::abs, the three guarded products, the projection quotient, x_pos,
    the residual and its SquaredNorm, cx_uv * norm; with enc = true also the ENCODER's signed x_uv +/- cx_uv and the
    divisions) stays in int64, evaluated in exact arithmetic in program order up to the first `return false`.

    Parametric bound: positions in [0,P), uvs in [0,U), 48 P^2 and U 2^32 within int64 (decoder and encoder common
    part; needs IntSqrt < 2^32, proved), and for the encoder's extra additions 6 U P^2 + U 2^32 within int64. *)
Theorem C01_pred_tex_coords_no_signed_overflow : forall P U,
  0 < P -> 0 < U -> 48 * (P * P) <= i64_max -> U * 2 ^ 32 <= i64_max ->
  forall enc n_uv p_uv tip nxt prv,
  (enc = true -> 6 * (U * (P * P)) + U * 2 ^ 32 <= i64_max) ->
  pos_ok P tip -> pos_ok P nxt -> pos_ok P prv -> uv_ok U n_uv -> uv_ok U p_uv ->
  tc_no_ub enc n_uv p_uv tip nxt prv = true.
Proof. exact tc_no_ub_bounded. Qed.
Print Assumptions C01_pred_tex_coords_no_signed_overflow.

(** the DECODER at the factory's limit (21-bit positions, 21-bit uvs): no signed overflow *)
Theorem C01_pred_tex_coords_decoder_no_overflow_21 : forall n_uv p_uv tip nxt prv,
  pos_ok (2 ^ 21) tip -> pos_ok (2 ^ 21) nxt -> pos_ok (2 ^ 21) prv -> uv_ok (2 ^ 21) n_uv -> uv_ok (2 ^ 21) p_uv ->
  tc_no_ub false n_uv p_uv tip nxt prv = true.
Proof. exact tc_no_ub_decoder_21. Qed.
Print Assumptions C01_pred_tex_coords_decoder_no_overflow_21.

(** the ENCODER up to 20-bit positions and 20-bit uvs (2 * pos_bits + uv_bits <= 60): no signed overflow *)
Theorem C01_pred_tex_coords_encoder_no_overflow_20 : forall n_uv p_uv tip nxt prv,
  pos_ok (2 ^ 20) tip -> pos_ok (2 ^ 20) nxt -> pos_ok (2 ^ 20) prv -> uv_ok (2 ^ 20) n_uv -> uv_ok (2 ^ 20) p_uv ->
  tc_no_ub true n_uv p_uv tip nxt prv = true.
Proof. exact tc_no_ub_encoder_20. Qed.
Print Assumptions C01_pred_tex_coords_encoder_no_overflow_20.

(** …but NOT at the limit the encoder factory allows (pos_quant <= 21, 2 * pos_quant + uv_quant < 64): with 21-bit
    positions and 21-bit uvs the ENCODER's signed x_uv + cx_uv overflows (the decoder, which does it in uint64_t,
    does not).  Reproduced on the library under UBSan (vector_d.h:132 operator+ from
    mesh_prediction_scheme_tex_coords_portable_predictor.h, one triangle, positions (0,0,0) (2097151,0,0)
    (2097151,4,0), uvs (1048576,0) (2097151,2097151)). *)
Theorem C01_pred_tex_coords_encoder_no_overflow_21_refuted :
  exists n_uv p_uv tip nxt prv,
    pos_ok (2 ^ 21) tip /\ pos_ok (2 ^ 21) nxt /\ pos_ok (2 ^ 21) prv /\ uv_ok (2 ^ 21) n_uv /\ uv_ok (2 ^ 21) p_uv /\
    tc_no_ub true n_uv p_uv tip nxt prv = false /\ tc_no_ub false n_uv p_uv tip nxt prv = true.
Proof. exact tc_no_ub_encoder_21_witness. Qed.
Print Assumptions C01_pred_tex_coords_encoder_no_overflow_21_refuted.

(** outside every quantization (raw int32 positions): Dot / SquaredNorm of a position difference >= 2^31.5 overflows,
    encoder and decoder alike (UBSan: vector_d.h:253) *)
Theorem C01_pred_tex_coords_no_overflow_int32_refuted :
  tc_no_ub false (0, 0) (1, 0) (5, 4, 0) (-2147483648, 0, 0) (2147483647, 0, 0) = false.
Proof. exact tc_no_ub_int32_witness. Qed.
Print Assumptions C01_pred_tex_coords_no_overflow_int32_refuted.

(** IntSqrt (core/math_utils.h) returns a value below 2^32 for every uint64 argument (no fuel exhaustion needed:
    if the model returns a value at all it is in range; used for cx_uv * norm above). *)
Theorem C01_pred_int_sqrt_below_2_32 : forall n r, 0 <= n < 2 ^ 64 -> int_sqrt n = Some r -> 0 <= r < 2 ^ 32.
Proof. exact int_sqrt_bound. Qed.
Print Assumptions C01_pred_int_sqrt_below_2_32.

(** ---- non-vacuity: a strip of three triangles, five entries in traversal order ---- *)
Definition ex_md : mesh_data :=
  match ct_create [(0, 1, 2); (2, 1, 3); (2, 3, 4)]%nat with
  | Some t => mk_md (ct_c2v t) (ct_opp t) [0; 1; 2; 5; 8]%nat [0; 1; 2; 3; 4]
  | None => mk_md [] [] [] []
  end.
Definition ex_data : list row := [[10; 100]; [20; 110]; [13; 95]; [24; 104]; [15; 90]].
Definition ex_pos : list v3 := [(0, 0, 0); (10, 0, 0); (0, 10, 0); (10, 10, 1); (0, 20, 3)].

(** entries 3 and 4 are predicted by their parallelograms: 24 - (20 + 13 - 10) = 1, 104 - (110 + 95 - 100) = -1 *)
Example C01_pred_example_parallelogram :
  par_encode ex_md 2 ex_data =
    Some ([[0; -11]; [10; 10]; [-7; -15]; [1; -1]; [-2; 1]], [10; 0; 0; 0; 110; 0; 0; 0]) /\
  par_decode ex_md 2 [[0; -11]; [10; 10]; [-7; -15]; [1; -1]; [-2; 1]] ([10; 0; 0; 0; 110; 0; 0; 0] ++ [7; 7]) =
    Some (ex_data, [7; 7]).
Proof. vm_compute. split; reflexivity. Qed.

(** both extreme policies (use every parallelogram / none): different corrections and flag bytes, same round trip;
    the guard hypothesis holds (two flags in context 0, nine corners) *)
Example C01_pred_example_constrained_multi :
  mp_records ex_md 2 ex_data (fun _ _ => false) = Some [[]; []; []; [false]; [false]] /\
  (forall enc, mp_encode ex_md 2 ex_data (fun _ _ => false) = Some enc ->
     fst enc = [[0; -11]; [10; 10]; [-7; -15]; [1; -1]; [-2; 1]] /\
     mp_decode 514 ex_md 2 (fst enc) (snd enc ++ [7; 7]) = Some (ex_data, [7; 7])) /\
  (forall enc, mp_encode ex_md 2 ex_data (fun _ _ => true) = Some enc ->
     fst enc = [[0; -11]; [10; 10]; [-7; -15]; [11; 9]; [-9; -14]] /\
     mp_decode 514 ex_md 2 (fst enc) (snd enc ++ [7; 7]) = Some (ex_data, [7; 7])) /\
  mp_encode ex_md 2 ex_data (fun _ _ => false) <> None /\ mp_encode ex_md 2 ex_data (fun _ _ => true) <> None.
Proof.
  split; [vm_compute; reflexivity|].
  split; [intros enc H; vm_compute in H; injection H as <-; vm_compute; split; reflexivity|].
  split; [intros enc H; vm_compute in H; injection H as <-; vm_compute; split; reflexivity|].
  split; vm_compute; discriminate.
Qed.

(** the two orientations give different predictions for entries 2..4; an alternating assignment round-trips *)
Example C01_pred_example_tex_coords :
  (forall enc, tc_encode ex_md ex_pos ex_data (fun _ => true) = Some enc ->
     fst enc = [[0; -11]; [10; 10]; [-7; 5]; [0; 5]; [-7; 7]]) /\
  (forall enc, tc_encode ex_md ex_pos ex_data (fun _ => false) = Some enc ->
     fst enc = [[0; -11]; [10; 10]; [3; -15]; [14; -2]; [5; -16]]) /\
  (forall enc, tc_encode ex_md ex_pos ex_data Nat.even = Some enc ->
     tc_decode 514 ex_md ex_pos (fst enc) (snd enc ++ [7; 7]) = Some (ex_data, [7; 7])) /\
  tc_encode ex_md ex_pos ex_data Nat.even <> None.
Proof.
  split; [intros enc H; vm_compute in H; injection H as <-; reflexivity|].
  split; [intros enc H; vm_compute in H; injection H as <-; reflexivity|].
  split; [intros enc H; vm_compute in H; injection H as <-; vm_compute; reflexivity|].
  vm_compute; discriminate.
Qed.

(** the example satisfies the well-formedness, and the in-bounds theorem applies *)
Example C01_pred_example_wf : md_wf ex_md 5 /\ par_encode ex_md 2 ex_data <> None.
Proof.
  split.
  - unfold md_wf. vm_compute md_c2v. vm_compute md_opp. vm_compute md_v2d. vm_compute md_d2c.
    split; [reflexivity|]. split; [exists 3%nat; reflexivity|].
    split; [repeat constructor|]. split; [|split; [repeat constructor|reflexivity]].
    repeat (constructor; [eexists; split; [reflexivity|lia]|]). constructor.
  - vm_compute. discriminate.
Qed.

(** geometric normal, q = 4 (center 7): the strip with its positions, canonical originals, alternating flips *)
Definition gn_data : list pt := [(7, 7); (3, 9); (14, 14); (9, 14); (5, 2)].
Example C01_pred_example_geometric_normal :
  Forall (canonical 7) gn_data /\
  gn_normal ex_md ex_pos 5 = Some (-20, -40, 200) /\
  gn_encode 4 ex_md ex_pos gn_data (fun _ => false) =
    Some ([(7, 0); (5, 11); (0, 7); (14, 3); (11, 14)], [15; 0; 0; 0; 7; 0; 0; 0; 255; 2; 85; 64]) /\
  (forall enc, gn_encode 4 ex_md ex_pos gn_data Nat.even = Some enc ->
     fst enc = [(7, 0); (5, 11); (14, 8); (14, 3); (1, 3)] /\
     gn_decode 514 ex_md ex_pos (fst enc) (snd enc ++ [7; 7]) = Some (gn_data, [7; 7])) /\
  gn_encode 4 ex_md ex_pos gn_data Nat.even <> None.
Proof.
  split; [repeat (constructor; [split; [unfold in_square; cbn; lia|vm_compute; reflexivity]|]); constructor|].
  split; [vm_compute; reflexivity|]. split; [vm_compute; reflexivity|].
  split; [intros enc H; vm_compute in H; injection H as <-; vm_compute; split; reflexivity|].
  vm_compute; discriminate.
Qed.

(** why the ORDER canonicalize -> negate -> convert matters: a "curtain" normal (z = 0, x and y not 0) whose
    canonicalisation leaves a rounding residue in z; negating first gives different octahedral coordinates *)
Example C01_pred_example_flip_order :
  let b := obox_of_center 7 in
  canonicalize_int_vec b (8, -21, 0) = (1, -5, 1) /\
  int_vec_to_oct b (v3_neg (canonicalize_int_vec b (8, -21, 0))) = (13, 5) /\
  int_vec_to_oct b (canonicalize_int_vec b (v3_neg (8, -21, 0))) = (13, 9).
Proof. vm_compute. repeat split; reflexivity. Qed.

(** no-overflow predicate on the example triangle (0,0,0) (10,0,0) (0,10,0): satisfied, and the trace is not empty *)
Example C01_pred_example_tc_no_ub :
  tc_no_ub true (10, 100) (20, 110) (0, 10, 0) (0, 0, 0) (10, 0, 0) = true /\
  length (tc_signed_trace true (10, 100) (20, 110) (0, 10, 0) (0, 0, 0) (10, 0, 0)) = 58%nat /\
  int_sqrt 1000000 = Some 1000 /\ int_sqrt 18446744073709551615 = Some 4294967295.
Proof. vm_compute. repeat split; reflexivity. Qed.
