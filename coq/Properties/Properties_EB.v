(** EB — the Edgebreaker connectivity decoder state machine (groundwork for C03 "an accepted stream decodes to a valid
    mesh", C02 "decoding never hangs / never goes out of bounds", C01).
    Model: Model/Edgebreaker.v (MeshEdgebreakerDecoderImpl::DecodeConnectivity(int) = [eb_core], with the guards of its caller =
    [eb_full]); tied to the real decoder by harness/h_eb.cc (exact equality of the final tables on valid and hostile scripts).
    This file only restates theorems of Proofs/Edgebreaker_proofs.v.

    STATUS (all proved, closed under the global context, for ALL symbol lists / split events / start-face bits / counts)
      C02_eb_terminates     the whole run (S-case SwingLeft loop, start faces, VertexCornersIterator walks of the compaction) never
                            exhausts its fuel; C02_eb_no_oob: never indexes out of range
      C03_eb_accept_valid   the table RETURNED by an accepted run: ids < returned count, Opposite involutive between different faces,
                            vertex_corners_ consistent, (position-only) every vertex below the count non-isolated
      C03_eb_faces_valid    position-only streams: every face of the decoded Mesh refers to three point ids < num_points
      C03_eb_fan_invariant, guard lemmas, C03_eb_degenerate_faces_refuted (which degeneracy is still accepted)
      C03_eb_start_faces_share_edges   interior start faces are glued to matching edges (guard of /repo a3a73f7; the former
                            C03_eb_opposite_edges_refuted witness is now rejected by model and decoder)
      C03_eb_faces_valid_attributes   the same with attribute connectivity data, for arbitrary attribute corner tables
    NOT proved: OOB-freedom / termination of the deduplication walks of AssignPointsToCorners (tied + searched);
    MeshAttributeCornerTable (RecomputeVertices) is not modelled. *)
From Coq Require Import ZArith List Bool.
From Draco Require Import Model.Edgebreaker Proofs.Edgebreaker_proofs Proofs.Edgebreaker_fan_proofs Proofs.Edgebreaker_oob_proofs Proofs.Edgebreaker_compact_proofs
  Proofs.Edgebreaker_boundary_proofs.
Import ListNotations.
Local Open Scope Z_scope.

(** ** C02: termination.  No loop of DecodeConnectivity() runs away: the S-case loop
    `while (corner_n != kInvalid) { ...; corner_n = SwingLeft(corner_n); if (corner_n == first_corner) return -1; }`
    (fuel = number of corners + 1), the start-face phase, the `while (LeftMostCorner(src_vert) == kInvalid)` search and the
    VertexCornersIterator walk of the compaction (left traversal, then right traversal with NO end test in the C++: it cannot
    cycle because SwingRight is injective and the left traversal died) - for every input, through the header guards. *)
Theorem C02_eb_terminates : forall nev nf nsplit rm syms events bits,
  eb_full nev nf nsplit rm syms events bits <> Fuel.
Proof. exact eb_full_terminates. Qed.
Print Assumptions C02_eb_terminates.

Theorem C02_eb_core_terminates : forall nf maxv rm syms events bits, 0 <= nf -> 0 <= maxv -> Z.of_nat (length syms) <= nf ->
  eb_core (3 * nf) maxv nf rm syms events bits <> Fuel.
Proof. exact eb_core_terminates. Qed.
Print Assumptions C02_eb_core_terminates.

(** The state machine is only ever entered with num_symbols <= num_faces and a vertex budget in [0, 2^32) (the guards of
    DecodeConnectivity()); no hypothesis on the declared counts. *)
Theorem C02_eb_caller_guard : forall nev nf nsplit rm syms events bits, 0 <= nf ->
  eb_full nev nf nsplit rm syms events bits = Reject \/
  (Z.of_nat (length syms) <= nf /\ 0 <= (nev + nsplit) mod 4294967296 /\
   eb_full nev nf nsplit rm syms events bits = eb_core (3 * nf) ((nev + nsplit) mod 4294967296) nf rm syms events bits).
Proof. exact eb_full_guard. Qed.
Print Assumptions C02_eb_caller_guard.

(** ** C03: the table returned by an accepted run (n = returned vertex count = the Mesh's num_points when there is no
    attribute connectivity data; rm = remove_invalid_vertices = attribute_data_.empty()):
      - every corner of every face maps to a vertex id in [0, n), and that vertex is not isolated;
      - Opposite(c) is -1 or a corner of a DIFFERENT face with Opposite(Opposite(c)) = c (no fixed point);
      - vertex_corners_[v], when not -1, is a valid corner that maps to v (left-most corner is a corner of that vertex);
      - n <= num_vertices() of the table; if rm, every vertex below n is non-isolated (the compaction removed all isolated ones).
    What is NOT guaranteed is stated by the _refuted theorem below. *)
Theorem C03_eb_accept_valid : forall nev nf nsplit rm syms events bits n sf,
  eb_full nev nf nsplit rm syms events bits = Ok (n, sf) ->
  0 <= n <= nv sf /\
  (forall c, 0 <= c < 3 * nf -> 0 <= c2v sf c < n /\ vc sf (c2v sf c) <> -1) /\
  (forall c, 0 <= c < 3 * nf -> copp sf c = -1 \/
       (0 <= copp sf c < 3 * nf /\ copp sf (copp sf c) = c /\ copp sf c <> c /\ copp sf c / 3 <> c / 3)) /\
  (forall v, 0 <= v < nv sf -> vc sf v <> -1 -> 0 <= vc sf v < 3 * nf /\ c2v sf (vc sf v) = v) /\
  (rm = true -> forall v, 0 <= v < n -> vc sf v <> -1).
Proof. exact eb_full_accept. Qed.
Print Assumptions C03_eb_accept_valid.

(** ** C03, the property's wording for Edgebreaker connectivity without attribute connectivity data: DecodeConnectivity()
    = header guards + state machine + AssignPointsToCorners (position-only path: face f = the three vertex ids of its corners,
    num_points = returned count).  On accept every face index is a point of the mesh; the run neither indexes out of range nor
    hangs.
    The path with attribute connectivity data is C03_eb_faces_valid_attributes below. *)
Theorem C03_eb_faces_valid : forall nev nf nsplit syms events bits np fl,
  eb_decode_mesh nev nf nsplit syms events bits = Ok (np, fl) ->
  Forall (fun i => 0 <= i < np) fl.
Proof. exact eb_decode_mesh_faces_valid. Qed.
Print Assumptions C03_eb_faces_valid.

(** The same with attribute connectivity data: header guards + state machine (remove_invalid_vertices = false) +
    AssignPointsToCorners' DEDUPLICATION path (model: [assign_points_seam], tied to the real decoder on hostile scripts with
    hostile seam bits, harness kind apc).  The attribute corner tables are arbitrary (IsCornerOnSeam, Vertex) function pairs:
    whatever they are, on accept every face index is a point.  (The argument: corner_to_point_map holds 0 or an id below the
    number of points created so far, and at least one point is created because corner 0 maps to a non-isolated vertex.)
    Proved only in this direction: that the deduplication walks themselves never index out of range and terminate is tied by
    correspondence and searched under ASan with a watchdog, not proved; MeshAttributeCornerTable::RecomputeVertices is not
    modelled (its output is the input here). *)
Theorem C03_eb_faces_valid_attributes : forall nev nf nsplit syms events bits atts np fl,
  eb_decode_mesh_att nev nf nsplit syms events bits atts = Ok (np, fl) ->
  Forall (fun i => 0 <= i < np) fl.
Proof. exact eb_decode_mesh_att_faces_valid. Qed.
Print Assumptions C03_eb_faces_valid_attributes.

Theorem C02_eb_decode_mesh_total : forall nev nf nsplit syms events bits,
  eb_decode_mesh nev nf nsplit syms events bits <> OOB /\ eb_decode_mesh nev nf nsplit syms events bits <> Fuel.
Proof. exact eb_decode_mesh_total. Qed.
Print Assumptions C02_eb_decode_mesh_total.

(** Interior start faces.  Until /repo a3a73f7 an interior start face was glued to the three boundary edges that LeftMostCorner
    leads to without comparing vertices (symbols E,L + one interior start face were accepted with Opposite(6) = 3 although the two
    corners did not face the same edge; through the public decoder: a point on no face mapped to kInvalidAttributeValueIndex,
    defect D24 found by the HOSTILE search).  The decoder now tests Vertex(Previous(corner_a)) == vert_p; the model has the test, the
    former witness is rejected ([eb_misglued_start_face_rejected] below) and the positive statement holds:
    [EE s m] = every pair of opposite corners among the first m corners faces the same edge with reversed orientation
               (Vertex(Next(c)) = Vertex(Previous(Opposite(c))) and Vertex(Previous(c)) = Vertex(Next(Opposite(c)))).
    Whatever table the symbol phase built and whatever the start-face bits are, the start-face phase preserves EE: every interior
    start face is glued to matching edges.  (That the SYMBOL phase establishes EE is checked on the implementation by the harness -
    kind core/full, '!' ACCEPT-INVALID "opposite corners ... do not share their edge" - not proved.) *)
Theorem C03_eb_start_faces_share_edges : forall nf maxv rm syms events bits s1 s2, 0 <= nf -> 0 <= maxv -> Z.of_nat (length syms) <= nf ->
  sym_loop (3 * nf) maxv rm (Z.of_nat (length syms)) syms 0 (init_st events) = Ok s1 ->
  start_loop (3 * nf) maxv nf bits O (stack s1) s1 = Ok s2 ->
  EE s1 (3 * nfaces s1) -> EE s2 (3 * nfaces s2).
Proof. exact eb_start_faces_share_edges. Qed.
Print Assumptions C03_eb_start_faces_share_edges.

(** Which degeneracies are NOT rejected (reproduced on the real decoder, harness kind core/full, same tables): *)
(** the C case rejects only vertex_x == vert_a_prev / vert_b_next, the S case tests nothing about vertices: symbols E,S
        with the split event (source 1, split 0, right edge) - a well-formed 2.2 stream with 3 vertices, 2 faces, 1 split
        symbol - is accepted by the whole DecodeConnectivity() with the faces (0,0,1) and (0,1,1). *)
Theorem C03_eb_degenerate_faces_refuted :
  exists n s, eb_full 3 2 1 true [7; 1] [(1, 0, 1)] (fun _ => false) = Ok (n, s) /\
    n = 2 /\ faces_of 6 s = [0; 0; 1; 0; 1; 1].
Proof. eexists. eexists. split; [vm_compute; reflexivity|]. split; vm_compute; reflexivity. Qed.
Print Assumptions C03_eb_degenerate_faces_refuted.

(** ** C02: no out-of-range index.
    For every declared vertex / face / split count, every symbol list, every split-event list, every start-face bit
    function: the run of DecodeConnectivity() never indexes corner_to_vertex_map_, opposite_corners_, vertex_corners_ or
    is_vert_hole_ outside its size - in particular `corner_b = Next(LeftMostCorner(v))`, passed unchecked to the decoder's own
    SetOppositeCorners in the C case and in the start-face phase, is never kInvalidCornerIndex there.  No hypothesis. *)
Theorem C02_eb_no_oob : forall nev nf nsplit rm syms events bits,
  eb_full nev nf nsplit rm syms events bits <> OOB.
Proof. exact eb_full_no_oob. Qed.
Print Assumptions C02_eb_no_oob.

(** the same for DecodeConnectivity(int) alone, under its caller's guard num_symbols <= num_faces *)
Theorem C02_eb_core_no_oob : forall nf maxv rm syms events bits, 0 <= nf -> 0 <= maxv -> Z.of_nat (length syms) <= nf ->
  eb_core (3 * nf) maxv nf rm syms events bits <> OOB.
Proof. exact eb_core_no_oob. Qed.
Print Assumptions C02_eb_core_no_oob.

(** ** The loop invariant behind it (C03 groundwork): after ANY accepted prefix of symbols
      - SwingLeft keeps the vertex of a corner;
      - every corner of a created face maps to a non-isolated vertex v and reaches vertex_corners_[v] by iterating
        SwingLeft (the corners of a vertex form one fan whose left end - or, for a closed fan, one of whose corners - is
        the left-most corner);
      - vertex_corners_[v] is -1 or a corner of v;
      - the vertices recorded as invalid are isolated and pairwise distinct.
    (Together with W: Opposite is a fixed-point-free involution between different faces, all indices in range.) *)
Theorem C03_eb_fan_invariant : forall nf maxv rm syms events s, 0 <= nf -> 0 <= maxv -> Z.of_nat (length syms) <= nf ->
  sym_loop (3 * nf) maxv rm (Z.of_nat (length syms)) syms 0 (init_st events) = Ok s ->
  let m := 3 * nfaces s in
  (forall c, 0 <= c < m -> slf s c <> -1 -> c2v s (slf s c) = c2v s c) /\
  (forall c, 0 <= c < m -> vc s (c2v s c) <> -1 /\ exists k : nat, Nat.iter k (slf s) c = vc s (c2v s c)) /\
  (forall v, 0 <= v < nv s -> vc s v <> -1 -> c2v s (vc s v) = v) /\
  Forall (fun v => vc s v = -1) (invalid s) /\ NoDup (invalid s).
Proof. exact eb_fan_invariant. Qed.
Print Assumptions C03_eb_fan_invariant.

(** Guards of the C case that the invariants make redundant (the mutants that drop them are equivalent; the harness
    cannot - and does not - distinguish them): *)
Theorem C03_eb_guard_corner_a_eq_b_redundant : forall NC maxv s f a, W NC maxv f s -> FI f s -> 0 <= a < 3 * f ->
  let x := c2v s (next_c a) in let b := next_c (vc s x) in
  a = b -> x = c2v s (prev_c a).
Proof. exact guard_C_corner_a_eq_b_redundant. Qed.
Print Assumptions C03_eb_guard_corner_a_eq_b_redundant.

Theorem C03_eb_guard_opposite_b_redundant : forall NC maxv s f a, W NC maxv f s -> FI f s -> 0 <= a < 3 * f -> copp s a = -1 ->
  let x := c2v s (next_c a) in let b := next_c (vc s x) in copp s b = -1.
Proof. exact guard_C_opposite_b_redundant. Qed.
Print Assumptions C03_eb_guard_opposite_b_redundant.

(** ** Examples (valid streams produced by the real encoder; expected tables = what the real decoder built) *)
Definition run_faces (NC maxv nf : Z) syms events bits : Z * list Z :=
  match eb_core NC maxv nf true syms events (bits_of_list bits) with
  | Ok (n, s) => (n, faces_of NC s)
  | _ => (-1, [])
  end.

Example eb_tetrahedron : run_faces 12 4 4 [7; 5; 0] [] [true] = (4, [0;1;2; 2;1;3; 1;0;3; 2;3;0]).
Proof. vm_compute. reflexivity. Qed.

Example eb_grid3x3_with_hole :
  run_faces 48 19 16 [7;3;5;7;1;5;3;5;5;3;5;7;1;5;3;1] [(15, 0, 0)] [false] =
  (16, [0;1;2;1;3;2;2;3;4;5;4;7;4;3;7;7;3;8;3;9;8;8;9;10;10;9;11;9;12;11;11;12;13;14;13;15;13;12;15;15;12;6;12;1;6;1;0;6]).
Proof. vm_compute. reflexivity. Qed.

Example eb_torus3x3 :
  run_faces 54 13 18 [7;7;7;1;3;5;1;1;5;0;1;0;5;0;0;0;0] [(15, 9, 1); (16, 6, 1)] [true] =
  (9, [0;3;2;3;4;5;0;5;8;5;4;8;4;2;8;8;2;1;2;3;1;3;5;1;1;5;6;5;0;6;0;2;6;2;4;6;6;4;7;4;3;7;3;0;7;0;8;7;8;1;7;6;7;1]).
Proof. vm_compute. reflexivity. Qed.

Example eb_decode_mesh_tetrahedron :
  eb_decode_mesh 4 4 0 [7; 5; 0] [] (bits_of_list [true]) = Ok (4, [0;1;2; 2;1;3; 1;0;3; 2;3;0]).
Proof. vm_compute. reflexivity. Qed.

(** a hostile script is rejected cleanly: S joining a boundary loop to itself returns to first_corner *)
Example eb_self_join_rejected :
  eb_core 9 9 3 true [7; 3; 1] [(1, 0, 0)] (fun _ => false) = Reject.
Proof. vm_compute. reflexivity. Qed.

(** the former witness of C03_eb_opposite_edges_refuted (symbols E,L + one interior start face on a 4-edge boundary) is rejected
    by the guard Vertex(Previous(corner_a)) == vert_p, in the model as in the decoder (harness: kinds core / full) *)
Example eb_misglued_start_face_rejected :
  eb_core 9 9 3 true [7; 3] [] (fun _ => true) = Reject /\ eb_full 5 4 0 true [7; 3; 3] [] (fun _ => true) = Reject.
Proof. split; vm_compute; reflexivity. Qed.

(** the hypotheses of C03_eb_start_faces_share_edges on the tetrahedron: after the symbols E,R,C every opposite pair shares its
    edge, the interior start face is accepted and the final table still has the property (here: at the glued corner 9) *)
Example eb_start_faces_share_edges_tetrahedron :
  exists s1 s2, sym_loop 12 4 true 3 [7; 5; 0] 0 (init_st []) = Ok s1 /\ start_loop 12 4 4 (fun _ => true) O (stack s1) s1 = Ok s2 /\
    EE s1 (3 * nfaces s1) /\ nfaces s2 = 4 /\ copp s2 9 <> -1 /\
    c2v s2 (next_c 9) = c2v s2 (prev_c (copp s2 9)) /\ c2v s2 (prev_c 9) = c2v s2 (next_c (copp s2 9)).
Proof.
  eexists. eexists. split; [vm_compute; reflexivity|]. split; [vm_compute; reflexivity|]. split.
  - intros x Hx Ho.
    match type of Hx with _ <= _ < ?m => let v := eval vm_compute in m in change m with v in Hx end.
    assert (x = 0 \/ x = 1 \/ x = 2 \/ x = 3 \/ x = 4 \/ x = 5 \/ x = 6 \/ x = 7 \/ x = 8) as Hc by Lia.lia.
    destruct Hc as [-> | [-> | [-> | [-> | [-> | [-> | [-> | [-> | ->]]]]]]]]; vm_compute in Ho |- *; try (split; reflexivity); exfalso; apply Ho; reflexivity.
  - repeat split; vm_compute; try reflexivity. discriminate.
Qed.
