(** C20 — keyframe animations round-trip with frame order preserved.

    A KeyframeAnimation IS a point cloud (frame = point; attribute 0 = timestamps, one float; track k = the attribute
    AddKeyframes returned k for, SetAttribute gives it unique id = its index) coded by the sequential point-cloud codec
    (KeyframeAnimationEncoder/Decoder derive from PointCloudSequentialEncoder/Decoder and add nothing to the stream).
    So C20 is the sequential point-cloud theorem read on animations: same number of frames in the same order, every
    attribute under the same unique id, unquantized tracks and timestamps bit-identical, quantized tracks exactly
    InverseTransform(GeneratePortable(track)) (within half a step by C04). *)
From Draco Require Import Base.Codec Gen.Constants Model.Varint Model.Metadata Model.SeqAttr Model.SeqCodec Model.SeqCodecInst
  Proofs.SeqAttr_proofs Proofs.SeqCodec_proofs Proofs.SeqCodecInst_proofs.
Local Open Scope Z_scope.

(** an animation: frames, timestamps (float bit patterns), tracks (id, components, per-frame rows, coder) *)
Definition track_attribute (uid nc : Z) (kind : att_kind) (rows : list (list Z)) : attribute :=
  {| a_desc := {| ad_type := ATT_GENERIC_; ad_dt := DT_FLOAT32_; ad_nc := nc; ad_norm := false; ad_uid := uid |};
     a_kind := kind; a_rows := rows |}.

Theorem C20_keyframe_roundtrip : forall frames atts bs rest,
  pc_ok_inst frames None atts ->
  i_enc_pc_seq frames None atts = Some bs ->
  exists g, i_dec_pc_seq (fun _ => false) (bs ++ rest) = Some (g, rest) /\
    dp_npoints g = frames /\
    map (fun a => ad_uid (da_desc a)) (dp_atts g) = map (fun a => ad_uid (a_desc a)) atts /\
    Forall2 (fun a d => da_desc d = a_desc a /\
                        match a_kind a with
                        | KGeneric => da_rows d = a_rows a                (* unquantized track / timestamps: bit-exact, frame order kept *)
                        | _ => da_rows d = expected_rows a                 (* quantized: deq(quant(.)) of every frame, frame order kept *)
                        end) atts (dp_atts g).
Proof.
  intros frames atts bs rest Hok He.
  rewrite (seq_pc_roundtrips_inst frames None atts bs rest Hok He).
  eexists. split; [reflexivity|]. cbn [dp_npoints dp_atts]. split; [reflexivity|]. split.
  - rewrite map_map. reflexivity.
  - clear. induction atts as [|a r IH]; cbn [map]; constructor; [|exact IH].
    split; [reflexivity|]. unfold expected_att. cbn [da_rows]. unfold expected_rows.
    destruct (a_kind a); reflexivity.
Qed.
Print Assumptions C20_keyframe_roundtrip.

Example C20_example_animation :
  let ts := [[1065353216]; [1073741824]; [1077936128]] in           (* 1.0, 2.0, 3.0 *)
  let tr := [[0; 1065353216]; [1056964608; 0]; [3212836864; 1073741824]] in
  let atts := [track_attribute 0 1 KGeneric ts; track_attribute 1 2 KGeneric tr] in
  match i_enc_pc_seq 3 None atts with
  | Some bs => match i_dec_pc_seq (fun _ => false) (bs ++ [7]) with
               | Some (g, rest) => rest = [7] /\ dp_npoints g = 3 /\ map da_rows (dp_atts g) = [ts; tr]
               | None => False
               end
  | None => False
  end.
Proof. vm_compute. repeat split; reflexivity. Qed.
