(** C14 — mesh-building and clean-up utilities never change what the mesh describes.
    This file only restates theorems proved in Proofs/ and prints their assumptions.

    Vocabulary (Model/Dedup.v): an attribute = value bytes + point->value map (identity or explicit);
    [att_value a p] = the bytes point p carries; [point_tuple atts p] = the tuple over all attributes;
    [geom g] = the face list as per-corner tuples of value BYTES, in order (what the mesh describes);
    [pkey atts p] = the tuple of value INDICES of p (what DeduplicatePointIds compares);
    [wf_attr]/[wf_geo] = the structural validity the C++ relies on (map entries < #values, face ids < #points).
    All statements are for unbounded inputs (induction), none is a sample. *)
From Coq Require Import List ZArith Bool Arith Permutation.
From Draco Require Import Model.Dedup Model.Cleanup Model.Strips Model.CornerTable Proofs.Dedup_proofs Proofs.Cleanup_proofs
                          Proofs.Strips_proofs Proofs.Strips_ct_proofs.
Import ListNotations.

(* --------------------------------------------------------------- PointAttribute::DeduplicateValues *)
Theorem C14_dedup_values_preserves : forall np a p, wf_attr np a = true -> p < np ->
  att_value (fst (dedup_values a)) p = att_value a p.
Proof. exact dedup_values_preserves. Qed.
Print Assumptions C14_dedup_values_preserves.

(** under the guard the C++ applies (supported data type, 1..4 components) no two value indices hold equal bytes *)
Theorem C14_dedup_values_nodup : forall a, dedup_guard a = true -> NoDup (a_vals (fst (dedup_values a))).
Proof. exact dedup_values_nodup. Qed.
Print Assumptions C14_dedup_values_nodup.

Theorem C14_dedup_values_idempotent : forall a,
  fst (dedup_values (fst (dedup_values a))) = fst (dedup_values a) /\
  (dedup_guard a = true -> snd (dedup_values (fst (dedup_values a))) = snd (dedup_values a)).
Proof. exact dedup_values_idempotent. Qed.
Print Assumptions C14_dedup_values_idempotent.

Theorem C14_dedup_values_keeps_wf : forall np a, wf_attr np a = true -> wf_attr np (fst (dedup_values a)) = true.
Proof. exact dedup_values_wf. Qed.
Print Assumptions C14_dedup_values_keeps_wf.

(** KNOWN DEFECT D14: outside the guard the function is the identity and returns -1 (treated as success by
    PointCloud::DeduplicateAttributeValues); duplicates stay.  Witnesses computed on the model, reproduced on the
    library by the harness ("KNOWN-D14" / "KNOWN dedup-unsupported-data-type" lines). *)
Theorem C14_dedup_values_outside_guard : forall a, dedup_guard a = false -> dedup_values a = (a, (-1)%Z).
Proof. exact dedup_values_guard_false. Qed.
Print Assumptions C14_dedup_values_outside_guard.
Theorem C14_dedup_values_gt4_refuted :
  exists a, a_ncomp a = 5%Z /\ dtype_dedup_supported (a_dtype a) = true /\ wf_attr 2 a = true /\
            dedup_values a = (a, (-1)%Z) /\ ~ NoDup (a_vals a).
Proof. exact dedup_values_gt4_refuted. Qed.
Print Assumptions C14_dedup_values_gt4_refuted.
Theorem C14_dedup_values_64bit_refuted :
  exists a, a_ncomp a = 1%Z /\ a_dtype a = DT_INT64 /\ wf_attr 2 a = true /\
            dedup_values a = (a, (-1)%Z) /\ ~ NoDup (a_vals a).
Proof. exact dedup_values_64bit_refuted. Qed.
Print Assumptions C14_dedup_values_64bit_refuted.

(* ------------------------------------------------------- PointCloud::DeduplicateAttributeValues *)
Theorem C14_dedup_attribute_values_preserves : forall g, wf_geo g = true ->
  geom (fst (dedup_attribute_values g)) = geom g /\ pc_geom (fst (dedup_attribute_values g)) = pc_geom g
  /\ snd (dedup_attribute_values g) = true.
Proof. exact dav_preserves. Qed.
Print Assumptions C14_dedup_attribute_values_preserves.

(* ---------------------------------------------- PointCloud::DeduplicatePointIds (+ Mesh faces) *)
(** faces: same order, same per-corner bytes.  points: [im] maps the old points ONTO the new ones, bytes kept. *)
Theorem C14_dedup_points_preserves : forall g, wf_geo g = true ->
  geom (dedup_point_ids g) = geom g /\
  exists im, length im = g_np g /\
    (forall p, p < g_np g -> nth p im invalid_index < g_np (dedup_point_ids g) /\
       point_tuple (g_atts (dedup_point_ids g)) (nth p im invalid_index) = point_tuple (g_atts g) p) /\
    (forall q, q < g_np (dedup_point_ids g) -> exists p, p < g_np g /\ nth p im invalid_index = q) /\
    g_faces (dedup_point_ids g) = map (remap_face im) (g_faces g).
Proof. exact dedup_points_preserves. Qed.
Print Assumptions C14_dedup_points_preserves.

Theorem C14_dedup_points_nodup : forall g, wf_geo g = true ->
  NoDup (map (pkey (g_atts (dedup_point_ids g))) (seq 0 (g_np (dedup_point_ids g)))).
Proof. exact dedup_points_nodup. Qed.
Print Assumptions C14_dedup_points_nodup.

Theorem C14_dedup_points_idempotent : forall g, wf_geo g = true ->
  dedup_point_ids (dedup_point_ids g) = dedup_point_ids g.
Proof. exact dedup_points_idempotent. Qed.
Print Assumptions C14_dedup_points_idempotent.

Theorem C14_dedup_points_keeps_wf : forall g, wf_geo g = true -> wf_geo (dedup_point_ids g) = true.
Proof. exact dpi_wf. Qed.
Print Assumptions C14_dedup_points_keeps_wf.

(* ------------------------------------------------------------------------------- MeshCleanup *)
Theorem C14_remove_degenerate_spec : forall pa faces,
  remove_degenerate_faces pa faces = filter (fun f => negb (degenerate pa f)) faces.
Proof. exact remove_degenerate_spec. Qed.
Print Assumptions C14_remove_degenerate_spec.

(** exactly what the code does: [rdf_spec] (drop a face whose normal form was seen; kept faces are stored rotated
    to normal form once something was dropped); every kept face is a rotation of the original face at the first
    occurrence; up to rotation the result is the list of first occurrences of the normal forms; no two results
    share a normal form; nothing changes when there is no duplicate. *)
Theorem C14_remove_duplicates_spec : forall faces,
  remove_duplicate_faces faces = rdf_spec [] false faces /\
  Forall2 rot_equiv (rdf_kept [] faces) (remove_duplicate_faces faces) /\
  map normalize_face (remove_duplicate_faces faces) = fst (dd_go face_eqb [] (map normalize_face faces)) /\
  NoDup (map normalize_face (remove_duplicate_faces faces)) /\
  (NoDup (map normalize_face faces) -> remove_duplicate_faces faces = faces).
Proof. exact remove_duplicates_spec. Qed.
Print Assumptions C14_remove_duplicates_spec.

(** meaning of "same normal form" for faces with three different point ids: exactly the rotations; a mirrored
    face is NOT a duplicate (orientation is preserved) *)
Theorem C14_duplicate_iff_rotation : forall f g, distinct_ids f ->
  (normalize_face f = normalize_face g <-> rot_equiv f g).
Proof. exact normalize_eq_iff. Qed.
Print Assumptions C14_duplicate_iff_rotation.
Theorem C14_mirror_not_duplicate : forall a b c, a <> b -> a <> c -> b <> c ->
  normalize_face (a, c, b) <> normalize_face (a, b, c).
Proof. exact mirror_not_duplicate. Qed.
Print Assumptions C14_mirror_not_duplicate.
Theorem C14_rotation_loop_terminates : forall f, norm_fuel 3 f <> None.
Proof. exact norm_fuel_total. Qed.
Print Assumptions C14_rotation_loop_terminates.

(** FINDING: for a face whose smallest point id occurs twice the normal form is not canonical: the rotated copy
    of such a (point-degenerate) face is kept.  Reproduced on the library (2 faces (0,0,1),(0,1,0) stay 2). *)
Theorem C14_remove_duplicates_degenerate_rotation_refuted :
  exists f g, rot_equiv f g /\ remove_duplicate_faces [f; g] = [f; g].
Proof. exact remove_duplicates_degenerate_rotation_refuted. Qed.
Print Assumptions C14_remove_duplicates_degenerate_rotation_refuted.

Theorem C14_remove_unused_preserves : forall g, wf_geo g = true ->
  let g' := remove_unused_attributes g in
  geom g' = geom g /\
  (forall q, q < g_np g' -> In q (face_ids (g_faces g'))) /\
  (forall a', In a' (g_atts g') -> forall j, j < length (a_vals a') -> exists q, q < g_np g' /\ mapped_index a' q = j) /\
  wf_geo g' = true.
Proof. exact remove_unused_preserves. Qed.
Print Assumptions C14_remove_unused_preserves.

Theorem C14_cleanup_spec : forall pi pa o g, wf_geo g = true -> nth_error (g_atts g) pi = Some pa ->
  (o_degenerate o || o_unused o || o_duplicate o || o_manifold o) = true ->
  exists g', cleanup (Some pi) o g = Some g' /\
    geom g' = map (face_geom (g_atts g)) (cleaned_faces pa o (g_faces g)) /\
    wf_geo g' = true /\
    (o_unused o = false -> g' = mkGeo (g_np g) (g_atts g) (cleaned_faces pa o (g_faces g))) /\
    (o_unused o = true ->
       (forall q, q < g_np g' -> In q (face_ids (g_faces g'))) /\
       (forall a', In a' (g_atts g') -> forall j, j < length (a_vals a') ->
          exists q, q < g_np g' /\ mapped_index a' q = j)).
Proof. exact cleanup_spec. Qed.
Print Assumptions C14_cleanup_spec.

(* ----------------------------------------------------------------------------------- builders *)
Theorem C14_builder_preserves_mesh : forall nf ins, inputs_ok (3 * nf) ins ->
  exists g, soup_build nf ins = Some g /\
    geom g = map (fun f => (input_tuple ins (3 * f), input_tuple ins (3 * f + 1), input_tuple ins (3 * f + 2))) (seq 0 nf) /\
    wf_geo g = true /\ NoDup (map (pkey (g_atts g)) (seq 0 (g_np g))).
Proof. exact soup_build_preserves. Qed.
Print Assumptions C14_builder_preserves_mesh.

Theorem C14_builder_preserves_point_cloud : forall np ins, inputs_ok np ins ->
  pc_geom (pc_build np ins false) = map (input_tuple ins) (seq 0 np) /\
  (let g := pc_build np ins true in
   wf_geo g = true /\ NoDup (map (pkey (g_atts g)) (seq 0 (g_np g))) /\
   exists im, length im = np /\
     (forall p, p < np -> nth p im invalid_index < g_np g /\
                          point_tuple (g_atts g) (nth p im invalid_index) = input_tuple ins p) /\
     (forall q, q < g_np g -> exists p, p < np /\ nth p im invalid_index = q)).
Proof. exact pc_build_preserves. Qed.
Print Assumptions C14_builder_preserves_point_cloud.


(* ------------------------------------------------------------------------------ MeshStripifier *)
(** THE STRIP CLAUSE, both output modes, for EVERY mesh (any number of faces, boundaries, seams, degenerate faces,
    several components) — proved on the model Model/Strips.v ([faces] = the mesh's faces in POINT ids, [opp] = the
    corner table's Opposite array):
      decoding the index stream gives a list of triangles that is, face by face and up to a rotation of the three
      corners (orientation kept), a permutation [l] of the mesh's face list.
    - restart mode ([decode_restart]): the stream is split at the restart index, every run is decoded with
      alternating winding (triangle j of a run = (s_j, s_j+1, s_j+2), first two swapped for odd j);
    - degenerate mode ([decode_degenerate]): the whole stream is decoded as ONE strip with alternating winding and
      the triangles with two equal indices are dropped; the mesh's own faces with two equal point ids are dropped on
      the other side as well ([filter tri_nondeg]) — a renderer cannot tell them from the separators.
    The only hypothesis is on [opp]: it is a symmetric pairing of existing corners.  This is clause 1a of C13
    ([C13_opp_symmetric]); [C14_strips_*_on_corner_table] discharge it for the table CornerTable::Create builds from
    the faces written in POSITION value indices (any triangle list with as many faces as the mesh), so that NO
    hypothesis is left.  The driver also evaluates it ([opp_wf_b]) on the table the library built, in every case.
    What the proofs contain (Proofs/Strips_proofs.v): (a) retracing: StoreStrip's walk with the plain Opposite
    re-walks the strip GenerateStripsFromCorner found, backward pass reversed (the seam test is symmetric and
    Opposite is an involution), so every edge it crosses passed the seam test; (b) coverage: the strips partition
    the face set (visited flags), the fuel of the model's loops is never exhausted and StoreStrip never leaves the
    mesh; (c) separators: the restart index cuts runs; the 2 or 3 repeated indices of the degenerate mode create only
    triangles with two equal indices and put the first triangle of the next strip at an even position (parity
    fix-up when an odd number of triangles was emitted).
    Not covered by these theorems: the index type (values are naturals; a restart index equal to a point id, or
    int overflow of num_encoded_faces_ beyond 2^31 faces, is outside the model). *)
Theorem C14_strips_restart_preserve : forall faces opp,
  (forall a b, opposite opp a = Some b -> opposite opp b = Some a /\ b < 3 * length faces) ->
  exists s l, strips_restart faces opp = Some s /\ Permutation l (seq 0 (length faces)) /\
              Forall2 rot_equiv (map (fun f => nth f faces (0, 0, 0)) l) (decode_restart s).
Proof. exact strips_restart_preserve. Qed.
Print Assumptions C14_strips_restart_preserve.

Theorem C14_strips_degenerate_preserve : forall faces opp,
  (forall a b, opposite opp a = Some b -> opposite opp b = Some a /\ b < 3 * length faces) ->
  exists s l, strips_degenerate faces opp = Some s /\ Permutation l (seq 0 (length faces)) /\
              Forall2 rot_equiv (filter tri_nondeg (map (fun f => nth f faces (0, 0, 0)) l)) (decode_degenerate s).
Proof. exact strips_degenerate_preserve. Qed.
Print Assumptions C14_strips_degenerate_preserve.

(** corollary through the point->value maps: the decoded triangles carry the same per-corner attribute BYTES
    ([rot3] = equal up to a rotation of the three corner tuples) *)
Theorem C14_strips_restart_preserve_values : forall faces opp atts, opp_wf faces opp ->
  exists s l, strips_restart faces opp = Some s /\ Permutation l (seq 0 (length faces)) /\
    Forall2 rot3 (map (fun f => face_geom atts (nth f faces (0, 0, 0))) l) (map (face_geom atts) (decode_restart s)).
Proof. exact strips_restart_preserve_values. Qed.
Print Assumptions C14_strips_restart_preserve_values.
Theorem C14_strips_degenerate_preserve_values : forall faces opp atts, opp_wf faces opp ->
  exists s l, strips_degenerate faces opp = Some s /\ Permutation l (seq 0 (length faces)) /\
    Forall2 rot3 (map (face_geom atts) (filter tri_nondeg (map (fun f => nth f faces (0, 0, 0)) l)))
                 (map (face_geom atts) (decode_degenerate s)).
Proof. exact strips_degenerate_preserve_values. Qed.
Print Assumptions C14_strips_degenerate_preserve_values.

(** the hypothesis is what C13 proves of CornerTable::Create's table, for ANY triangle list: no hypothesis left *)
Theorem C14_strips_restart_on_corner_table : forall faces posfaces, length faces = length posfaces ->
  exists t s l, ct_create posfaces = Some t /\ strips_restart faces (ct_opp t) = Some s /\
    Permutation l (seq 0 (length faces)) /\
    Forall2 rot_equiv (map (fun f => nth f faces (0, 0, 0)) l) (decode_restart s).
Proof. exact strips_restart_on_corner_table. Qed.
Print Assumptions C14_strips_restart_on_corner_table.
Theorem C14_strips_degenerate_on_corner_table : forall faces posfaces, length faces = length posfaces ->
  exists t s l, ct_create posfaces = Some t /\ strips_degenerate faces (ct_opp t) = Some s /\
    Permutation l (seq 0 (length faces)) /\
    Forall2 rot_equiv (filter tri_nondeg (map (fun f => nth f faces (0, 0, 0)) l)) (decode_degenerate s).
Proof. exact strips_degenerate_on_corner_table. Qed.
Print Assumptions C14_strips_degenerate_on_corner_table.

(** the hypothesis as the computable test the driver runs on the library's table *)
Theorem C14_strips_wf_checkable : forall faces opp, opp_wf_b faces opp = true -> opp_wf faces opp.
Proof. exact opp_wf_b_sound. Qed.
Print Assumptions C14_strips_wf_checkable.

(** the decomposition.  Coverage: the main loop stores strips [css] (each = the corners StoreStrip reaches, start
    corner first, every crossed edge passing the seam test: [good]) whose faces are a permutation of ALL faces. *)
Theorem C14_strips_coverage : forall faces opp, opp_wf faces opp ->
  exists css, gen_plan faces opp (length faces) 0 (repeat false (length faces)) = Some (plan_of css) /\
              Forall (good faces opp) css /\ Permutation (map c_face (concat css)) (seq 0 (length faces)).
Proof. exact plan_exists. Qed.
Print Assumptions C14_strips_coverage.
(** Retracing: what GenerateStripsFromCorner returns (strip_faces_, start corner) is re-walked by StoreStrip. *)
Theorem C14_strips_retrace : forall faces opp, opp_wf faces opp -> forall vis ci,
  length vis = length faces -> unvis vis (c_face ci) ->
  exists sf start, strip_from_corner faces opp vis ci = Some (sf, start) /\
    exists cs, W faces opp 0 start cs /\ Permutation (map c_face (start :: cs)) sf /\ NoDup sf /\
               Forall (unvis vis) sf /\ In (c_face ci) sf.
Proof. exact strip_from_corner_spec. Qed.
Print Assumptions C14_strips_retrace.
(** One strip: the indices StoreStrip emits along such a walk decode to the faces walked, in order, up to rotation. *)
Theorem C14_strips_single_strip : forall faces opp cs, good faces opp cs ->
  Forall2 rot_equiv (map (tri_of_corner faces) cs) (decode_strip 0 (emit_cs faces 0 cs)).
Proof. exact strip_decode. Qed.
Print Assumptions C14_strips_single_strip.
(** Separators of the degenerate mode: after an emitted prefix ending in x, L (L = last_encoded_point_), the
    indices L, S (and S once more) followed by a strip starting with S add only triangles with two equal indices and
    shift the position by 4 (resp. 5). *)
Theorem C14_strips_degenerate_separators : forall j x L S T,
  filter tri_nondeg (decode_strip j (x :: L :: L :: S :: S :: T)) = filter tri_nondeg (decode_strip (4 + j) (S :: T)) /\
  filter tri_nondeg (decode_strip j (x :: L :: L :: S :: S :: S :: T)) = filter tri_nondeg (decode_strip (5 + j) (S :: T)).
Proof. intros. split; [apply nondeg_sep2 | apply nondeg_sep3]. Qed.
Print Assumptions C14_strips_degenerate_separators.

(* ------------------------------------------------------------------------------ non-vacuity *)
(** float32 values 0.0, -0.0, 0.0, NaN(7fc00000), NaN(7fc00000): -0.0 is NOT merged with 0.0 (bytewise
    comparison), equal-bit NaNs are merged; identity map becomes the explicit map [0;1;0;2;2]. *)
Definition ex_attr : attr :=
  mkAttr 1 DT_FLOAT32 [[0;0;0;0]; [0;0;0;128]; [0;0;0;0]; [0;0;192;127]; [0;0;192;127]]%Z true [].
Example C14_example_dedup_values :
  wf_attr 5 ex_attr = true /\ dedup_guard ex_attr = true /\
  dedup_values ex_attr = (mkAttr 1 DT_FLOAT32 [[0;0;0;0]; [0;0;0;128]; [0;0;192;127]]%Z false [0;1;0;2;2], 3%Z).
Proof. vm_compute. repeat split; reflexivity. Qed.

(** a two-triangle soup sharing an edge, two attributes: 6 corners collapse to 4 points, faces keep their bytes *)
Definition ex_ins : list att_input :=
  [mkIn 1 DT_UINT8 [[10];[20];[30];[30];[20];[40]]%Z; mkIn 2 DT_UINT16 [[1;0;1;0];[1;0;1;0];[2;0;2;0];[2;0;2;0];[1;0;1;0];[2;0;2;0]]%Z].
Example C14_example_builder :
  match soup_build 2 ex_ins with
  | Some g => g_np g = 4 /\ g_faces g = [(0,1,2);(2,1,3)] /\ wf_geo g = true /\ geom g = geom (soup_start 2 ex_ins)
  | None => False
  end.
Proof. vm_compute. repeat split; reflexivity. Qed.

(** cleanup: degenerate face (two corners with the same POSITION value), a rotated duplicate, a mirrored face
    (kept), an isolated point and an unused value; the last face is stored rotated to its normal form (0,2,3) *)
Definition ex_mesh : geo :=
  mkGeo 6 [mkAttr 1 DT_UINT8 [[1];[2];[3];[4];[9]]%Z false [0;1;2;3;1;4]]
        [(0,1,2); (1,2,0); (0,2,1); (0,1,4); (2,3,0)].
Example C14_example_cleanup :
  wf_geo ex_mesh = true /\
  cleanup (Some 0) (mkOpts true true true false) ex_mesh =
    Some (mkGeo 4 [mkAttr 1 DT_UINT8 [[1];[2];[3];[4]]%Z false [0;1;2;3]] [(0,1,2); (0,2,1); (0,2,3)]).
Proof. vm_compute. split; reflexivity. Qed.

(** a fan of three triangles as one strip; two disconnected components in both output modes (None = restart);
    the hypothesis of the strip theorems holds of these tables ([opp_wf_b]); a 5-face mesh with an attribute seam
    (faces 0-2 and 3-4 use different point ids along the shared edge) and a face with two equal point ids: 3 strips,
    the second and third separators need the parity fix-up (three repeated indices), both streams decode to the faces *)
Example C14_example_strips :
  let fs := [(0,1,2);(2,1,3);(2,3,4)] in
  let op := [Some 5; None; None; None; Some 8; Some 0; None; None; Some 4] in
  opp_wf_b fs op = true /\
  strips_restart fs op = Some [Some 0; Some 1; Some 2; Some 3; Some 4] /\ strips_walks_ok fs op = true /\
  option_map decode_restart (strips_restart fs op) = Some [(0,1,2);(2,1,3);(2,3,4)] /\
  option_map (decode_strip 0) (strips_degenerate fs op) = Some fs /\
  strips_restart [(0,1,2);(5,6,7);(2,1,3)] [Some 8; None; None; None; None; None; None; None; Some 0]
    = Some [Some 0; Some 1; Some 2; Some 3; None; Some 5; Some 6; Some 7] /\
  strips_degenerate [(0,1,2);(5,6,7);(2,1,3)] [Some 8; None; None; None; None; None; None; None; Some 0]
    = Some [0; 1; 2; 3; 3; 5; 5; 6; 7].
Proof. vm_compute. repeat split; reflexivity. Qed.
Example C14_example_strips_seam_and_parity :
  let fs := [(0,1,2);(2,1,3);(5,6,4);(7,7,8);(9,10,11)] in
  let op := [Some 5; None; None; None; Some 8; Some 0; None; None; Some 4; None; None; None; None; None; None] in
  opp_wf_b fs op = true /\
  strips_restart fs op = Some [Some 0; Some 1; Some 2; Some 3; None; Some 5; Some 6; Some 4; None; Some 7; Some 7; Some 8; None; Some 9; Some 10; Some 11] /\
  strips_degenerate fs op = Some [0; 1; 2; 3;  3; 5;  5; 6; 4;  4; 7; 7;  7; 7; 8;  8; 9; 9;  9; 10; 11] /\
  option_map decode_restart (strips_restart fs op) = Some [(0,1,2);(2,1,3);(5,6,4);(7,7,8);(9,10,11)] /\
  option_map decode_degenerate (strips_degenerate fs op) = Some [(0,1,2);(2,1,3);(5,6,4);(9,10,11)].
Proof. vm_compute. repeat split; reflexivity. Qed.
