(** C14 — mesh-building and clean-up utilities never change what the mesh describes.
    This file only restates theorems proved in Proofs/ and prints their assumptions.

    Vocabulary (Model/Dedup.v): an attribute = value bytes + point->value map (identity or explicit);
    [att_value a p] = the bytes point p carries; [point_tuple atts p] = the tuple over all attributes;
    [geom g] = the face list as per-corner tuples of value BYTES, in order (what the mesh describes);
    [pkey atts p] = the tuple of value INDICES of p (what DeduplicatePointIds compares);
    [wf_attr]/[wf_geo] = the structural validity the C++ relies on (map entries < #values, face ids < #points).
    All statements are for unbounded inputs (induction), none is a sample. *)
From Coq Require Import List ZArith Bool Arith.
From Draco Require Import Model.Dedup Model.Cleanup Model.Strips Proofs.Dedup_proofs Proofs.Cleanup_proofs Proofs.Strips_proofs.
Import ListNotations.

(* --------------------------------------------------------------- PointAttribute::DeduplicateValues *)
Theorem C14_dedup_values_preserves : forall np a p, wf_attr np a = true -> p < np ->
  att_value (fst (dedup_values a)) p = att_value a p.
Proof. exact dedup_values_preserves. Qed.
Print Assumptions C14_dedup_values_preserves.

(** under the guard the C++ applies (supported data type, 1..4 components) no two value indices hold equal bytes *)
Theorem C14_dedup_values_nodup : forall a, dedup_guard a = true -> NoDup (a_vals (fst (dedup_values a))).
Proof. exact dedup_values_nodup. Qed.
Print Assumptions C14_dedup_values_nodup.

Theorem C14_dedup_values_idempotent : forall a,
  fst (dedup_values (fst (dedup_values a))) = fst (dedup_values a) /\
  (dedup_guard a = true -> snd (dedup_values (fst (dedup_values a))) = snd (dedup_values a)).
Proof. exact dedup_values_idempotent. Qed.
Print Assumptions C14_dedup_values_idempotent.

Theorem C14_dedup_values_keeps_wf : forall np a, wf_attr np a = true -> wf_attr np (fst (dedup_values a)) = true.
Proof. exact dedup_values_wf. Qed.
Print Assumptions C14_dedup_values_keeps_wf.

(** KNOWN DEFECT D14: outside the guard the function is the identity and returns -1 (treated as success by
    PointCloud::DeduplicateAttributeValues); duplicates stay.  Witnesses computed on the model, reproduced on the
    library by the harness ("KNOWN-D14" / "KNOWN dedup-unsupported-data-type" lines). *)
Theorem C14_dedup_values_outside_guard : forall a, dedup_guard a = false -> dedup_values a = (a, (-1)%Z).
Proof. exact dedup_values_guard_false. Qed.
Print Assumptions C14_dedup_values_outside_guard.
Theorem C14_dedup_values_gt4_refuted :
  exists a, a_ncomp a = 5%Z /\ dtype_dedup_supported (a_dtype a) = true /\ wf_attr 2 a = true /\
            dedup_values a = (a, (-1)%Z) /\ ~ NoDup (a_vals a).
Proof. exact dedup_values_gt4_refuted. Qed.
Print Assumptions C14_dedup_values_gt4_refuted.
Theorem C14_dedup_values_64bit_refuted :
  exists a, a_ncomp a = 1%Z /\ a_dtype a = DT_INT64 /\ wf_attr 2 a = true /\
            dedup_values a = (a, (-1)%Z) /\ ~ NoDup (a_vals a).
Proof. exact dedup_values_64bit_refuted. Qed.
Print Assumptions C14_dedup_values_64bit_refuted.

(* ------------------------------------------------------- PointCloud::DeduplicateAttributeValues *)
Theorem C14_dedup_attribute_values_preserves : forall g, wf_geo g = true ->
  geom (fst (dedup_attribute_values g)) = geom g /\ pc_geom (fst (dedup_attribute_values g)) = pc_geom g
  /\ snd (dedup_attribute_values g) = true.
Proof. exact dav_preserves. Qed.
Print Assumptions C14_dedup_attribute_values_preserves.

(* ---------------------------------------------- PointCloud::DeduplicatePointIds (+ Mesh faces) *)
(** faces: same order, same per-corner bytes.  points: [im] maps the old points ONTO the new ones, bytes kept. *)
Theorem C14_dedup_points_preserves : forall g, wf_geo g = true ->
  geom (dedup_point_ids g) = geom g /\
  exists im, length im = g_np g /\
    (forall p, p < g_np g -> nth p im invalid_index < g_np (dedup_point_ids g) /\
       point_tuple (g_atts (dedup_point_ids g)) (nth p im invalid_index) = point_tuple (g_atts g) p) /\
    (forall q, q < g_np (dedup_point_ids g) -> exists p, p < g_np g /\ nth p im invalid_index = q) /\
    g_faces (dedup_point_ids g) = map (remap_face im) (g_faces g).
Proof. exact dedup_points_preserves. Qed.
Print Assumptions C14_dedup_points_preserves.

Theorem C14_dedup_points_nodup : forall g, wf_geo g = true ->
  NoDup (map (pkey (g_atts (dedup_point_ids g))) (seq 0 (g_np (dedup_point_ids g)))).
Proof. exact dedup_points_nodup. Qed.
Print Assumptions C14_dedup_points_nodup.

Theorem C14_dedup_points_idempotent : forall g, wf_geo g = true ->
  dedup_point_ids (dedup_point_ids g) = dedup_point_ids g.
Proof. exact dedup_points_idempotent. Qed.
Print Assumptions C14_dedup_points_idempotent.

Theorem C14_dedup_points_keeps_wf : forall g, wf_geo g = true -> wf_geo (dedup_point_ids g) = true.
Proof. exact dpi_wf. Qed.
Print Assumptions C14_dedup_points_keeps_wf.

(* ------------------------------------------------------------------------------- MeshCleanup *)
Theorem C14_remove_degenerate_spec : forall pa faces,
  remove_degenerate_faces pa faces = filter (fun f => negb (degenerate pa f)) faces.
Proof. exact remove_degenerate_spec. Qed.
Print Assumptions C14_remove_degenerate_spec.

(** exactly what the code does: [rdf_spec] (drop a face whose normal form was seen; kept faces are stored rotated
    to normal form once something was dropped); every kept face is a rotation of the original face at the first
    occurrence; up to rotation the result is the list of first occurrences of the normal forms; no two results
    share a normal form; nothing changes when there is no duplicate. *)
Theorem C14_remove_duplicates_spec : forall faces,
  remove_duplicate_faces faces = rdf_spec [] false faces /\
  Forall2 rot_equiv (rdf_kept [] faces) (remove_duplicate_faces faces) /\
  map normalize_face (remove_duplicate_faces faces) = fst (dd_go face_eqb [] (map normalize_face faces)) /\
  NoDup (map normalize_face (remove_duplicate_faces faces)) /\
  (NoDup (map normalize_face faces) -> remove_duplicate_faces faces = faces).
Proof. exact remove_duplicates_spec. Qed.
Print Assumptions C14_remove_duplicates_spec.

(** meaning of "same normal form" for faces with three different point ids: exactly the rotations; a mirrored
    face is NOT a duplicate (orientation is preserved) *)
Theorem C14_duplicate_iff_rotation : forall f g, distinct_ids f ->
  (normalize_face f = normalize_face g <-> rot_equiv f g).
Proof. exact normalize_eq_iff. Qed.
Print Assumptions C14_duplicate_iff_rotation.
Theorem C14_mirror_not_duplicate : forall a b c, a <> b -> a <> c -> b <> c ->
  normalize_face (a, c, b) <> normalize_face (a, b, c).
Proof. exact mirror_not_duplicate. Qed.
Print Assumptions C14_mirror_not_duplicate.
Theorem C14_rotation_loop_terminates : forall f, norm_fuel 3 f <> None.
Proof. exact norm_fuel_total. Qed.
Print Assumptions C14_rotation_loop_terminates.

(** FINDING: for a face whose smallest point id occurs twice the normal form is not canonical: the rotated copy
    of such a (point-degenerate) face is kept.  Reproduced on the library (2 faces (0,0,1),(0,1,0) stay 2). *)
Theorem C14_remove_duplicates_degenerate_rotation_refuted :
  exists f g, rot_equiv f g /\ remove_duplicate_faces [f; g] = [f; g].
Proof. exact remove_duplicates_degenerate_rotation_refuted. Qed.
Print Assumptions C14_remove_duplicates_degenerate_rotation_refuted.

Theorem C14_remove_unused_preserves : forall g, wf_geo g = true ->
  let g' := remove_unused_attributes g in
  geom g' = geom g /\
  (forall q, q < g_np g' -> In q (face_ids (g_faces g'))) /\
  (forall a', In a' (g_atts g') -> forall j, j < length (a_vals a') -> exists q, q < g_np g' /\ mapped_index a' q = j) /\
  wf_geo g' = true.
Proof. exact remove_unused_preserves. Qed.
Print Assumptions C14_remove_unused_preserves.

Theorem C14_cleanup_spec : forall pi pa o g, wf_geo g = true -> nth_error (g_atts g) pi = Some pa ->
  (o_degenerate o || o_unused o || o_duplicate o || o_manifold o) = true ->
  exists g', cleanup (Some pi) o g = Some g' /\
    geom g' = map (face_geom (g_atts g)) (cleaned_faces pa o (g_faces g)) /\
    wf_geo g' = true /\
    (o_unused o = false -> g' = mkGeo (g_np g) (g_atts g) (cleaned_faces pa o (g_faces g))) /\
    (o_unused o = true ->
       (forall q, q < g_np g' -> In q (face_ids (g_faces g'))) /\
       (forall a', In a' (g_atts g') -> forall j, j < length (a_vals a') ->
          exists q, q < g_np g' /\ mapped_index a' q = j)).
Proof. exact cleanup_spec. Qed.
Print Assumptions C14_cleanup_spec.

(* ----------------------------------------------------------------------------------- builders *)
Theorem C14_builder_preserves_mesh : forall nf ins, inputs_ok (3 * nf) ins ->
  exists g, soup_build nf ins = Some g /\
    geom g = map (fun f => (input_tuple ins (3 * f), input_tuple ins (3 * f + 1), input_tuple ins (3 * f + 2))) (seq 0 nf) /\
    wf_geo g = true /\ NoDup (map (pkey (g_atts g)) (seq 0 (g_np g))).
Proof. exact soup_build_preserves. Qed.
Print Assumptions C14_builder_preserves_mesh.

Theorem C14_builder_preserves_point_cloud : forall np ins, inputs_ok np ins ->
  pc_geom (pc_build np ins false) = map (input_tuple ins) (seq 0 np) /\
  (let g := pc_build np ins true in
   wf_geo g = true /\ NoDup (map (pkey (g_atts g)) (seq 0 (g_np g))) /\
   exists im, length im = np /\
     (forall p, p < np -> nth p im invalid_index < g_np g /\
                          point_tuple (g_atts g) (nth p im invalid_index) = input_tuple ins p) /\
     (forall q, q < g_np g -> exists p, p < np /\ nth p im invalid_index = q)).
Proof. exact pc_build_preserves. Qed.
Print Assumptions C14_builder_preserves_point_cloud.


(* ------------------------------------------------------------------------ MeshStripifier (partial) *)
(** FULL STATEMENT WANTED (not proved): for every mesh, decoding the index stream of
    GenerateTriangleStripsWithPrimitiveRestart / …WithDegenerateTriangles with alternating winding yields a
    permutation of the (non-degenerate) input faces, orientation preserved.
    PROVED PART: one stored strip decodes to exactly the faces StoreStrip walks over, in order, each up to a
    rotation of its corners, PROVIDED every edge the walk crosses passes GetOppositeCorner's seam test
    ([walk_ok]).  MISSING: (a) that StoreStrip's walk retraces the strip found by GenerateStripsFromCorner (so
    that [walk_ok] always holds and the faces walked are strip_faces_), (b) coverage: every face is put into
    exactly one strip, (c) the separators of the two output modes add only degenerate triangles and keep the
    winding parity.  (a)-(c) are covered by the exact correspondence of the model with the library, by the
    driver evaluating [strips_walks_ok] on every generated case, and by the harness decoding the library's
    output ("strips" search). *)
Theorem C14_strips_store_sound_partial : forall faces opp n ci vis last out vis' last' cs,
  walk_ok faces opp n 0 ci = true ->
  store_strip faces opp n 0 ci vis last = Some (out, vis', last') -> walk opp n 0 ci = Some cs ->
  Forall2 rot_equiv (map (tri_of_corner faces) cs) (decode_strip 0 out) /\ length cs = n.
Proof. exact store_strip_sound. Qed.
Print Assumptions C14_strips_store_sound_partial.

(* ------------------------------------------------------------------------------ non-vacuity *)
(** float32 values 0.0, -0.0, 0.0, NaN(7fc00000), NaN(7fc00000): -0.0 is NOT merged with 0.0 (bytewise
    comparison), equal-bit NaNs are merged; identity map becomes the explicit map [0;1;0;2;2]. *)
Definition ex_attr : attr :=
  mkAttr 1 DT_FLOAT32 [[0;0;0;0]; [0;0;0;128]; [0;0;0;0]; [0;0;192;127]; [0;0;192;127]]%Z true [].
Example C14_example_dedup_values :
  wf_attr 5 ex_attr = true /\ dedup_guard ex_attr = true /\
  dedup_values ex_attr = (mkAttr 1 DT_FLOAT32 [[0;0;0;0]; [0;0;0;128]; [0;0;192;127]]%Z false [0;1;0;2;2], 3%Z).
Proof. vm_compute. repeat split; reflexivity. Qed.

(** a two-triangle soup sharing an edge, two attributes: 6 corners collapse to 4 points, faces keep their bytes *)
Definition ex_ins : list att_input :=
  [mkIn 1 DT_UINT8 [[10];[20];[30];[30];[20];[40]]%Z; mkIn 2 DT_UINT16 [[1;0;1;0];[1;0;1;0];[2;0;2;0];[2;0;2;0];[1;0;1;0];[2;0;2;0]]%Z].
Example C14_example_builder :
  match soup_build 2 ex_ins with
  | Some g => g_np g = 4 /\ g_faces g = [(0,1,2);(2,1,3)] /\ wf_geo g = true /\ geom g = geom (soup_start 2 ex_ins)
  | None => False
  end.
Proof. vm_compute. repeat split; reflexivity. Qed.

(** cleanup: degenerate face (two corners with the same POSITION value), a rotated duplicate, a mirrored face
    (kept), an isolated point and an unused value; the last face is stored rotated to its normal form (0,2,3) *)
Definition ex_mesh : geo :=
  mkGeo 6 [mkAttr 1 DT_UINT8 [[1];[2];[3];[4];[9]]%Z false [0;1;2;3;1;4]]
        [(0,1,2); (1,2,0); (0,2,1); (0,1,4); (2,3,0)].
Example C14_example_cleanup :
  wf_geo ex_mesh = true /\
  cleanup (Some 0) (mkOpts true true true false) ex_mesh =
    Some (mkGeo 4 [mkAttr 1 DT_UINT8 [[1];[2];[3];[4]]%Z false [0;1;2;3]] [(0,1,2); (0,2,1); (0,2,3)]).
Proof. vm_compute. split; reflexivity. Qed.

(** a fan of three triangles as one strip; two disconnected components in both output modes (None = restart) *)
Example C14_example_strips :
  let fs := [(0,1,2);(2,1,3);(2,3,4)] in
  let op := [Some 5; None; None; None; Some 8; Some 0; None; None; Some 4] in
  strips_restart fs op = Some [Some 0; Some 1; Some 2; Some 3; Some 4] /\ strips_walks_ok fs op = true /\
  option_map (decode_strip 0) (strips_degenerate fs op) = Some fs /\
  strips_restart [(0,1,2);(5,6,7);(2,1,3)] [Some 8; None; None; None; None; None; None; None; Some 0]
    = Some [Some 0; Some 1; Some 2; Some 3; None; Some 5; Some 6; Some 7] /\
  strips_degenerate [(0,1,2);(5,6,7);(2,1,3)] [Some 8; None; None; None; None; None; None; None; Some 0]
    = Some [0; 1; 2; 3; 3; 5; 5; 6; 7].
Proof. vm_compute. repeat split; reflexivity. Qed.
