(** C01 for POINT_CLOUD_KD_TREE_ENCODING (and the kd-tree half of C12 / C10).
    This file only restates theorems proved in Proofs/KdTree_proofs.v (tree coder) and Proofs/KdTreeCodec_proofs.v
    (attribute layer, whole stream, skipped transforms) and prints their assumptions.
      [kd_enc_pc] / [kd_dec_pc_stream]  Encoder with POINT_CLOUD_KD_TREE_ENCODING / Decoder::DecodePointCloudFromBuffer on a
                                    kd-tree stream of bitstream 2.3 without metadata.

    The theorems are about the models of Model/KdTree.v:
      [kd_encode_points_with part]  DynamicIntegerPointsKdTreeEncoder<level>::EncodePoints as the recursion the explicit
                                    stack performs, generic in the std::partition implementation [part];
      [kd_encode_points]            the same with libstdc++'s algorithm (the one tied byte-exactly by ./check KD);
      [kd_decode_points]            DynamicIntegerPointsKdTreeDecoder<level>::DecodePoints, THE EXPLICIT-STACK LOOP as written
                                    (status stack, base_stack_/levels_stack_ slots, p_, num_decoded_points_).
    The bit coders are the C17 models; the only facts used about them are the C17 round-trip theorems. *)
From Coq Require Import Permutation.
From Draco Require Import Base.Codec Gen.Constants Model.Varint Model.BitCoders Model.SeqAttr Model.SeqCodec Model.KdTree
  Model.Quantize Base.Float32 Proofs.FoldedCoder_proofs Proofs.C17_final_proofs Proofs.KdTree_proofs Proofs.KdTreeCodec_proofs.
Local Open Scope Z_scope.

(** The modelled std::partition (libstdc++ __partition for bidirectional iterators) meets the contract of
    std::partition and never runs out of fuel. *)
Theorem C01_kd_std_partition_contract : forall (f : point -> bool) m,
  exists a b, std_partition f m = Some (a, b) /\
    Permutation m (a ++ b) /\ Forall (fun x => f x = true) a /\ Forall (fun x => f x = false) b.
Proof.
  intros f m. destruct (std_partition_total f m) as ([a b] & H). exists a, b. split; [exact H|].
  exact (std_partition_spec f m a b H).
Qed.
Print Assumptions C01_kd_std_partition_contract.

(** kd_points_roundtrip_perm, for EVERY partition implementation meeting std::partition's contract, every
    compression level 0..6, every dimension >= 1 (at most 16 at level 6, where the axis is written in 4 bits:
    KdTreeAttributesEncoder lowers the level to 5 above 15 components), every bit length 0..32 and every list of
    points with coordinates below 2^bit_length:
    the decoder accepts the encoder's stream followed by anything, leaves exactly what followed, and emits a
    PERMUTATION of the input points; more precisely it emits them in the order in which the encoder closed their
    boxes (second component of [enc_tree]): upper half before lower half at every split, array order inside a box of
    one or two points.
    Premises forced by the proof: [ops_small] - each of the four bit sequences handed to the bit coders is shorter than
    2^32 - 3 bits (the premise of the C17 theorems; the C++ sizes are uint32); the number of points fits the uint32
    header field and does not exceed the decoder's oit_max_points. *)
Theorem C01_kd_points_roundtrip_perm_any_partition : forall part level dim bl pts bs rest maxpts,
  part_ok part -> 0 <= level <= 6 -> (1 <= dim)%nat -> (level = 6 -> (dim <= 16)%nat) -> 0 <= bl <= 32 ->
  points_ok dim bl pts -> Z.of_nat (length pts) <= maxpts -> Z.of_nat (length pts) < 2 ^ 32 ->
  (forall o ord, enc_tree (level_sel level) dim bl part pts = Some (o, ord) -> ops_small o) ->
  kd_encode_points_with part level dim bl pts = Some bs ->
  exists out, kd_decode_points 515 level dim maxpts (bs ++ rest) = Some (out, rest) /\ Permutation out pts /\
    (pts <> [] -> exists o, enc_tree (level_sel level) dim bl part pts = Some (o, out)).
Proof. exact kd_points_roundtrip_with. Qed.
Print Assumptions C01_kd_points_roundtrip_perm_any_partition.

(** The instance tied to the library byte for byte. *)
Theorem C01_kd_points_roundtrip_perm : forall level dim bl pts bs rest maxpts,
  0 <= level <= 6 -> (1 <= dim)%nat -> (level = 6 -> (dim <= 16)%nat) -> 0 <= bl <= 32 ->
  points_ok dim bl pts -> Z.of_nat (length pts) <= maxpts -> Z.of_nat (length pts) < 2 ^ 32 ->
  (forall o ord, enc_tree (level_sel level) dim bl (@std_partition point) pts = Some (o, ord) -> ops_small o) ->
  kd_encode_points level dim bl pts = Some bs ->
  exists out, kd_decode_points 515 level dim maxpts (bs ++ rest) = Some (out, rest) /\ Permutation out pts.
Proof.
  intros level dim bl pts bs rest maxpts H1 H2 H3 H4 H5 H6 H7 H8 H9.
  destruct (kd_points_roundtrip_with (@std_partition point) level dim bl pts bs rest maxpts
              (fun f l a b => std_partition_spec f l a b) H1 H2 H3 H4 H5 H6 H7 H8 H9) as (out & A & B & _).
  exists out. split; assumption.
Qed.
Print Assumptions C01_kd_points_roundtrip_perm.

(** kd_order_function.  The decoder's output order is NOT a function of the multiset of points: a box with two
    points writes them in array order, so the order of the input (and what std::partition did to it) shows.
    What it is a function of is stated above (the encoder's box-closing order).  Witness: two points, level 0. *)
Theorem C01_kd_order_depends_on_input_order_refuted :
  exists p q b1 b2, Permutation p q /\
    kd_encode_points 0 1 2 p = Some b1 /\ kd_encode_points 0 1 2 q = Some b2 /\
    kd_decode_points 515 0 1 2 b1 = Some (p, []) /\ kd_decode_points 515 0 1 2 b2 = Some (q, []) /\ p <> q /\ b1 <> b2.
Proof.
  exists [[1]; [2]], [[2]; [1]]. eexists. eexists.
  split; [apply perm_swap|]. split; [vm_compute; reflexivity|]. split; [vm_compute; reflexivity|].
  split; [vm_compute; reflexivity|]. split; [vm_compute; reflexivity|]. split; discriminate.
Qed.
Print Assumptions C01_kd_order_depends_on_input_order_refuted.


(** ** Attribute layer (KdTreeAttributesEncoder / Decoder) and whole streams.
    [kd_att_ok np a]: the input attribute is [np] rows of [num_components] bit patterns of its data type (and an explicit
    quantization origin has one entry per component).  Everything else is what the encoder itself enforces: a supported data
    type, quantization bits for floats, no signed component spanning 2^31 or more (fix e50b8ba) - all contained in
    "the encoder returned Some".  [kd_streams_small]: the premise of the C17 theorems (each of the four bit sequences of
    the tree shorter than 2^32 - 3 bits). *)

(** kd_pc_roundtrips - the end-to-end statement for the kd-tree method.  The decoder accepts the encoder's stream followed
    by anything, leaves exactly what followed, reports the same number of points and the same descriptors (type, data type,
    components, normalized flag, unique id), and there is ONE list [J], a permutation of the point indices 0..np-1, such
    that row x of EVERY decoded attribute is row J[x] of the expected attribute ([dec_of J]): the original bit patterns for
    integer attributes, bits_of_f32 (kd_inverse_transform p (generate_portable p rows)) = deq(quant(x)) for float
    attributes (C01_kd_decoded_rows_int / _float spell [dec_of] out). *)
Theorem C01_kd_pc_roundtrips : forall speed np atts bs rest,
  atts <> [] -> 0 <= np < 2 ^ 31 -> Z.of_nat (length atts) < 2 ^ 32 ->
  Forall (kd_att_ok (Z.to_nat np)) atts -> kd_streams_small (@std_partition point) speed (Z.to_nat np) atts ->
  kd_enc_pc speed np atts = Some bs ->
  exists cols J, omap kd_portable atts = Some cols /\ Permutation (seq 0 (Z.to_nat np)) J /\
    kd_dec_pc_stream (fun _ => false) (bs ++ rest) =
      KOk ({| kp_npoints := np; kp_atts := map (dec_of J) atts; kp_points := [map (zrow cols) J] |}, rest).
Proof. exact kd_pc_roundtrips_std. Qed.
Print Assumptions C01_kd_pc_roundtrips.

(** the same for every std::partition implementation meeting the contract *)
Theorem C01_kd_pc_roundtrips_any_partition : forall part speed np atts bs rest,
  part_ok part -> atts <> [] -> 0 <= np < 2 ^ 31 -> Z.of_nat (length atts) < 2 ^ 32 ->
  Forall (kd_att_ok (Z.to_nat np)) atts -> kd_streams_small part speed (Z.to_nat np) atts ->
  kd_enc_pc_with part speed np atts = Some bs ->
  exists cols J, omap kd_portable atts = Some cols /\ Permutation (seq 0 (Z.to_nat np)) J /\
    kd_dec_pc_stream (fun _ => false) (bs ++ rest) =
      KOk ({| kp_npoints := np; kp_atts := map (dec_of J) atts; kp_points := [map (zrow cols) J] |}, rest).
Proof. exact kd_pc_roundtrips. Qed.
Print Assumptions C01_kd_pc_roundtrips_any_partition.

(** kd_attributes_roundtrip: the attribute layer alone (KdTreeAttributesEncoder::EncodeAttributes /
    KdTreeAttributesDecoder::DecodeAttributes), same conclusion, also giving the decoded integer point vector. *)
Theorem C01_kd_attributes_roundtrip : forall part speed np atts body rest,
  part_ok part -> atts <> [] -> Forall (kd_att_ok np) atts -> Z.of_nat np < 2 ^ 32 ->
  kd_streams_small part speed np atts ->
  kd_enc_attributes_with part speed np atts = Some body ->
  exists cols J, omap kd_portable atts = Some cols /\ Permutation (seq 0 np) J /\
    kd_dec_attributes (fun _ => false) 515 (Z.of_nat np) (map k_desc atts) (body ++ rest)
      = KOk (map (dec_of J) atts, map (zrow cols) J, rest).
Proof. exact kd_attributes_roundtrip. Qed.
Print Assumptions C01_kd_attributes_roundtrip.

Theorem C01_kd_decoded_rows_int : forall J a, (ad_dt (k_desc a) =? DT_FLOAT32_) = false ->
  kda_desc (dec_of J a) = k_desc a /\ kda_rows (dec_of J a) = map (fun j => nth j (k_rows a) []) J.
Proof. intros J a H. split; [reflexivity|apply dec_of_int; exact H]. Qed.
Print Assumptions C01_kd_decoded_rows_int.
Theorem C01_kd_decoded_rows_float : forall J a p words fr, (ad_dt (k_desc a) =? DT_FLOAT32_) = true ->
  kd_quant_params a = Some p -> generate_portable p (map (map f32_of_bits) (k_rows a)) = Ok words ->
  kd_inverse_transform p words = Ok fr ->
  kda_desc (dec_of J a) = k_desc a /\ kda_rows (dec_of J a) = map (fun j => map bits_of_f32 (nth j fr [])) J.
Proof. intros J a p words fr H1 H2 H3 H4. split; [reflexivity|eapply dec_of_float; eassumption]. Qed.
Print Assumptions C01_kd_decoded_rows_float.

(** Signed attributes with NO premise on the span: whatever signed column the encoder accepts (the guard of fix e50b8ba
    passed) comes back bit-identical through the low-bytes cut and TransformAttributeBackToSignedType. *)
Theorem C01_kd_signed_attribute_roundtrip : forall np a c, kd_att_ok np a -> kd_dt_signed (ad_dt (k_desc a)) = true ->
  kd_portable a = Some c ->
  forall j, (j < np)%nat ->
    kmap2 (kd_back_signed (ad_dt (k_desc a))) (trunc_row (k_desc a) (nth j c [])) (kd_min_signed a) = KOk (nth j (k_rows a) []).
Proof. exact kd_signed_attribute_roundtrip. Qed.
Print Assumptions C01_kd_signed_attribute_roundtrip.

(** a cloud without attributes *)
Theorem C01_kd_pc_roundtrips_no_attributes : forall part speed np bs rest, 0 <= np < 2 ^ 31 ->
  kd_enc_pc_with part speed np [] = Some bs ->
  kd_dec_pc_stream (fun _ => false) (bs ++ rest) = KOk ({| kp_npoints := np; kp_atts := []; kp_points := [] |}, rest).
Proof. exact kd_pc_roundtrips_no_attributes. Qed.
Print Assumptions C01_kd_pc_roundtrips_no_attributes.

(** ** C10 for the kd-tree decoder, on ARBITRARY byte strings (valid or hostile), any set of skipped attribute types.
    A stream that decodes with transforms skipped also decodes normally, consuming the same bytes; the two results have
    the same points and the same attributes except the skipped quantized ones, which are the uint32 portable values with
    the quantization parameters [p] attached (same attribute type, components and unique id - fix 444a932) and whose
    dequantization kd_inverse_transform p is exactly the float attribute of the normal decode. *)
Theorem C10_kd_skip_decodes_normally : forall skip bs pcs rs, kd_dec_pc_stream skip bs = KOk (pcs, rs) ->
  exists pc, kd_dec_pc_stream (fun _ => false) bs = KOk (pc, rs).
Proof. exact kd_skip_decodes_normally. Qed.
Print Assumptions C10_kd_skip_decodes_normally.
Theorem C10_kd_skip_transform_consistent : forall skip bs pcs rs pc r,
  kd_dec_pc_stream skip bs = KOk (pcs, rs) -> kd_dec_pc_stream (fun _ => false) bs = KOk (pc, r) ->
  rs = r /\ kp_npoints pcs = kp_npoints pc /\ kp_points pcs = kp_points pc /\ Forall2 kd_skip_rel (kp_atts pcs) (kp_atts pc).
Proof. exact kd_skip_consistent. Qed.
Print Assumptions C10_kd_skip_transform_consistent.

(** The two intermediate statements the end-to-end theorem is composed of (kept: they hold under weaker premises). *)

(** kd_pc_roundtrips, framing part: on the encoder's stream followed by arbitrary bytes the decoder's header gates pass,
    num_points and the attribute descriptors come back, and the buffer then stands exactly at the attribute
    encoder's output [body] followed by those bytes. *)
Theorem C01_kd_pc_framing_roundtrip_partial : forall part speed np atts bs rest,
  atts <> [] -> 0 <= np < 2 ^ 31 -> Z.of_nat (length atts) < 2 ^ 32 -> Forall (fun a => kd_desc_ok (k_desc a)) atts ->
  kd_enc_pc_with part speed np atts = Some bs ->
  exists body r0 r2,
    kd_enc_attributes_with part speed (Z.to_nat np) atts = Some body /\
    dec_header (bs ++ rest) = inl (Some (kd_header, r0)) /\
    version_ok kd_header = true /\ h_maj kd_header * 256 + h_min kd_header = kDracoPointCloudBitstreamVersion /\
    dec_le 4 r0 = Some (np, 1 :: r2) /\
    dec_desc_blocks 1 r2 = Some ([map k_desc atts], body ++ rest).
Proof. exact kd_pc_framing_roundtrip. Qed.
Print Assumptions C01_kd_pc_framing_roundtrip_partial.

(** kd_attributes_roundtrip, first stage: [body] is the level byte, the tree coder's stream for the point vector
    gathered from ALL attributes (one row per point: the portable columns of every attribute side by side), then the
    quantization parameters and the signed minima; the decoder's tree stage returns a PERMUTATION OF WHOLE ROWS -
    one permutation for all attributes - and stands exactly at the parameter block.
    (The remaining steps - parameter block, minima, cutting the rows back into attributes, undoing the transforms - are
    in C01_kd_attributes_roundtrip above.) *)
Theorem C01_kd_attributes_points_roundtrip_partial : forall part speed np atts body rest cols,
  part_ok part -> omap kd_portable atts = Some cols ->
  let ncomp := fold_left (fun acc a => acc + ad_nc (k_desc a)) atts 0 in
  let dim := Z.to_nat ncomp in
  let level := kd_level speed ncomp in
  let pts := zip_rows cols np in
  (1 <= dim)%nat -> Forall (fun p => length p = dim /\ Forall (fun v => 0 <= v < 2 ^ 32) p) pts ->
  Z.of_nat np < 2 ^ 32 ->
  (forall o ord, enc_tree (level_sel level) dim (kd_bit_length pts) part pts = Some (o, ord) -> ops_small o) ->
  kd_enc_attributes_with part speed np atts = Some body ->
  exists tree qd md out,
    body = [level] ++ tree ++ qd ++ md /\ 0 <= level <= 6 /\
    ocat kd_transform_data atts = Some qd /\ ocat kd_min_data atts = Some md /\
    kd_decode_points 515 level dim (Z.of_nat np) (tree ++ qd ++ md ++ rest) = Some (out, qd ++ md ++ rest) /\
    Permutation out pts.
Proof. exact kd_attributes_points_roundtrip. Qed.
Print Assumptions C01_kd_attributes_points_roundtrip_partial.

(** Signed attributes, one value: (value - min) stored in the low bytes of the type, and min added back by
    TransformAttributeBackToSignedType, is the identity on the bit pattern when the span value - min is below 2^31
    (the decoder rejects anything above INT32_MAX; C01_kd_signed_attribute_roundtrip derives the span bound from the
    encoder's guard). *)
Theorem C01_kd_signed_value_roundtrip_partial : forall dt bits m,
  kd_dt_signed dt = true -> 0 <= bits < 2 ^ (8 * dt_len dt) ->
  let v := kd_signed_value dt bits in
  - 2 ^ 31 <= m <= v -> v - m < 2 ^ 31 -> v - m < 2 ^ (8 * dt_len dt) ->
  kd_back_signed dt (((v - m) mod 2 ^ 32) mod 2 ^ (8 * dt_len dt)) m = KOk bits.
Proof. exact kd_back_signed_roundtrip. Qed.
Print Assumptions C01_kd_signed_value_roundtrip_partial.

(** D9 (fixed in /repo e50b8ba): an int32 attribute {INT32_MIN, 0, INT32_MAX} - a component spanning 2^31 or more - is now
    refused by the encoder (before the fix it was encoded and the decoder rejected the stream). *)
Theorem C01_kd_int32_span_refused_by_encoder : kd_enc_pc 5 3 [d9_att] = None.
Proof. exact d9_refused. Qed.
Print Assumptions C01_kd_int32_span_refused_by_encoder.

(** The premise [level = 6 -> dim <= 16] of the tree theorem cannot be dropped: DynamicIntegerPointsKdTreeEncoder<6>
    with 17 dimensions and 64 points differing only in the last coordinate decodes "successfully" to 64 copies of the
    origin (reproduced on the library; its only caller lowers the level to 5 above 15 components). *)
Theorem C01_kd_level6_dim17_roundtrip_refuted : exists bs out,
  kd_encode_points 6 17 1 pts17 = Some bs /\ kd_decode_points 515 6 17 64 bs = Some (out, []) /\
  out = repeat (repeat 0 17) 64 /\ In (repeat 0 16 ++ [1]) pts17.
Proof. exact level6_dim17_witness. Qed.
Print Assumptions C01_kd_level6_dim17_roundtrip_refuted.

(** ** Non-vacuity *)
Example C01_kd_example_tree :
  let pts := [[5; 1]; [0; 7]; [5; 1]; [3; 3]; [6; 0]] in
  points_ok 2 3 pts /\
  (forall level, In level [0; 1; 2; 3; 4; 5; 6] ->
     match kd_encode_points level 2 3 pts with
     | Some bs => match kd_decode_points 515 level 2 5 (bs ++ [9; 9]) with
                  | Some (out, rest) => rest = [9; 9] /\
                      out = (if (level =? 6) then [[6; 0]; [5; 1]; [5; 1]; [3; 3]; [0; 7]] else [[0; 7]; [6; 0]; [5; 1]; [5; 1]; [3; 3]])
                  | None => False
                  end
     | None => False
     end).
Proof.
  cbn zeta. split.
  - repeat constructor; cbn; lia.
  - intros level H. cbn [In] in H. repeat (destruct H as [<-|H]; [vm_compute; split; reflexivity|]). destruct H.
Qed.

Example C01_kd_example_cloud :
  let a1 := {| k_desc := {| ad_type := ATT_COLOR_; ad_dt := DT_UINT8_; ad_nc := 2; ad_norm := true; ad_uid := 3 |};
               k_q := -1; k_explicit := None; k_rows := [[7; 200]; [0; 1]; [7; 200]; [255; 3]] |} in
  let a2 := {| k_desc := {| ad_type := ATT_GENERIC_; ad_dt := DT_INT16_; ad_nc := 1; ad_norm := false; ad_uid := 9 |};
               k_q := -1; k_explicit := None; k_rows := [[65535]; [32768]; [65535]; [32767]] |} in   (* -1, -32768, -1, 32767 *)
  Forall (kd_att_ok 4) [a1; a2] /\ kd_streams_small (@std_partition point) 3 4 [a1; a2] /\
  match kd_enc_pc 3 4 [a1; a2] with
  | Some bs => match kd_dec_pc_stream (fun _ => false) (bs ++ [5]) with
               | KOk (pc, rest) => rest = [5] /\ map kda_rows (kp_atts pc) = [[[255; 3]; [7; 200]; [7; 200]; [0; 1]]; [[32767]; [65535]; [65535]; [32768]]]
               | _ => False
               end
  | None => False
  end.
Proof.
  cbn zeta. split.
  - repeat constructor; cbn; try lia; vm_compute; congruence.
  - split.
    + intros cols o ord Hc. vm_compute in Hc. injection Hc as <-. intros pts H. vm_compute in H. injection H as <- <-.
      vm_compute. repeat split; reflexivity.
    + vm_compute. split; reflexivity.
Qed.
