(** C06 — encoding and decoding are deterministic functions of their inputs.

    (1) The model encoders/decoders are Gallina functions; the byte-exact correspondence (C01, C17, C08, C11, C20) is
        what makes the IMPLEMENTATION a function of its inputs on every generated case, across processes.
    (2) Proved here: a successful decode consumes exactly the stream and is unaffected by the bytes that follow
        (sequential codecs end to end; every bit/entropy/metadata block by its own round-trip theorem), and the
        reusable objects forget their history: EncoderBuffer after Clear(), bit encoders after StartEncoding().
    (3) Search (harness/h_c06.cc): fresh vs reused Encoder/EncoderBuffer/Decoder/DecoderBuffer objects, trailing junk,
        and the whole battery again in fresh processes with varied allocator behaviour and address-space layout.
    Not provable in a model: reads of uninitialised memory, container iteration order, address dependence. *)
From Draco Require Import Base.Codec Model.Varint Model.BitBuffer Model.BitCoders Model.Metadata Model.SeqAttr Model.SeqCodec
  Model.SeqCodecInst Model.Reuse
  Proofs.SeqAttr_proofs Proofs.SeqCodec_proofs Proofs.SeqCodecInst_proofs Proofs.Reuse_proofs Proofs.Metadata_proofs.
Local Open Scope Z_scope.

Theorem C06_seq_point_cloud_junk_independent : forall np md atts bs junk1 junk2 g1 g2 r1 r2,
  pc_ok_inst np md atts -> i_enc_pc_seq np md atts = Some bs ->
  i_dec_pc_seq (fun _ => false) (bs ++ junk1) = Some (g1, r1) ->
  i_dec_pc_seq (fun _ => false) (bs ++ junk2) = Some (g2, r2) ->
  g1 = g2 /\ r1 = junk1 /\ r2 = junk2.
Proof.
  intros np md atts bs junk1 junk2 g1 g2 r1 r2.
  exact (seq_pc_junk_independent sym_enc sym_dec sym_guard_inst sym_law_inst md_enc md_dec wf_gmeta md_law_inst
           np md atts bs junk1 junk2 g1 g2 r1 r2).
Qed.
Print Assumptions C06_seq_point_cloud_junk_independent.

Theorem C06_seq_mesh_exact_consumption : forall np md conn faces atts bs junk,
  mesh_ok_inst np md conn faces atts junk -> i_enc_mesh_seq np md conn faces atts = Some bs ->
  exists g, i_dec_mesh_seq (fun _ => false) (bs ++ junk) = Some (g, junk).
Proof.
  intros np md conn faces atts bs junk.
  exact (seq_mesh_exact_consumption sym_enc sym_dec sym_guard_inst sym_law_inst md_enc md_dec wf_gmeta md_law_inst
           np md conn faces atts bs junk).
Qed.
Print Assumptions C06_seq_mesh_exact_consumption.

(** EncoderBuffer: for EVERY history of earlier calls, Clear() followed by any call sequence behaves exactly like
    the same sequence on a new buffer (bytes, bit-mode flag and every call's return value). *)
Theorem C06_encoder_buffer_history_independent : forall history ops,
  let used := fst (ebuf_run ebuf_new history) in
  ebuf_obs (fst (ebuf_run used (EClear :: ops))) = ebuf_obs (fst (ebuf_run ebuf_new ops)) /\
  snd (ebuf_run used (EClear :: ops)) = true :: snd (ebuf_run ebuf_new ops).
Proof. exact ebuf_history_independent. Qed.
Print Assumptions C06_encoder_buffer_history_independent.

(** bit encoders (RAnsBit / Direct / …): StartEncoding() discards everything accumulated before *)
Theorem C06_bit_encoder_history_independent : forall enc history ops,
  let used := fst (bitobj_run enc {| bo_bits := [] |} history) in
  snd (bitobj_run enc used (BStart :: ops)) = None :: snd (bitobj_run enc {| bo_bits := [] |} ops).
Proof. exact bitobj_history_independent. Qed.
Print Assumptions C06_bit_encoder_history_independent.

Example C06_example_reuse :
  let h := [EEncode [1; 2]; EStartBits 9 true; EPutBits 3 5] in     (* history ends INSIDE a bit block *)
  let ops := [EEncode [7]; EStartBits 8 false; EPutBits 8 200; EEndBits] in
  fst (ebuf_obs (fst (ebuf_run (fst (ebuf_run ebuf_new h)) (EClear :: ops)))) = [7; 200].
Proof. vm_compute. reflexivity. Qed.
