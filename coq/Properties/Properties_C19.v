(** C19 — independent encoder/decoder instances can run concurrently.

    Property (properties.jsonl): encoding and decoding performed at the same time on different
    threads, each with its own Encoder/Decoder objects, buffers and geometries, produce exactly
    the results the same calls produce when run alone; the library has no hidden shared mutable
    state on these paths.

    What is proved here, and about what (PARTIAL — read this before relying on it):

    * [C19_no_shared_writes_commute], [C19_frame_noninterference], [C19_schedules_agree] are
      theorems about the abstract step model of Model/Interleave.v: any number of threads, any
      programs, ANY interleaving (induction over the schedule).  Steps are atomic and
      sequentially consistent; the theorems say nothing about the C++ memory model.
    * [codec_footprint_empty] / [codec_no_hidden_state_calls] are facts about the file
      Gen/Footprint.v, which tools/footprint.py REGENERATES ON EVERY CHECK from a fresh build of
      the library's current source: the writable, non-thread-local data symbols (function-local
      statics and their guard variables included) of libdraco that survive `--gc-sections` in an
      image that references only the codec entry points (harness/probe_C19.cc), and the imported
      libc/libstdc++ functions with hidden global state.  A new static cache, global scratch
      buffer, counter or flag on an encode/decode path makes the list non-empty and these two
      proofs (by [reflexivity]) fail.
    * [concurrent_equals_sequential] instantiates the model theorem with "process-shared state =
      exactly the cells listed in the generated footprint".  Its hypothesis [confined] — a codec
      step can reach static-storage state only through a symbol of the linked image — is the
      modelling assumption; it is not proved about the C++ code.
    * [C19_nonempty_footprint_can_interfere] shows the emptiness is necessary in the model.

    NOT covered by any theorem (searched only, by the ThreadSanitizer harness h_C19.cc): data
    races in the sense of the C++ memory model; heap objects shared by the caller between
    threads; internals of libc/libstdc++/the allocator; functions that read the process-global
    locale ([codec_locale_reads], e.g. strtod in Options::GetFloat) while another thread calls
    setlocale; state reached through pointers stored in read-only relocated data. *)
From Coq Require Import String List.
From Draco Require Import Model.Interleave Proofs.Interleave_proofs Gen.Footprint.
Import ListNotations.

(** For every number of threads, all programs and EVERY complete interleaving: if no step writes
    the shared state, every thread ends with exactly the local state and outputs of its run
    alone from the same initial state, nothing is left to do, and the shared state is unchanged. *)
Theorem C19_no_shared_writes_commute :
  forall (L Sh O : Type) (Inv : Sh -> Prop) (sched : list nat) (p : pool L Sh O) (sh : Sh),
  Inv sh -> all_steps (fun _ s => writes_nothing Inv s) p -> complete sched p ->
  (forall i, fst (run sched p sh) i = alone_result p sh i /\
             t_todo (fst (run sched p sh) i) = []) /\
  snd (run sched p sh) = sh.
Proof. exact no_shared_writes_commute. Qed.
Print Assumptions C19_no_shared_writes_commute.

(** Hence the result does not depend on the schedule at all. *)
Theorem C19_schedules_agree :
  forall (L Sh O : Type) (Inv : Sh -> Prop) (s1 s2 : list nat) (p : pool L Sh O) (sh : Sh),
  Inv sh -> all_steps (fun _ s => writes_nothing Inv s) p -> complete s1 p -> complete s2 p ->
  forall i, fst (run s1 p sh) i = fst (run s2 p sh) i.
Proof. exact schedules_agree. Qed.
Print Assumptions C19_schedules_agree.

(** Generalisation (frame property): the shared state is a store of cells; thread [k] accesses
    only the cells in [A k] and writes only those in [W k]; no thread writes a cell another thread
    accesses.  Then under every complete interleaving every thread ends as when run alone, and
    the cells it accesses hold what they hold after its run alone. *)
Theorem C19_frame_noninterference :
  forall (L C V O : Type) (A W : nat -> C -> Prop), separated A W ->
  forall (sched : list nat) (p : pool L (store C V) O) (sh : store C V),
  all_steps (fun k s => respects (A k) (W k) s) p -> complete sched p ->
  forall i,
    fst (run sched p sh) i = alone_result p sh i /\
    t_todo (fst (run sched p sh) i) = [] /\
    agree (A i) (snd (run sched p sh)) (snd (run_alone (length (t_todo (p i))) (p i) sh)).
Proof. exact frame_noninterference. Qed.
Print Assumptions C19_frame_noninterference.

(** ... and cells nobody may write keep their initial value. *)
Theorem C19_frame_untouched :
  forall (L C V O : Type) (A W : nat -> C -> Prop)
         (sched : list nat) (p : pool L (store C V) O) (sh : store C V) (c : C),
  all_steps (fun k s => respects (A k) (W k) s) p -> (forall k, ~ W k c) ->
  snd (run sched p sh) c = sh c.
Proof. exact frame_untouched. Qed.
Print Assumptions C19_frame_untouched.

(** The emptiness hypothesis below is necessary: with any non-empty footprint there are confined
    programs and a schedule whose result differs from the run alone. *)
Theorem C19_nonempty_footprint_can_interfere : forall c rest,
  let cells := c :: rest in
  has_domain cells (zero_store cells) /\
  all_steps (fun _ s => confined cells s) bump_pool /\
  complete [1; 0] bump_pool /\
  fst (run [1; 0] bump_pool (zero_store cells)) 0 <> alone_result bump_pool (zero_store cells) 0.
Proof. exact nonempty_footprint_can_interfere. Qed.
Print Assumptions C19_nonempty_footprint_can_interfere.

(** ---- The tie to the code: facts about the file regenerated from the current build. ---- *)

(** No writable process-shared data of libdraco is reachable from the codec entry points.
    (If this fails: Gen/Footprint.v names the new symbols and the archive members.) *)
Theorem codec_footprint_empty : codec_shared_writable = [].
Proof. reflexivity. Qed.
Print Assumptions codec_footprint_empty.

(** The codec paths import no libc/libstdc++ function with hidden global state
    (rand, strtok, localtime, setlocale, getenv, std::locale::global, ...). *)
Theorem codec_no_hidden_state_calls : codec_hidden_state_calls = [].
Proof. reflexivity. Qed.
Print Assumptions codec_no_hidden_state_calls.

(** All process-shared cells a codec step could write, per the generated footprint. *)
Definition codec_cells : list string := codec_shared_writable ++ codec_hidden_state_calls.

Lemma codec_cells_empty : codec_cells = [].
Proof. unfold codec_cells. rewrite codec_footprint_empty, codec_no_hidden_state_calls. reflexivity. Qed.
Print Assumptions codec_cells_empty.

(** Concurrent = sequential for the codec, in the model: threads whose steps have no process-shared
    state other than the cells of the generated footprint give, under EVERY interleaving, each
    thread the local state (its Encoder/Decoder/buffers/geometry) and the outputs (bytes, values,
    statuses) of its run alone, and leave the shared state untouched. *)
Theorem concurrent_equals_sequential :
  forall (L V O : Type) (sched : list nat) (p : pool L (cell_store V) O) (sh : cell_store V),
  has_domain codec_cells sh -> all_steps (fun _ s => confined codec_cells s) p -> complete sched p ->
  (forall i, fst (run sched p sh) i = alone_result p sh i /\
             t_todo (fst (run sched p sh) i) = []) /\
  snd (run sched p sh) = sh.
Proof. exact (fun L V O => @empty_footprint_noninterference L V O codec_cells codec_cells_empty). Qed.
Print Assumptions concurrent_equals_sequential.

(** Non-vacuity: concrete pools meeting the hypotheses, with computed results. *)
Example C19_example_readonly :
  all_steps (fun _ s => writes_nothing (fun _ => True) s) ro_pool /\
  complete ro_sched ro_pool /\
  t_local (fst (run ro_sched ro_pool 7) 2) = 121 /\
  t_out (fst (run ro_sched ro_pool 7) 0) = [8; 1] /\
  t_out (alone_result ro_pool 7 0) = [8; 1].
Proof. exact ro_example. Qed.

Example C19_example_frame :
  separated own_A own_A /\
  all_steps (fun k s => respects (own_A k) (own_A k) s) own_pool /\
  complete [0; 1; 0] own_pool /\
  t_out (fst (run [0; 1; 0] own_pool (fun _ => 5)) 0) = [6; 5] /\
  snd (run [0; 1; 0] own_pool (fun _ => 5)) 0 = 7 /\
  snd (run [0; 1; 0] own_pool (fun _ => 5)) 1 = 6.
Proof. exact own_example. Qed.

(** The codec instance is inhabited: the empty store has the (empty) codec domain, and a pool of
    confined steps exists (steps that ignore the shared store). *)
Example C19_example_codec_instance :
  has_domain codec_cells (@nil (string * nat)) /\
  confined codec_cells (fun (l : nat) (sh : cell_store nat) => (S l, sh, l)).
Proof. rewrite codec_cells_empty. split; [reflexivity | intros l sh H; exact H]. Qed.
