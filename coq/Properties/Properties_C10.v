(** C10 — skipping the attribute transform exposes data that reproduces the normal decode.

    PROVED for the sequential decoders on arbitrary bytes and EVERY subset of attribute types to skip (the option is
    a predicate on types): whenever the normal decode accepts, the decode with the option accepts the same bytes,
    stops at the same position, returns the same point count, metadata and faces; attributes of types that are not
    skipped (and attributes without a portable form) are IDENTICAL; a skipped quantized attribute is returned under
    its original unique id as the integer words plus the transform parameters, and applying InverseTransform with
    exactly those parameters to exactly those words gives the values of the normal decode, bit for bit; a skipped
    integer attribute is exposed as its int32 portable form whose conversion gives the normal values.
    kd-tree and Edgebreaker paths (separate dequantization call sites): bit-exact search on the implementation. *)
From Draco Require Import Base.Codec Base.Float32 Model.Varint Model.Quantize Model.Metadata Model.SeqAttr Model.SeqCodec Model.SeqCodecInst
  Proofs.SeqAttr_proofs Proofs.SeqCodec_proofs Proofs.SeqCodecInst_proofs.
Local Open Scope Z_scope.

Theorem C10_skip_refines_point_cloud : forall skip bs g0 r, i_dec_pc_seq (fun _ => false) bs = Some (g0, r) ->
  exists g, i_dec_pc_seq skip bs = Some (g, r) /\
    dp_npoints g = dp_npoints g0 /\ dp_md g = dp_md g0 /\ Forall2 (att_refines skip) (dp_atts g0) (dp_atts g).
Proof. exact skip_refines_pc_inst. Qed.
Print Assumptions C10_skip_refines_point_cloud.

Theorem C10_skip_refines_mesh : forall skip bs g0 r, i_dec_mesh_seq (fun _ => false) bs = Some (g0, r) ->
  exists g, i_dec_mesh_seq skip bs = Some (g, r) /\
    dm_npoints g = dm_npoints g0 /\ dm_md g = dm_md g0 /\ dm_faces g = dm_faces g0 /\
    Forall2 (att_refines skip) (dm_atts g0) (dm_atts g).
Proof. exact skip_refines_mesh_inst. Qed.
Print Assumptions C10_skip_refines_mesh.

(** what [att_refines] says, spelled out for a skipped quantized attribute *)
Theorem C10_skipped_quantized_reproduces : forall skip a0 a,
  att_refines skip a0 a -> da_kind_id a0 = Gen.Constants.SEQUENTIAL_ATTRIBUTE_ENCODER_QUANTIZATION_ ->
  skip (ad_type (da_desc a0)) = true ->
  ad_uid (da_desc a) = ad_uid (da_desc a0) /\
  exists p fr, da_tdata a = Some p /\ inverse_transform p (da_rows a) = Quantize.Ok fr /\ da_rows a0 = map (map bits_of_f32) fr.
Proof.
  intros skip a0 a [Hk H] Hq Hs. rewrite Hq, Hs in H. cbn in H.
  destruct H as (Hd & _ & H). split; [rewrite Hd; reflexivity|exact H].
Qed.
Print Assumptions C10_skipped_quantized_reproduces.

(** the converse does not hold (a stream may decode only WITH the option): kept visible *)
Theorem C10_skip_converse_refuted :
  exists d rows, finish_att (fun _ => true) d Gen.Constants.SEQUENTIAL_ATTRIBUTE_ENCODER_INTEGER_ rows [] <> None /\
                 finish_att (fun _ => false) d Gen.Constants.SEQUENTIAL_ATTRIBUTE_ENCODER_INTEGER_ rows [] = None.
Proof. exact skip_converse_refuted. Qed.
Print Assumptions C10_skip_converse_refuted.
