(** C05 — existing bitstreams keep decoding to the same geometry, in the same order.
    (i) every bitstream-defining constant regenerated from the current source equals its frozen value (no
        correspondence fallback: a changed constant is a broken obligation);
    (ii) the version gate of the decoders;
    the frozen corpus (corpus/C05, ordered digests) is decoded by the current decoder on every run. *)
From Coq Require Import ZifyBool.
From Draco Require Import Base.Codec Gen.Constants Frozen.FrozenConstants Model.Varint Model.SeqCodec.
Local Open Scope Z_scope.

Theorem C05_frozen_versions :
  Gen.Constants.kDracoPointCloudBitstreamVersionMajor = Frozen.FrozenConstants.kDracoPointCloudBitstreamVersionMajor /\
  Gen.Constants.kDracoPointCloudBitstreamVersionMinor = Frozen.FrozenConstants.kDracoPointCloudBitstreamVersionMinor /\
  Gen.Constants.kDracoMeshBitstreamVersionMajor = Frozen.FrozenConstants.kDracoMeshBitstreamVersionMajor /\
  Gen.Constants.kDracoMeshBitstreamVersionMinor = Frozen.FrozenConstants.kDracoMeshBitstreamVersionMinor /\
  Gen.Constants.kDracoPointCloudBitstreamVersion = Frozen.FrozenConstants.kDracoPointCloudBitstreamVersion /\
  Gen.Constants.kDracoMeshBitstreamVersion = Frozen.FrozenConstants.kDracoMeshBitstreamVersion /\
  Gen.Constants.bitstream_version_2_2 = Frozen.FrozenConstants.bitstream_version_2_2 /\
  Gen.Constants.bitstream_version_2_0 = Frozen.FrozenConstants.bitstream_version_2_0 /\
  Gen.Constants.bitstream_version_1_3 = Frozen.FrozenConstants.bitstream_version_1_3.
Proof. repeat split; reflexivity. Qed.
Print Assumptions C05_frozen_versions.

Theorem C05_frozen_tables :
  Gen.Constants.data_type_lengths = Frozen.FrozenConstants.data_type_lengths /\
  Gen.Constants.rans_precision_of_bit_length = Frozen.FrozenConstants.rans_precision_of_bit_length /\
  Gen.Constants.rans_unclamped_precision_of_bit_length = Frozen.FrozenConstants.rans_unclamped_precision_of_bit_length /\
  Gen.Constants.vp10_fastdiv_tab = Frozen.FrozenConstants.vp10_fastdiv_tab.
Proof. repeat split; reflexivity. Qed.
Print Assumptions C05_frozen_tables.

Theorem C05_frozen_ans :
  Gen.Constants.kMaxNumParallelograms_ = Frozen.FrozenConstants.kMaxNumParallelograms_ /\
  Gen.Constants.DRACO_ANS_P8_PRECISION_ = Frozen.FrozenConstants.DRACO_ANS_P8_PRECISION_ /\
  Gen.Constants.DRACO_ANS_L_BASE_ = Frozen.FrozenConstants.DRACO_ANS_L_BASE_ /\
  Gen.Constants.DRACO_ANS_IO_BASE_ = Frozen.FrozenConstants.DRACO_ANS_IO_BASE_ /\
  Gen.Constants.DRACO_ANS_DIVIDE_BY_MULTIPLY_ = Frozen.FrozenConstants.DRACO_ANS_DIVIDE_BY_MULTIPLY_ /\
  Gen.Constants.kMaxTagSymbolBitLength_ = Frozen.FrozenConstants.kMaxTagSymbolBitLength_ /\
  Gen.Constants.kMaxRawEncodingBitLength_ = Frozen.FrozenConstants.kMaxRawEncodingBitLength_ /\
  Gen.Constants.kMaxSubmetadataLevel_decoder = Frozen.FrozenConstants.kMaxSubmetadataLevel_decoder /\
  Gen.Constants.kMaxSubmetadataLevel_encoder = Frozen.FrozenConstants.kMaxSubmetadataLevel_encoder.
Proof. repeat split; reflexivity. Qed.
Print Assumptions C05_frozen_ans.

(** Identifiers that appear in streams are frozen by equality; the count sentinels (NUM_*, *_COUNT) only by
    [frozen <= current]: appending a new enumerator cannot change the meaning of an existing stream. *)
Theorem C05_frozen_enums :
  Gen.Constants.INVALID_GEOMETRY_TYPE_ = Frozen.FrozenConstants.INVALID_GEOMETRY_TYPE_ /\
  Gen.Constants.POINT_CLOUD_ = Frozen.FrozenConstants.POINT_CLOUD_ /\
  Gen.Constants.TRIANGULAR_MESH_ = Frozen.FrozenConstants.TRIANGULAR_MESH_ /\
  (Frozen.FrozenConstants.NUM_ENCODED_GEOMETRY_TYPES_ <= Gen.Constants.NUM_ENCODED_GEOMETRY_TYPES_)%Z /\
  Gen.Constants.POINT_CLOUD_SEQUENTIAL_ENCODING_ = Frozen.FrozenConstants.POINT_CLOUD_SEQUENTIAL_ENCODING_ /\
  Gen.Constants.POINT_CLOUD_KD_TREE_ENCODING_ = Frozen.FrozenConstants.POINT_CLOUD_KD_TREE_ENCODING_ /\
  Gen.Constants.MESH_SEQUENTIAL_ENCODING_ = Frozen.FrozenConstants.MESH_SEQUENTIAL_ENCODING_ /\
  Gen.Constants.MESH_EDGEBREAKER_ENCODING_ = Frozen.FrozenConstants.MESH_EDGEBREAKER_ENCODING_ /\
  Gen.Constants.BASIC_ATTRIBUTE_ENCODER_ = Frozen.FrozenConstants.BASIC_ATTRIBUTE_ENCODER_ /\
  Gen.Constants.MESH_TRAVERSAL_ATTRIBUTE_ENCODER_ = Frozen.FrozenConstants.MESH_TRAVERSAL_ATTRIBUTE_ENCODER_ /\
  Gen.Constants.KD_TREE_ATTRIBUTE_ENCODER_ = Frozen.FrozenConstants.KD_TREE_ATTRIBUTE_ENCODER_ /\
  Gen.Constants.SEQUENTIAL_ATTRIBUTE_ENCODER_GENERIC_ = Frozen.FrozenConstants.SEQUENTIAL_ATTRIBUTE_ENCODER_GENERIC_ /\
  Gen.Constants.SEQUENTIAL_ATTRIBUTE_ENCODER_INTEGER_ = Frozen.FrozenConstants.SEQUENTIAL_ATTRIBUTE_ENCODER_INTEGER_ /\
  Gen.Constants.SEQUENTIAL_ATTRIBUTE_ENCODER_QUANTIZATION_ = Frozen.FrozenConstants.SEQUENTIAL_ATTRIBUTE_ENCODER_QUANTIZATION_ /\
  Gen.Constants.SEQUENTIAL_ATTRIBUTE_ENCODER_NORMALS_ = Frozen.FrozenConstants.SEQUENTIAL_ATTRIBUTE_ENCODER_NORMALS_ /\
  Gen.Constants.PREDICTION_NONE_ = Frozen.FrozenConstants.PREDICTION_NONE_ /\
  Gen.Constants.PREDICTION_UNDEFINED_ = Frozen.FrozenConstants.PREDICTION_UNDEFINED_ /\
  Gen.Constants.PREDICTION_DIFFERENCE_ = Frozen.FrozenConstants.PREDICTION_DIFFERENCE_ /\
  Gen.Constants.MESH_PREDICTION_PARALLELOGRAM_ = Frozen.FrozenConstants.MESH_PREDICTION_PARALLELOGRAM_ /\
  Gen.Constants.MESH_PREDICTION_MULTI_PARALLELOGRAM_ = Frozen.FrozenConstants.MESH_PREDICTION_MULTI_PARALLELOGRAM_ /\
  Gen.Constants.MESH_PREDICTION_TEX_COORDS_DEPRECATED_ = Frozen.FrozenConstants.MESH_PREDICTION_TEX_COORDS_DEPRECATED_ /\
  Gen.Constants.MESH_PREDICTION_CONSTRAINED_MULTI_PARALLELOGRAM_ = Frozen.FrozenConstants.MESH_PREDICTION_CONSTRAINED_MULTI_PARALLELOGRAM_ /\
  Gen.Constants.MESH_PREDICTION_TEX_COORDS_PORTABLE_ = Frozen.FrozenConstants.MESH_PREDICTION_TEX_COORDS_PORTABLE_ /\
  Gen.Constants.MESH_PREDICTION_GEOMETRIC_NORMAL_ = Frozen.FrozenConstants.MESH_PREDICTION_GEOMETRIC_NORMAL_ /\
  (Frozen.FrozenConstants.NUM_PREDICTION_SCHEMES_ <= Gen.Constants.NUM_PREDICTION_SCHEMES_)%Z /\
  Gen.Constants.PREDICTION_TRANSFORM_NONE_ = Frozen.FrozenConstants.PREDICTION_TRANSFORM_NONE_ /\
  Gen.Constants.PREDICTION_TRANSFORM_DELTA_ = Frozen.FrozenConstants.PREDICTION_TRANSFORM_DELTA_ /\
  Gen.Constants.PREDICTION_TRANSFORM_WRAP_ = Frozen.FrozenConstants.PREDICTION_TRANSFORM_WRAP_ /\
  Gen.Constants.PREDICTION_TRANSFORM_NORMAL_OCTAHEDRON_ = Frozen.FrozenConstants.PREDICTION_TRANSFORM_NORMAL_OCTAHEDRON_ /\
  Gen.Constants.PREDICTION_TRANSFORM_NORMAL_OCTAHEDRON_CANONICALIZED_ = Frozen.FrozenConstants.PREDICTION_TRANSFORM_NORMAL_OCTAHEDRON_CANONICALIZED_ /\
  (Frozen.FrozenConstants.NUM_PREDICTION_SCHEME_TRANSFORM_TYPES_ <= Gen.Constants.NUM_PREDICTION_SCHEME_TRANSFORM_TYPES_)%Z /\
  Gen.Constants.MESH_TRAVERSAL_DEPTH_FIRST_ = Frozen.FrozenConstants.MESH_TRAVERSAL_DEPTH_FIRST_ /\
  Gen.Constants.MESH_TRAVERSAL_PREDICTION_DEGREE_ = Frozen.FrozenConstants.MESH_TRAVERSAL_PREDICTION_DEGREE_ /\
  (Frozen.FrozenConstants.NUM_TRAVERSAL_METHODS_ <= Gen.Constants.NUM_TRAVERSAL_METHODS_)%Z /\
  Gen.Constants.MESH_EDGEBREAKER_STANDARD_ENCODING_ = Frozen.FrozenConstants.MESH_EDGEBREAKER_STANDARD_ENCODING_ /\
  Gen.Constants.MESH_EDGEBREAKER_PREDICTIVE_ENCODING_ = Frozen.FrozenConstants.MESH_EDGEBREAKER_PREDICTIVE_ENCODING_ /\
  Gen.Constants.MESH_EDGEBREAKER_VALENCE_ENCODING_ = Frozen.FrozenConstants.MESH_EDGEBREAKER_VALENCE_ENCODING_ /\
  Gen.Constants.ONE_TRIANGLE_ = Frozen.FrozenConstants.ONE_TRIANGLE_ /\
  Gen.Constants.TRIANGLE_AREA_ = Frozen.FrozenConstants.TRIANGLE_AREA_ /\
  Gen.Constants.SYMBOL_CODING_TAGGED_ = Frozen.FrozenConstants.SYMBOL_CODING_TAGGED_ /\
  Gen.Constants.SYMBOL_CODING_RAW_ = Frozen.FrozenConstants.SYMBOL_CODING_RAW_ /\
  (Frozen.FrozenConstants.NUM_SYMBOL_CODING_METHODS_ <= Gen.Constants.NUM_SYMBOL_CODING_METHODS_)%Z /\
  Gen.Constants.METADATA_FLAG_MASK_ = Frozen.FrozenConstants.METADATA_FLAG_MASK_ /\
  Gen.Constants.sizeof_DracoHeader_fields = Frozen.FrozenConstants.sizeof_DracoHeader_fields /\
  Gen.Constants.DT_INVALID_ = Frozen.FrozenConstants.DT_INVALID_ /\
  Gen.Constants.DT_INT8_ = Frozen.FrozenConstants.DT_INT8_ /\
  Gen.Constants.DT_UINT8_ = Frozen.FrozenConstants.DT_UINT8_ /\
  Gen.Constants.DT_INT16_ = Frozen.FrozenConstants.DT_INT16_ /\
  Gen.Constants.DT_UINT16_ = Frozen.FrozenConstants.DT_UINT16_ /\
  Gen.Constants.DT_INT32_ = Frozen.FrozenConstants.DT_INT32_ /\
  Gen.Constants.DT_UINT32_ = Frozen.FrozenConstants.DT_UINT32_ /\
  Gen.Constants.DT_INT64_ = Frozen.FrozenConstants.DT_INT64_ /\
  Gen.Constants.DT_UINT64_ = Frozen.FrozenConstants.DT_UINT64_ /\
  Gen.Constants.DT_FLOAT32_ = Frozen.FrozenConstants.DT_FLOAT32_ /\
  Gen.Constants.DT_FLOAT64_ = Frozen.FrozenConstants.DT_FLOAT64_ /\
  Gen.Constants.DT_BOOL_ = Frozen.FrozenConstants.DT_BOOL_ /\
  (Frozen.FrozenConstants.DT_TYPES_COUNT_ <= Gen.Constants.DT_TYPES_COUNT_)%Z /\
  Gen.Constants.ATT_INVALID_ = Frozen.FrozenConstants.ATT_INVALID_ /\
  Gen.Constants.ATT_POSITION_ = Frozen.FrozenConstants.ATT_POSITION_ /\
  Gen.Constants.ATT_NORMAL_ = Frozen.FrozenConstants.ATT_NORMAL_ /\
  Gen.Constants.ATT_COLOR_ = Frozen.FrozenConstants.ATT_COLOR_ /\
  Gen.Constants.ATT_TEX_COORD_ = Frozen.FrozenConstants.ATT_TEX_COORD_ /\
  Gen.Constants.ATT_GENERIC_ = Frozen.FrozenConstants.ATT_GENERIC_ /\
  (Frozen.FrozenConstants.NAMED_ATTRIBUTES_COUNT_ <= Gen.Constants.NAMED_ATTRIBUTES_COUNT_)%Z /\
  Gen.Constants.OPTIMAL_MULTI_PARALLELOGRAM_ = Frozen.FrozenConstants.OPTIMAL_MULTI_PARALLELOGRAM_.
Proof. repeat split; try reflexivity; vm_compute; discriminate. Qed.
Print Assumptions C05_frozen_enums.

(** The decoder's varint depth limit is MEASURED on the compiled DecodeVarint<T> for the four unsigned widths (the number of bytes
    it accepts), so any rewrite of the limit's expression that keeps the behaviour regenerates the same table. *)
Theorem C05_frozen_varint_depth : forall n, In n [1; 2; 4; 8]%Z ->
  Gen.Constants.varint_max_depth_of_sizeof n = Frozen.FrozenConstants.varint_max_depth_of_sizeof n.
Proof. intros n Hn. simpl in Hn. destruct Hn as [<-|[<-|[<-|[<-|[]]]]]; reflexivity. Qed.
Print Assumptions C05_frozen_varint_depth.

(** The version gate (PointCloudDecoder::Decode): a stream whose version is newer than the decoder's, or older
    than 1.0, is never decoded — the model decoders answer None (the C++: Status UNKNOWN_VERSION, checked for all
    2 x 65536 (major, minor) pairs against the implementation on every run). *)
Theorem C05_version_gate_point_cloud : forall (h : header), h_type h = Gen.Constants.POINT_CLOUD_ ->
  (h_maj h > Gen.Constants.kDracoPointCloudBitstreamVersionMajor \/
   (h_maj h = Gen.Constants.kDracoPointCloudBitstreamVersionMajor /\
    h_min h > Gen.Constants.kDracoPointCloudBitstreamVersionMinor) \/ h_maj h < 1) ->
  version_ok h = false.
Proof.
  intros h Hty H. unfold version_ok. rewrite Hty.
  replace (Gen.Constants.POINT_CLOUD_ =? Gen.Constants.POINT_CLOUD_) with true by reflexivity.
  cbv beta iota zeta.
  apply andb_false_iff. rewrite !negb_false_iff, orb_true_iff, andb_true_iff.
  destruct H as [H|[[H1 H2]|H]]; [left; right; lia | right; split; lia | left; left; lia].
Qed.
Print Assumptions C05_version_gate_point_cloud.

Theorem C05_version_gate_mesh : forall (h : header), h_type h = Gen.Constants.TRIANGULAR_MESH_ ->
  (h_maj h > Gen.Constants.kDracoMeshBitstreamVersionMajor \/
   (h_maj h = Gen.Constants.kDracoMeshBitstreamVersionMajor /\
    h_min h > Gen.Constants.kDracoMeshBitstreamVersionMinor) \/ h_maj h < 1) ->
  version_ok h = false.
Proof.
  intros h Hty H. unfold version_ok. rewrite Hty.
  replace (Gen.Constants.TRIANGULAR_MESH_ =? Gen.Constants.POINT_CLOUD_) with false by reflexivity.
  cbv beta iota zeta.
  apply andb_false_iff. rewrite !negb_false_iff, orb_true_iff, andb_true_iff.
  destruct H as [H|[[H1 H2]|H]]; [left; right; lia | right; split; lia | left; left; lia].
Qed.
Print Assumptions C05_version_gate_mesh.

Section Gate.
  Variable dec_syms : nat -> nat -> bytes -> option (list Z * bytes).
  Context {MD : Type}.
  Variable dec_md : bytes -> option (MD * bytes).
  Variable skip : Z -> bool.
  (** a sequential point-cloud / mesh stream with a version the gate rejects is not decoded *)
  Theorem C05_gate_rejects_pc : forall h r0 bs, dec_header bs = inl (Some (h, r0)) -> version_ok h = false ->
    dec_pc_seq dec_syms dec_md skip bs = None.
  Proof.
    intros h r0 bs Hh Hv. unfold dec_pc_seq. rewrite Hh.
    destruct (negb (h_type h =? Gen.Constants.POINT_CLOUD_)); [reflexivity|].
    destruct (negb (h_method h =? Gen.Constants.POINT_CLOUD_SEQUENTIAL_ENCODING_)); [reflexivity|]. rewrite Hv. reflexivity.
  Qed.
  Theorem C05_gate_rejects_mesh : forall h r0 bs, dec_header bs = inl (Some (h, r0)) -> version_ok h = false ->
    dec_mesh_seq dec_syms dec_md skip bs = None.
  Proof.
    intros h r0 bs Hh Hv. unfold dec_mesh_seq. rewrite Hh.
    destruct (negb (h_type h =? Gen.Constants.TRIANGULAR_MESH_)); [reflexivity|].
    destruct (negb (h_method h =? Gen.Constants.MESH_SEQUENTIAL_ENCODING_)); [reflexivity|]. rewrite Hv. reflexivity.
  Qed.
End Gate.
Print Assumptions C05_gate_rejects_pc.
Print Assumptions C05_gate_rejects_mesh.

Example C05_current_versions_pass :
  version_ok {| h_maj := 2; h_min := 3; h_type := Gen.Constants.POINT_CLOUD_; h_method := 0; h_flags := 0 |} = true /\
  version_ok {| h_maj := 2; h_min := 2; h_type := Gen.Constants.TRIANGULAR_MESH_; h_method := 0; h_flags := 0 |} = true /\
  version_ok {| h_maj := 2; h_min := 3; h_type := Gen.Constants.TRIANGULAR_MESH_; h_method := 0; h_flags := 0 |} = false /\
  version_ok {| h_maj := 1; h_min := 1; h_type := Gen.Constants.TRIANGULAR_MESH_; h_method := 0; h_flags := 0 |} = true.
Proof. vm_compute. repeat split; reflexivity. Qed.
