(** C08 — symbol entropy coding is lossless and self-delimiting.
    This file only restates theorems proved in Proofs/ and prints their assumptions. *)
From Coq Require Import FMapPositive.
From Draco Require Import Base.Codec Model.Varint Model.RansSymbol Model.RansFloat Model.SymbolCoding Model.RansBound Model.SymbolPolicy
  Proofs.RansSymbol_proofs Proofs.SymbolCoding_proofs Proofs.RansBound_proofs Proofs.RansBound_examples Proofs.SymbolPolicy_proofs.
Local Open Scope Z_scope.

(** rANS state invariant and step inversion: one rans_write keeps the state in [L, 256 L) (L = 4 * 2^P) and the
    decoder's rans_read, started from any state that renormalises to the encoder's, returns the symbol and a state
    that renormalises to the encoder's previous state. *)
Theorem C08_rans_step_inverse : forall P, 0 <= P <= 20 -> forall tbl d s x stk, sym_agree P tbl d s ->
  rans_L P <= x < 256 * rans_L P ->
  exists st2, (match arr_get tbl s with Some sym => rans_write P sym (x, stk) | None => None end) = Some st2 /\
    rans_L P <= fst st2 < 256 * rans_L P /\
    forall x1 stk1, dec_renorm (rans_L P) x1 stk1 = st2 ->
      exists x' stk', rans_read P d (x1, stk1) = Ok (s, (x', stk')) /\ dec_renorm (rans_L P) x' stk' = (x, stk).
Proof. exact rans_step. Qed.
Print Assumptions C08_rans_step_inverse.

(** The rANS coder proper: for every valid probability table (non-negative, total 2^P) and every list of symbols
    of non-zero probability, the decoder (Create, StartDecoding, DecodeSymbol * n) returns the symbols and stops
    exactly behind the block, whatever follows it ([rest]) and whatever lies in front of it ([pre]). *)
Theorem C08_rans_roundtrip : forall P probs syms bs rest pre, 0 <= P <= 20 -> table_ok P probs ->
  (forall s, In s syms -> sym_used probs s) ->
  rans_encode_with P probs syms = Some bs -> zlen bs < 2 ^ 31 ->
  rans_decode_symbols 514 P (length syms) pre (bs ++ rest) = Ok (syms, rest).
Proof. exact rans_roundtrip. Qed.
Print Assumptions C08_rans_roundtrip.

(** EncodeTable / the decoder's Create, including zero runs. *)
Theorem C08_table_roundtrips : forall P probs tb rest, 0 <= P <= 20 -> enc_table probs = Some tb -> probs <> [] ->
  all_nonneg probs -> zsum probs = 2 ^ P -> zlen probs + 64 < 2 ^ 32 ->
  rans_dec_create 514 P (tb ++ rest) = Ok ({| d_n := zlen probs; d_tbl := arr_of_list (with_cum probs 0) |}, rest).
Proof. exact dec_create_roundtrip. Qed.
Print Assumptions C08_table_roundtrips.

(** Create's table is valid whatever the double-precision steps return ([rnd], [relf], [scalef] arbitrary):
    total 2^P, every used symbol keeps probability >= 1, nothing negative, one entry per symbol. *)
Theorem C08_create_table_valid : forall (F : Type) rnd (relf : Z -> F) scalef P freqs probs,
  rans_create F rnd relf scalef P freqs = COk probs ->
  zsum probs = 2 ^ P /\ length probs = length (trim_freqs freqs) /\ all_nonneg probs /\
  (forall i f, nth_error (trim_freqs freqs) i = Some f -> 0 < f -> exists p, nth_error probs i = Some p /\ 1 <= p).
Proof. exact create_table_valid. Qed.
Print Assumptions C08_create_table_valid.

(** The repair loop `while (error > 0)` ends (measure: error, which every pass lowers by at least 1) as soon as
    there are two symbols; with one symbol it is never entered unless freq/freq*precision rounds above the precision. *)
Theorem C08_create_terminates : forall (F : Type) rnd (relf : Z -> F) scalef P freqs,
  (2 <= length (trim_freqs freqs))%nat \/ (forall t f, rnd t f <= 2 ^ P) -> 0 <= P ->
  rans_create F rnd relf scalef P freqs <> CFuel.
Proof. exact create_terminates. Qed.
Print Assumptions C08_create_terminates.

(** "there will be always a sufficient number of bits": for the 18 x 11 grid of bit lengths and compression levels,
    four times the number of unique symbols still fits the precision chosen by EncodeRawSymbols. *)
Theorem C08_precision_sufficient : forall b lvl nu, 1 <= b <= 18 -> 0 <= lvl <= 10 -> 2 ^ (b - 1) <= nu < 2 ^ b ->
  4 * nu < 2 ^ (rans_precision_bits (raw_bit_length nu lvl)).
Proof. exact precision_sufficient. Qed.
Print Assumptions C08_precision_sufficient.

(** The raw scheme. *)
Theorem C08_raw_roundtrips : forall lvl syms bs rest pre, syms <> [] -> (forall s, In s syms -> 0 <= s < 2 ^ 31) ->
  enc_raw lvl syms = Some bs -> zlen bs < 2 ^ 31 ->
  dec_raw 514 (length syms) pre (bs ++ rest) = Ok (syms, rest).
Proof. exact raw_roundtrips. Qed.
Print Assumptions C08_raw_roundtrips.

(** The tagged scheme (bit-length tags through RAnsSymbolEncoder<5>, values as raw bits). *)
Theorem C08_tagged_roundtrips : forall nc k syms bs rest pre, (1 <= nc)%nat -> length syms = (k * nc)%nat -> syms <> [] ->
  (forall s, In s syms -> 0 <= s < 2 ^ 31) ->
  enc_tagged nc syms = Some bs -> zlen bs < 2 ^ 31 ->
  dec_tagged 514 (length syms) nc pre (bs ++ rest) = Ok (syms, rest).
Proof. exact tagged_roundtrips. Qed.
Print Assumptions C08_tagged_roundtrips.

(** THE PROPERTY.  For every scheme choice [method], compression level, component count and symbol array: if
    EncodeSymbols returns true with the bytes [bs] (shorter than 2^31 bytes: the C++ sizes are `int`), then
    DecodeSymbols with the symbol count returns exactly the array and leaves exactly [rest] unread.
    No side condition on the symbols is needed: what EncodeSymbols cannot represent it rejects ([None], see
    C08_example_reject), so this is also "fails instead of emitting a block that decodes differently".
    [sym_guard] (symbols are uint32, the count is a multiple of num_components) is the C++ signature; outside it
    the model encoder returns [None]. *)
Theorem C08_symbols_roundtrips : forall method lvl nc syms bs rest,
  enc_symbols method lvl nc syms = Some bs -> zlen bs < 2 ^ 31 ->
  dec_symbols 514 (length syms) (Z.to_nat (if nc <=? 0 then 1 else nc)) [] (bs ++ rest) = Ok (syms, rest).
Proof. exact symbols_roundtrips. Qed.
Print Assumptions C08_symbols_roundtrips.

(** The same statement in the [roundtrips] shape of Base/Codec.v (num_components >= 1). *)
Theorem C08_enc_symbols_fail_or_exact : forall method lvl nc n, 1 <= nc ->
  roundtrips (enc_symbols method lvl nc) (dec_symbols_opt n (Z.to_nat nc))
             (fun syms => length syms = n /\ forall bs, enc_symbols method lvl nc syms = Some bs -> zlen bs < 2 ^ 31).
Proof.
  intros method lvl nc n Hnc syms bs rest (Hn & Hlen) He. unfold dec_symbols_opt. subst n.
  pose proof (symbols_roundtrips method lvl nc syms bs rest He (Hlen bs He)) as H.
  destruct (nc <=? 0) eqn:E; [lia|]. rewrite H. reflexivity.
Qed.
Print Assumptions C08_enc_symbols_fail_or_exact.

(** DecodeSymbols on arbitrary bytes (any version, count, component count, any bytes in front): the model decoder
    never makes an out-of-bounds access ([Oob]: the probability table, the symbol lookup) and never leaves the
    modelled domain ([Unmod]),
    for buffers below 2^26 bytes; all its loops are structural recursions, so it terminates by construction. *)
Theorem C08_dec_symbols_total : forall ver n nc pre bs, (forall b, In b bs -> 0 <= b) -> zlen bs < 2 ^ 26 ->
  safe (dec_symbols ver n nc pre bs).
Proof. exact dec_symbols_total. Qed.
Print Assumptions C08_dec_symbols_total.

(** On arbitrary bytes, for every count and component count, a successful DecodeSymbols returns exactly
    num_values values (the tagged scheme rejects counts that are not a multiple of num_components, commit 6105d6f;
    before that it stored ceil(n / nc) * nc values). *)
Theorem C08_dec_symbols_length_uncond : forall ver n nc pre bs syms r,
  dec_symbols ver n nc pre bs = Ok (syms, r) -> length syms = n.
Proof. exact dec_symbols_length_uncond. Qed.
Print Assumptions C08_dec_symbols_length_uncond.

(** The same with the (now redundant) divisibility hypotheses, as used by Proofs/SeqCodecInst_proofs.v. *)
Theorem C08_dec_symbols_length : forall ver n nc pre bs syms r, (1 <= nc)%nat -> (exists k, n = (k * nc)%nat) ->
  dec_symbols ver n nc pre bs = Ok (syms, r) -> length syms = n.
Proof. exact dec_symbols_length. Qed.
Print Assumptions C08_dec_symbols_length.

(** THE PROPERTY with the raw bit length as policy.  The unique-symbols bit length EncodeRawSymbols derives from the
    symbol count and the compression level is stored in the stream and read back by the decoder, so it is an input
    [bl] of the model encoder (Model/SymbolPolicy.v) exactly like the scheme [method]: for EVERY bit length for
    which the encoder succeeds (admissible = 1..18 and Create accepts the histogram at that precision, cf.
    C08_create_succeeds_for_callers_partial) the block decodes to the array and stops exactly behind it.  The current
    code's level -> bit-length function is the instance [default_raw_bit_length] (C08_enc_symbols_default_policy);
    retuning it changes no theorem. *)
Theorem C08_raw_with_roundtrips : forall bl syms bs rest pre, syms <> [] -> (forall s, In s syms -> 0 <= s < 2 ^ 31) ->
  enc_raw_with bl syms = Some bs -> zlen bs < 2 ^ 31 ->
  dec_raw 514 (length syms) pre (bs ++ rest) = Ok (syms, rest).
Proof. exact raw_with_roundtrips. Qed.
Print Assumptions C08_raw_with_roundtrips.
Theorem C08_symbols_with_roundtrips : forall method bl nc syms bs rest,
  enc_symbols_with method bl nc syms = Some bs -> zlen bs < 2 ^ 31 ->
  dec_symbols 514 (length syms) (Z.to_nat (if nc <=? 0 then 1 else nc)) [] (bs ++ rest) = Ok (syms, rest).
Proof. exact symbols_with_roundtrips. Qed.
Print Assumptions C08_symbols_with_roundtrips.
Theorem C08_enc_symbols_with_fail_or_exact : forall method bl nc n, 1 <= nc ->
  roundtrips (enc_symbols_with method bl nc) (dec_symbols_opt n (Z.to_nat nc))
             (fun syms => length syms = n /\ forall bs, enc_symbols_with method bl nc syms = Some bs -> zlen bs < 2 ^ 31).
Proof.
  intros method bl nc n Hnc syms bs rest (Hn & Hlen) He. unfold dec_symbols_opt. subst n.
  pose proof (symbols_with_roundtrips method bl nc syms bs rest He (Hlen bs He)) as H.
  destruct (nc <=? 0) eqn:E; [lia|]. rewrite H. reflexivity.
Qed.
Print Assumptions C08_enc_symbols_with_fail_or_exact.
Theorem C08_enc_symbols_default_policy : forall method lvl nc syms,
  enc_symbols method lvl nc syms =
  enc_symbols_with method (default_raw_bit_length (Z.of_nat (PositiveMap.cardinal (count_syms syms (PositiveMap.empty Z)))) lvl) nc syms.
Proof. exact enc_symbols_default. Qed.
Print Assumptions C08_enc_symbols_default_policy.

(** WRITE-AREA SUFFICIENCY (StartEncoding reserves, rans_write / write_end / EndEncoding write unchecked).
    The classical rANS length bound, multiplicative form, for every valid table and every sequence of used symbols:
    the k bytes pushed by rans_write satisfy 256^(4k) * (prod_i p_{s_i})^5 <= (2^P)^(5n), i.e.
    8k <= 1.25 * sum_i log2(2^P / p_{s_i}) -- the slack over the ideal code length is the factor 5/4, no additive term. *)
Theorem C08_rans_length_bound : forall P probs syms x stk, 0 <= P <= 20 -> all_nonneg probs -> zsum probs = 2 ^ P ->
  (forall s, In s syms -> sym_used probs s) ->
  rans_encode_syms P (arr_of_list (with_cum probs 0)) syms (rans_write_init P) = Some (x, stk) ->
  rans_L P <= x < 256 * rans_L P /\
  256 ^ (4 * zlen stk) * seq_den probs syms ^ 5 <= (2 ^ P) ^ (5 * zlen syms).
Proof. intros P probs syms x stk HP Hnn Hsum. exact (rans_renorm_bytes_bound P HP probs Hnn Hsum syms x stk). Qed.
Print Assumptions C08_rans_length_bound.

(** For every table Create accepts (whatever the double-precision steps of Create return) on the histogram
    [freqs] of the very sequence [syms] that is then encoded -- the relation EncodeRawSymbolsInternal and
    EncodeTaggedSymbols establish: frequencies = dense (count_syms syms) --, and for every value E of
    num_expected_bits_ that is accurate in the weak sense [ebits_ok] (5 * cross <= 8 * E + 96, cross the exact
    sum_i f_i * log2(2^P / p_i); the C++ computes ceil(cross) in double with libm's log2, which is NOT modelled:
    E is an input and [ebits_ok] the trusted accuracy assumption, implied by E >= 0.625 * cross - 12, in particular
    by [ebits_close]: E >= cross - 12): every byte written between StartEncoding and the end of EndEncoding
    (k renormalisation bytes, the 1..4 byte tail at offset k, the memmove behind the varint length prefix) lies
    inside the rans_reserved E = (2E + 32 + 7) / 8 + 8 bytes StartEncoding resized the buffer by.
    Slack shown: factor 2 / 1.25 = 1.6 on the cross entropy plus 12 bits. *)
Theorem C08_write_area_sufficient : forall (F : Type) rnd (relf : Z -> F) scalef P n syms probs E st,
  0 <= P <= 20 -> (forall s, In s syms -> 0 <= s < Z.of_nat n) ->
  let freqs := dense (count_syms syms (PositiveMap.empty Z)) 0 n in
  rans_create F rnd relf scalef P freqs = COk probs ->
  ebits_ok P probs freqs E -> 0 <= E < 2 ^ 33 ->
  rans_encode_syms P (arr_of_list (with_cum probs 0)) syms (rans_write_init P) = Some st ->
  exists used, rans_area_used P st = Some used /\ used <= rans_reserved E /\ zlen (snd st) + 4 <= rans_reserved E.
Proof. exact write_area_sufficient_hist. Qed.
Print Assumptions C08_write_area_sufficient.

(** The same for any valid table and any frequency table that bounds the occurrences of every symbol from above
    (RAnsSymbolEncoder used directly; [hist_le]), and the stronger accuracy statement implies the weak one. *)
Theorem C08_write_area_sufficient_general : forall P probs syms freqs E st, 0 <= P <= 20 ->
  all_nonneg probs -> zsum probs = 2 ^ P ->
  (forall s, In s syms -> sym_used probs s) -> hist_le syms freqs ->
  ebits_ok P probs freqs E -> 0 <= E < 2 ^ 33 ->
  rans_encode_syms P (arr_of_list (with_cum probs 0)) syms (rans_write_init P) = Some st ->
  exists used, rans_area_used P st = Some used /\ used <= rans_reserved E /\ zlen (snd st) + 4 <= rans_reserved E.
Proof. intros P probs syms freqs E st HP Hnn Hsum. exact (write_area_sufficient P HP probs Hnn Hsum syms freqs E st). Qed.
Print Assumptions C08_write_area_sufficient_general.
Theorem C08_ebits_close_suffices : forall P probs freqs E, 0 <= E -> all_nonneg probs -> (forall f, In f freqs -> 0 <= f) -> 0 <= P ->
  ebits_close P probs freqs E -> ebits_ok P probs freqs E.
Proof. exact ebits_close_ok. Qed.
Print Assumptions C08_ebits_close_suffices.

(** CREATE NEVER FAILS FOR THE LIBRARY'S CALLERS (they ignore its result).
    Full statement wanted: create_ok (the Flocq binary64 instance) on the callers' tables.  Proved: the statement
    for EVERY instance of the three double-precision steps that satisfies O1-O4 below; MISSING: the proof that the
    Flocq instance (f64_rnd P, f64_rel P, f64_scale of Model/RansFloat.v) satisfies them (a rounding-error analysis
    of four correctly rounded operations; the harness checks Create's result on every case instead):
      O1  0 <= rnd t f  and  rnd t f * t <= f * 2^P + t      (the rounded share exceeds f/t * 2^P by at most 1)
      O4  rnd t t <= 2^P                                     (f/f = 1 exactly)
      O2  0 <= scalef (relf total) p <= p  for total > 2^P, p >= 2      (2^P/total < 1)
      O3  scalef (relf total) is monotone on p >= 2.
    The generic core: a table with fewer used symbols than 2^P probability slots is always accepted. *)
Theorem C08_create_succeeds_partial : forall (F : Type) rnd (relf : Z -> F) scalef P, 0 <= P <= 20 ->
  (forall t f, 0 < t -> 0 < f <= t -> 0 <= rnd t f /\ rnd t f * t <= f * 2 ^ P + t) ->
  (forall t, 0 < t -> rnd t t <= 2 ^ P) ->
  (forall total p, 2 ^ P < total -> 2 <= p -> 0 <= scalef (relf total) p <= p) ->
  (forall total p q, 2 ^ P < total -> 2 <= p <= q -> scalef (relf total) p <= scalef (relf total) q) ->
  forall freqs, (forall f, In f freqs -> 0 <= f) -> 0 < zsum freqs < 2 ^ 64 -> nused freqs < 2 ^ P ->
  exists probs, rans_create F rnd relf scalef P freqs = COk probs.
Proof. exact create_succeeds. Qed.
Print Assumptions C08_create_succeeds_partial.

(** EncodeRawSymbols: the precision is derived from the TRUE number of unique symbols [nu] of the array (counted
    by ComputeShannonEntropy; PositiveMap.cardinal of the histogram in the model), the compression level (any
    int: the adjustments saturate) and the clamps; Create is called on the dense histogram up to the largest
    symbol.  EncodeTaggedSymbols: RAnsSymbolEncoder<5> on the 32 bit-length frequencies. *)
Theorem C08_create_succeeds_for_callers_partial : forall (F : Type) rnd (relf : Z -> F) scalef P,
  (forall t f, 0 < t -> 0 < f <= t -> 0 <= rnd t f /\ rnd t f * t <= f * 2 ^ P + t) ->
  (forall t, 0 < t -> rnd t t <= 2 ^ P) ->
  (forall total p, 2 ^ P < total -> 2 <= p -> 0 <= scalef (relf total) p <= p) ->
  (forall total p q, 2 ^ P < total -> 2 <= p <= q -> scalef (relf total) p <= scalef (relf total) q) ->
  (forall lvl syms, syms <> [] -> (forall s, In s syms -> 0 <= s) -> zlen syms < 2 ^ 64 ->
     let cnt := count_syms syms (PositiveMap.empty Z) in
     let nu := Z.of_nat (PositiveMap.cardinal cnt) in
     (if 0 <? nu then Z.log2 nu else 0) + 1 <= 18 ->
     P = rans_precision_bits (raw_bit_length nu lvl) ->
     exists probs, rans_create F rnd relf scalef P (dense cnt 0 (Z.to_nat (zmax_list syms + 1))) = COk probs) /\
  (forall tags, tags <> [] -> (forall t, In t tags -> 0 <= t < 32) -> zlen tags < 2 ^ 64 ->
     P = rans_precision_bits 5 ->
     exists probs, rans_create F rnd relf scalef P (dense (count_syms tags (PositiveMap.empty Z)) 0 32) = COk probs).
Proof.
  intros F rnd relf scalef P H1 H2 H3 H4. split.
  - exact (create_succeeds_raw F rnd relf scalef P H1 H2 H3 H4).
  - exact (create_succeeds_tagged F rnd relf scalef P H1 H2 H3 H4).
Qed.
Print Assumptions C08_create_succeeds_for_callers_partial.

(** Non-vacuity. *)
Example C08_example_raw :
  enc_symbols 1 7 1 [3; 1; 3; 3] = Some [1; 2; 4; 3; 1; 16; 3; 1; 48; 3; 0; 68; 130]
  /\ dec_symbols_opt 4 1 ([1; 2; 4; 3; 1; 16; 3; 1; 48; 3; 0; 68; 130] ++ [9]) = Some ([3; 1; 3; 3], [9]).
Proof. vm_compute. split; reflexivity. Qed.
Example C08_example_tagged :
  enc_symbols 0 7 2 [3; 1; 300; 3] = Some [0; 10; 7; 1; 32; 23; 1; 32; 3; 0; 208; 128; 199; 114; 0]
  /\ dec_symbols_opt 4 2 ([0; 10; 7; 1; 32; 23; 1; 32; 3; 0; 208; 128; 199; 114; 0] ++ [9; 9]) = Some ([3; 1; 300; 3], [9; 9]).
Proof. vm_compute. split; reflexivity. Qed.
(** A value of 32 bits is refused (the D6 fix), 31 bits are coded by the tagged scheme. *)
Example C08_example_reject : enc_symbols 0 7 1 [2 ^ 31] = None /\ enc_symbols 1 7 1 [2 ^ 18] = None
  /\ exists bs, enc_symbols 0 7 1 [2 ^ 31 - 1] = Some bs.
Proof. vm_compute. repeat split. eexists; reflexivity. Qed.

(** The hypotheses of C08_write_area_sufficient are satisfiable: [3;1;3;3] at 12 bits, E = 4 = ceil(cross).
    (The vm_compute runs behind this and the next two Examples are in Proofs/RansBound_examples.v.) *)
Example C08_example_write_area :
  exists probs st, create_f64 12 (dense (count_syms [3; 1; 3; 3] (PositiveMap.empty Z)) 0 4) = COk probs /\
    ebits_ok 12 probs (dense (count_syms [3; 1; 3; 3] (PositiveMap.empty Z)) 0 4) 4 /\
    rans_encode_syms 12 (arr_of_list (with_cum probs 0)) [3; 1; 3; 3] (rans_write_init 12) = Some st /\
    rans_area_used 12 st = Some 4 /\ rans_reserved 4 = 13.
Proof. exact example_write_area. Qed.

(** The theorem separates the two estimates of num_expected_bits_.  99900 x symbol 0 and 100 symbols occurring once,
    12 bits precision: Create gives symbol 0 the probability 3996/4096 and the others 1/4096; the cross entropy
    under that table is 4762.x bits, the encoder writes 585 + 3 bytes and EndEncoding touches 590 bytes of the
    area.  With E = 4763 (the cross entropy, what the library computes) 1203 bytes are reserved and
    [ebits_check] (the model's numerical test of [ebits_ok], fixed-point logarithms; used by the driver, not proved
    sound) accepts E.
    The Shannon entropy of the data itself, 99900*log2(100000/99900) + 100*log2(100000) = 1805.2 bits, is below
    2300 (the first conjunct is the 100th root of 100000^100000 <= 2^2300 * 99900^99900); an area sized from any
    E <= 2300 holds at most 587 bytes: three bytes (at E = 1806: 126 bytes) less than what is written, and
    [ebits_check] rejects every such E (it needs E >= 2965). *)
Example C08_example_shannon_estimate_overflows :
  1000 ^ 999 * 100000 <= 2 ^ 23 * 999 ^ 999 /\
  create_f64 12 C08_dominated_freqs = COk C08_dominated_probs /\ nth 0 C08_dominated_probs 0 = 3996 /\
  rans_encode_syms 12 (arr_of_list (with_cum C08_dominated_probs 0)) C08_dominated_syms (rans_write_init 12)
    = Some C08_dominated_state /\
  zlen (snd C08_dominated_state) = 585 /\ rans_area_used 12 C08_dominated_state = Some 590 /\
  rans_reserved 4763 = 1203 /\ ebits_check 12 C08_dominated_probs C08_dominated_freqs 4763 = true /\
  rans_reserved 2300 = 587 /\ rans_reserved 1806 = 464 /\
  ebits_check 12 C08_dominated_probs C08_dominated_freqs 2300 = false /\
  ebits_check 12 C08_dominated_probs C08_dominated_freqs 2964 = false.
Proof. exact example_shannon_estimate_overflows. Qed.

(** What the premise of C08_create_succeeds_for_callers_partial excludes.  4097 distinct symbols: from the true count the
    raw scheme derives bit length 13 and 19 bits of precision and Create succeeds; from a count of 0 (the value a
    caller that skips the counting would pass) it derives bit length 1 and 12 bits, 4097 symbols do not fit 4096
    probability slots, and Create returns false (its callers would go on with an unfinished table). *)
Example C08_example_create_needs_true_count :
  rans_precision_bits (raw_bit_length 4097 7) = 19 /\ create_ok 19 (repeat 1 (Z.to_nat 4097)) = true /\
  rans_precision_bits (raw_bit_length 0 7) = 12 /\ create_f64 12 (repeat 1 (Z.to_nat 4097)) = CFalse /\
  nused (repeat 1 (Z.to_nat 4097)) = 4097.
Proof. exact example_create_needs_true_count. Qed.
