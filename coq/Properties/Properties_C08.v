(** C08 — symbol entropy coding is lossless and self-delimiting.
    This file only restates theorems proved in Proofs/ and prints their assumptions. *)
From Coq Require Import FMapPositive.
From Draco Require Import Base.Codec Model.Varint Model.RansSymbol Model.RansFloat Model.SymbolCoding
  Proofs.RansSymbol_proofs Proofs.SymbolCoding_proofs.
Local Open Scope Z_scope.

(** rANS state invariant and step inversion: one rans_write keeps the state in [L, 256 L) (L = 4 * 2^P) and the
    decoder's rans_read, started from any state that renormalises to the encoder's, returns the symbol and a state
    that renormalises to the encoder's previous state. *)
Theorem C08_rans_step_inverse : forall P, 0 <= P <= 20 -> forall tbl d s x stk, sym_agree P tbl d s ->
  rans_L P <= x < 256 * rans_L P ->
  exists st2, (match arr_get tbl s with Some sym => rans_write P sym (x, stk) | None => None end) = Some st2 /\
    rans_L P <= fst st2 < 256 * rans_L P /\
    forall x1 stk1, dec_renorm (rans_L P) x1 stk1 = st2 ->
      exists x' stk', rans_read P d (x1, stk1) = Ok (s, (x', stk')) /\ dec_renorm (rans_L P) x' stk' = (x, stk).
Proof. exact rans_step. Qed.
Print Assumptions C08_rans_step_inverse.

(** The rANS coder proper: for every valid probability table (non-negative, total 2^P) and every list of symbols
    of non-zero probability, the decoder (Create, StartDecoding, DecodeSymbol * n) returns the symbols and stops
    exactly behind the block, whatever follows it ([rest]) and whatever lies in front of it ([pre]). *)
Theorem C08_rans_roundtrip : forall P probs syms bs rest pre, 0 <= P <= 20 -> table_ok P probs ->
  (forall s, In s syms -> sym_used probs s) ->
  rans_encode_with P probs syms = Some bs -> zlen bs < 2 ^ 31 ->
  rans_decode_symbols 514 P (length syms) pre (bs ++ rest) = Ok (syms, rest).
Proof. exact rans_roundtrip. Qed.
Print Assumptions C08_rans_roundtrip.

(** EncodeTable / the decoder's Create, including zero runs. *)
Theorem C08_table_roundtrips : forall P probs tb rest, 0 <= P <= 20 -> enc_table probs = Some tb -> probs <> [] ->
  all_nonneg probs -> zsum probs = 2 ^ P -> zlen probs + 64 < 2 ^ 32 ->
  rans_dec_create 514 P (tb ++ rest) = Ok ({| d_n := zlen probs; d_tbl := arr_of_list (with_cum probs 0) |}, rest).
Proof. exact dec_create_roundtrip. Qed.
Print Assumptions C08_table_roundtrips.

(** Create's table is valid whatever the double-precision steps return ([rnd], [relf], [scalef] arbitrary):
    total 2^P, every used symbol keeps probability >= 1, nothing negative, one entry per symbol. *)
Theorem C08_create_table_valid : forall (F : Type) rnd (relf : Z -> F) scalef P freqs probs,
  rans_create F rnd relf scalef P freqs = COk probs ->
  zsum probs = 2 ^ P /\ length probs = length (trim_freqs freqs) /\ all_nonneg probs /\
  (forall i f, nth_error (trim_freqs freqs) i = Some f -> 0 < f -> exists p, nth_error probs i = Some p /\ 1 <= p).
Proof. exact create_table_valid. Qed.
Print Assumptions C08_create_table_valid.

(** The repair loop `while (error > 0)` ends (measure: error, which every pass lowers by at least 1) as soon as
    there are two symbols; with one symbol it is never entered unless freq/freq*precision rounds above the precision. *)
Theorem C08_create_terminates : forall (F : Type) rnd (relf : Z -> F) scalef P freqs,
  (2 <= length (trim_freqs freqs))%nat \/ (forall t f, rnd t f <= 2 ^ P) -> 0 <= P ->
  rans_create F rnd relf scalef P freqs <> CFuel.
Proof. exact create_terminates. Qed.
Print Assumptions C08_create_terminates.

(** "there will be always a sufficient number of bits": for the 18 x 11 grid of bit lengths and compression levels,
    four times the number of unique symbols still fits the precision chosen by EncodeRawSymbols. *)
Theorem C08_precision_sufficient : forall b lvl nu, 1 <= b <= 18 -> 0 <= lvl <= 10 -> 2 ^ (b - 1) <= nu < 2 ^ b ->
  4 * nu < 2 ^ (rans_precision_bits (raw_bit_length nu lvl)).
Proof. exact precision_sufficient. Qed.
Print Assumptions C08_precision_sufficient.

(** The raw scheme. *)
Theorem C08_raw_roundtrips : forall lvl syms bs rest pre, syms <> [] -> (forall s, In s syms -> 0 <= s < 2 ^ 31) ->
  enc_raw lvl syms = Some bs -> zlen bs < 2 ^ 31 ->
  dec_raw 514 (length syms) pre (bs ++ rest) = Ok (syms, rest).
Proof. exact raw_roundtrips. Qed.
Print Assumptions C08_raw_roundtrips.

(** The tagged scheme (bit-length tags through RAnsSymbolEncoder<5>, values as raw bits). *)
Theorem C08_tagged_roundtrips : forall nc k syms bs rest pre, (1 <= nc)%nat -> length syms = (k * nc)%nat -> syms <> [] ->
  (forall s, In s syms -> 0 <= s < 2 ^ 31) ->
  enc_tagged nc syms = Some bs -> zlen bs < 2 ^ 31 ->
  dec_tagged 514 (length syms) nc pre (bs ++ rest) = Ok (syms, rest).
Proof. exact tagged_roundtrips. Qed.
Print Assumptions C08_tagged_roundtrips.

(** THE PROPERTY.  For every scheme choice [method], compression level, component count and symbol array: if
    EncodeSymbols returns true with the bytes [bs] (shorter than 2^31 bytes: the C++ sizes are `int`), then
    DecodeSymbols with the symbol count returns exactly the array and leaves exactly [rest] unread.
    No side condition on the symbols is needed: what EncodeSymbols cannot represent it rejects ([None], see
    C08_example_reject), so this is also "fails instead of emitting a block that decodes differently".
    [sym_guard] (symbols are uint32, the count is a multiple of num_components) is the C++ signature; outside it
    the model encoder returns [None]. *)
Theorem C08_symbols_roundtrips : forall method lvl nc syms bs rest,
  enc_symbols method lvl nc syms = Some bs -> zlen bs < 2 ^ 31 ->
  dec_symbols 514 (length syms) (Z.to_nat (if nc <=? 0 then 1 else nc)) [] (bs ++ rest) = Ok (syms, rest).
Proof. exact symbols_roundtrips. Qed.
Print Assumptions C08_symbols_roundtrips.

(** The same statement in the [roundtrips] shape of Base/Codec.v (num_components >= 1). *)
Theorem C08_enc_symbols_fail_or_exact : forall method lvl nc n, 1 <= nc ->
  roundtrips (enc_symbols method lvl nc) (dec_symbols_opt n (Z.to_nat nc))
             (fun syms => length syms = n /\ forall bs, enc_symbols method lvl nc syms = Some bs -> zlen bs < 2 ^ 31).
Proof.
  intros method lvl nc n Hnc syms bs rest (Hn & Hlen) He. unfold dec_symbols_opt. subst n.
  pose proof (symbols_roundtrips method lvl nc syms bs rest He (Hlen bs He)) as H.
  destruct (nc <=? 0) eqn:E; [lia|]. rewrite H. reflexivity.
Qed.
Print Assumptions C08_enc_symbols_fail_or_exact.

(** DecodeSymbols on arbitrary bytes (any version, count, component count, any bytes in front): the model decoder
    never makes an out-of-bounds access ([Oob]: the probability table, the symbol lookup) and never leaves the
    modelled domain ([Unmod]),
    for buffers below 2^26 bytes; all its loops are structural recursions, so it terminates by construction. *)
Theorem C08_dec_symbols_total : forall ver n nc pre bs, (forall b, In b bs -> 0 <= b) -> zlen bs < 2 ^ 26 ->
  safe (dec_symbols ver n nc pre bs).
Proof. exact dec_symbols_total. Qed.
Print Assumptions C08_dec_symbols_total.

(** On arbitrary bytes, for every count and component count, a successful DecodeSymbols returns exactly
    num_values values (the tagged scheme rejects counts that are not a multiple of num_components, commit 6105d6f;
    before that it stored ceil(n / nc) * nc values). *)
Theorem C08_dec_symbols_length_uncond : forall ver n nc pre bs syms r,
  dec_symbols ver n nc pre bs = Ok (syms, r) -> length syms = n.
Proof. exact dec_symbols_length_uncond. Qed.
Print Assumptions C08_dec_symbols_length_uncond.

(** The same with the (now redundant) divisibility hypotheses, as used by Proofs/SeqCodecInst_proofs.v. *)
Theorem C08_dec_symbols_length : forall ver n nc pre bs syms r, (1 <= nc)%nat -> (exists k, n = (k * nc)%nat) ->
  dec_symbols ver n nc pre bs = Ok (syms, r) -> length syms = n.
Proof. exact dec_symbols_length. Qed.
Print Assumptions C08_dec_symbols_length.

(** Non-vacuity. *)
Example C08_example_raw :
  enc_symbols 1 7 1 [3; 1; 3; 3] = Some [1; 2; 4; 3; 1; 16; 3; 1; 48; 3; 0; 68; 130]
  /\ dec_symbols_opt 4 1 ([1; 2; 4; 3; 1; 16; 3; 1; 48; 3; 0; 68; 130] ++ [9]) = Some ([3; 1; 3; 3], [9]).
Proof. vm_compute. split; reflexivity. Qed.
Example C08_example_tagged :
  enc_symbols 0 7 2 [3; 1; 300; 3] = Some [0; 10; 7; 1; 32; 23; 1; 32; 3; 0; 208; 128; 199; 114; 0]
  /\ dec_symbols_opt 4 2 ([0; 10; 7; 1; 32; 23; 1; 32; 3; 0; 208; 128; 199; 114; 0] ++ [9; 9]) = Some ([3; 1; 300; 3], [9; 9]).
Proof. vm_compute. split; reflexivity. Qed.
(** A value of 32 bits is refused (the D6 fix), 31 bits are coded by the tagged scheme. *)
Example C08_example_reject : enc_symbols 0 7 1 [2 ^ 31] = None /\ enc_symbols 1 7 1 [2 ^ 18] = None
  /\ exists bs, enc_symbols 0 7 1 [2 ^ 31 - 1] = Some bs.
Proof. vm_compute. repeat split. eexists; reflexivity. Qed.
