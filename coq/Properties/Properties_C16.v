(** C16 — prediction-correction transforms are exactly invertible for any prediction.
    This file only restates theorems proved in Proofs/ and prints their assumptions.
    Models: Model/Wrap.v (wrap transform, int32), Model/Octahedron.v (OctahedronToolBox leaves,
    canonicalized and plain octahedral transforms, uint32/int32 arithmetic explicit). *)
From Coq Require Import ZArith List.
From Draco Require Import Model.Wrap Model.Octahedron Proofs.Wrap_proofs Proofs.Octahedron_proofs.
Local Open Scope Z_scope.

(** ---- wrap transform ----
    Every legal range (min <= max, max - min < 2^31 - 1: exactly what InitCorrectionBounds and
    DecodeTransformData accept), every original of the range, EVERY int32 prediction (it is
    clamped first): encoder and decoder derive the same bounds, the decoder returns the original,
    and the correction lies in [min_correction, max_correction].  No further hypothesis: with the
    64-bit unwrapping of the current decoder the two no-overflow hypotheses that the proof
    forced on the old code (defect D8) are gone. *)
Theorem C16_wrap_roundtrip : forall mn mx orig pred,
  i32 mn -> i32 mx -> 0 <= mx - mn < 2147483647 -> mn <= orig <= mx -> i32 pred ->
  exists b, wrap_init mn mx = Some b /\ wrap_dec_init mn mx = Some b /\
    wrap_dec b pred (wrap_enc b orig pred) = orig /\
    wb_min_corr b <= wrap_enc b orig pred <= wb_max_corr b.
Proof. exact wrap_roundtrip. Qed.
Print Assumptions C16_wrap_roundtrip.

(** The encoder's three int32 operations (orig - clamped_pred, += max_dif, -= max_dif) never
    overflow on that domain (signed overflow would be undefined behaviour). *)
Theorem C16_wrap_no_ub : forall mn mx b orig pred,
  i32 mn -> i32 mx -> 0 <= mx - mn < 2147483647 -> wrap_init mn mx = Some b -> mn <= orig <= mx ->
  wrap_enc_no_ub b orig pred = true.
Proof. exact wrap_no_ub. Qed.
Print Assumptions C16_wrap_no_ub.

(** The decoder accepts exactly the ranges of the property. *)
Theorem C16_wrap_decoder_accepts_iff : forall mn mx, i32 mn -> i32 mx ->
  (wrap_dec_init mn mx <> None <-> 0 <= mx - mn < 2147483647).
Proof. exact wrap_dec_init_iff. Qed.
Print Assumptions C16_wrap_decoder_accepts_iff.

(** For a fixed prediction the encoder is injective on the range (corrections identify originals). *)
Theorem C16_wrap_enc_injective : forall mn mx b o1 o2 pred,
  i32 mn -> i32 mx -> 0 <= mx - mn < 2147483647 -> wrap_init mn mx = Some b ->
  mn <= o1 <= mx -> mn <= o2 <= mx -> wrap_enc b o1 pred = wrap_enc b o2 pred -> o1 = o2.
Proof. exact wrap_enc_injective. Qed.
Print Assumptions C16_wrap_enc_injective.

(** ---- canonicalized octahedral transform ----
    [canonical c p]: p is in the square [0,2c]^2 and CanonicalizeOctahedralCoords leaves it alone
    (the unique representative the encoder emits, see C16_canonicalize_emits_canonical).
    Machine model (uint32 InvertDiamond / AddAsUnsigned, int32 elsewhere), every centre value
    1 <= c <= 2^29-1, i.e. every quantization 2..30 and every value in between: *)
Theorem C16_oct_canon_roundtrip : forall c orig pred, 1 <= c <= cmax ->
  canonical c orig -> in_square c pred ->
  let b := obox_of_center c in
  oct_canon_dec b pred (oct_canon_enc b orig pred) = orig /\ in_square c (oct_canon_enc b orig pred).
Proof. exact oct_canon_roundtrip_machine. Qed.
Print Assumptions C16_oct_canon_roundtrip.

(** The same, phrased through SetQuantizationBits: for every q the library accepts. *)
Theorem C16_oct_canon_roundtrip_every_q : forall q b orig pred,
  set_quantization_bits q = Some b ->
  canonical (ob_center b) orig -> in_square (ob_center b) pred ->
  oct_canon_dec b pred (oct_canon_enc b orig pred) = orig /\ in_square (ob_center b) (oct_canon_enc b orig pred).
Proof. exact oct_canon_roundtrip_q. Qed.
Print Assumptions C16_oct_canon_roundtrip_every_q.

(** The same program over unbounded integers (InvertDiamond as its piecewise linear map, exact
    addition): EVERY centre value c >= 1 — no bound on q at all. *)
Theorem C16_oct_canon_roundtrip_every_center : forall c orig pred, 1 <= c ->
  canonical c orig -> in_square c pred ->
  x_canon_dec c pred (x_canon_enc c orig pred) = orig /\ in_square c (x_canon_enc c orig pred).
Proof. exact oct_canon_roundtrip_exact. Qed.
Print Assumptions C16_oct_canon_roundtrip_every_center.

(** ... and that unbounded program is the machine model wherever int32 can hold the state. *)
Theorem C16_oct_machine_eq_exact : forall c orig pred, 1 <= c <= cmax ->
  in_square c orig -> in_square c pred ->
  oct_canon_enc (obox_of_center c) orig pred = x_canon_enc c orig pred.
Proof. exact oct_canon_enc_machine_eq_exact. Qed.
Print Assumptions C16_oct_machine_eq_exact.

(** InvertDiamond's uint32 arithmetic is the linear map on the centred square. *)
Theorem C16_invert_uint32_eq_linear : forall c p, 0 <= c <= cmax -> csq c p ->
  invert_diamond (obox_of_center c) p = inv_lin c p.
Proof. exact invert_diamond_lin. Qed.
Print Assumptions C16_invert_uint32_eq_linear.

(** ---- plain (non-canonicalized) octahedral transform: same statement, same domain ---- *)
Theorem C16_oct_plain_roundtrip : forall c orig pred, 1 <= c <= cmax ->
  canonical c orig -> in_square c pred ->
  let b := obox_of_center c in
  oct_dec b pred (oct_enc b orig pred) = orig /\ in_square c (oct_enc b orig pred).
Proof. exact oct_plain_roundtrip_machine. Qed.
Print Assumptions C16_oct_plain_roundtrip.

Theorem C16_oct_plain_roundtrip_every_center : forall c orig pred, 1 <= c ->
  canonical c orig -> in_square c pred ->
  x_plain_dec c pred (x_plain_enc c orig pred) = orig /\ in_square c (x_plain_enc c orig pred).
Proof. exact oct_plain_roundtrip_exact. Qed.
Print Assumptions C16_oct_plain_roundtrip_every_center.

(** ---- the hypothesis [canonical] ---- *)
(** it is met by everything CanonicalizeOctahedralCoords returns on the square, *)
Theorem C16_canonicalize_emits_canonical : forall c p, 1 <= c -> in_square c p ->
  canonical c (canonicalize (obox_of_center c) p).
Proof. exact canonicalize_canonical. Qed.
Print Assumptions C16_canonicalize_emits_canonical.

(** and it is needed: a non-canonical edge point decodes to its canonical twin. *)
Theorem C16_oct_noncanonical_refuted :
  exists c orig pred, 1 <= c <= cmax /\ in_square c orig /\ in_square c pred /\
    ~ canonical c orig /\
    oct_canon_dec (obox_of_center c) pred (oct_canon_enc (obox_of_center c) orig pred) <> orig /\
    oct_dec (obox_of_center c) pred (oct_enc (obox_of_center c) orig pred) <> orig /\
    oct_canon_dec (obox_of_center c) pred (oct_canon_enc (obox_of_center c) orig pred)
      = canonicalize (obox_of_center c) orig.
Proof. exact oct_noncanonical_refuted. Qed.
Print Assumptions C16_oct_noncanonical_refuted.

(** ---- no signed overflow (undefined behaviour) in the octahedral transforms for q <= 30 ----
    every signed int32 intermediate of the encoder, for all points of the square: *)
Theorem C16_oct_canon_enc_no_overflow : forall c orig pred, 1 <= c <= cmax ->
  in_square c orig -> in_square c pred ->
  oct_canon_enc_no_ub (obox_of_center c) orig pred = true.
Proof. exact oct_canon_enc_no_overflow. Qed.
Print Assumptions C16_oct_canon_enc_no_overflow.

(** every signed intermediate of the decoder, for every prediction of the square and EVERY int32
    correction pair (hostile streams): *)
Theorem C16_oct_canon_dec_no_overflow_hostile : forall c pred corr, 1 <= c <= cmax ->
  in_square c pred -> i32 (fst corr) -> i32 (snd corr) ->
  oct_canon_dec_no_ub (obox_of_center c) pred corr = true.
Proof. exact oct_canon_dec_no_overflow_hostile. Qed.
Print Assumptions C16_oct_canon_dec_no_overflow_hostile.

(** ---- non-vacuity: the hypotheses are met by concrete, non-trivial values ---- *)
(** the range of defect D8, [1, 2^31-1], original 1, prediction 2^31-1: now round-trips *)
Example C16_example_wrap_D8 :
  match wrap_init 1 2147483647 with
  | Some b => wrap_enc b 1 2147483647 = 1 /\ wrap_dec b 2147483647 1 = 1 /\
              wb_max_dif b = 2147483647 /\ wb_min_corr b = -1073741823 /\ wb_max_corr b = 1073741823
  | None => False
  end.
Proof. vm_compute. repeat split; reflexivity. Qed.
(** a prediction far outside the range, wrapped correction *)
Example C16_example_wrap_far :
  match wrap_init (-5) 10 with
  | Some b => wrap_enc b 9 (-2147483648) = -2 /\ wrap_dec b (-2147483648) (-2) = 9 /\
              wb_min_corr b = -8 /\ wb_max_corr b = 7
  | None => False
  end.
Proof. vm_compute. repeat split; reflexivity. Qed.
(** q = 4 (c = 7): canonical original on the top edge, prediction outside the diamond in the
    top-right quadrant (inversion and rotation both happen) *)
Example C16_example_oct :
  set_quantization_bits 4 = Some (obox_of_center 7) /\
  canonicalize (obox_of_center 7) (9, 14) = (9, 14) /\
  is_in_diamond (obox_of_center 7) (13 - 7) (12 - 7) = false /\
  oct_canon_enc (obox_of_center 7) (9, 14) (13, 12) = (2, 11) /\
  oct_canon_dec (obox_of_center 7) (13, 12) (2, 11) = (9, 14) /\
  oct_dec (obox_of_center 7) (13, 12) (oct_enc (obox_of_center 7) (9, 14) (13, 12)) = (9, 14).
Proof. vm_compute. repeat split; reflexivity. Qed.
