(** TRAV (sub-check of C01; C06 self-delimitation; C02/C03 on the decoding side) — the serialisation layer between the
    Edgebreaker state machines and the byte stream is lossless.
    Model: Model/EbTraversal.v (traversal encoders/decoders, split-event block, EncodeConnectivity /
    DecodeConnectivity() framing, bitstream 2.2).  This file only restates theorems proved in
    Proofs/EbTraversal_proofs.v and prints their assumptions.

    Interface: symbols are the EdgebreakerTopologyBitPattern values C=0 S=1 L=3 R=5 E=7 ([topo]) in the order of the
    ENCODER's EncodeSymbol calls; start_bits the EncodeStartFaceConfiguration calls; seams one bit list per attribute
    data; events (source_symbol_id, split_symbol_id, source_edge).  All statements are for every list (unbounded). *)
From Draco Require Import Base.Codec Model.Varint Model.BitBuffer Model.Ans Model.BitCoders Model.RansSymbol Model.EbTraversal
  Proofs.EbTraversal_proofs.
Local Open Scope Z_scope.

(** (1) Standard traversal buffer.  Start() on the encoder's traversal buffer followed by ANY bytes succeeds and leaves
    exactly those bytes (the buffer Start() hands back); the DecodeSymbol calls return the symbols in REVERSE order of encoding, the
    DecodeStartFaceConfiguration calls the start-face bits, DecodeAttributeSeam(i) the seam bits of attribute data i.
    Premises: the symbols are C/S/L/R/E; every rANS bit sequence is shorter than 2^32 - 3 bits ([bits_len_ok], the
    uint32 size of RAnsBitEncoder).  That the symbol bits fit the reservation is part of [enc_trav_std .. = Some _]
    and is a theorem below (C01_trav_symbol_reservation_suffices). *)
Theorem C01_trav_standard_roundtrip : forall mesh_faces syms start_bits seams bs rest,
  Forall topo syms -> bits_len_ok start_bits -> Forall bits_len_ok seams ->
  enc_trav_std mesh_faces syms start_bits seams = Some bs ->
  exists d, dec_trav_std_start (length seams) (bs ++ rest) = Some (d, rest) /\
    drain_std (length syms) (length start_bits) (map (@length bool) seams) d = (rev syms, start_bits, seams).
Proof. exact trav_standard_roundtrip. Qed.
Print Assumptions C01_trav_standard_roundtrip.

(** "It's guaranteed that each face will need only up to 3 bits": with at most one symbol per face of the mesh the
    bits written never exceed StartBitEncoding's reservation (the model's [None] = a write past the reserved bytes). *)
Theorem C01_trav_symbol_reservation_suffices : forall mesh_faces syms,
  Forall topo syms -> 0 < mesh_faces -> 3 * mesh_faces < 2 ^ 32 -> zlen syms <= mesh_faces ->
  exists bs, enc_symbol_block mesh_faces syms = Some bs.
Proof. exact enc_symbol_block_total. Qed.
Print Assumptions C01_trav_symbol_reservation_suffices.

(** (2) Topology split events.  Invariant of the encoder used: split_symbol_id <= source_symbol_id < 2^32, source_edge
    one bit ([ev_ok]); at most num_faces events (the decoder's guard).  The increasing order of the source ids claimed
    in EncodeSplitData is NOT needed: the delta is taken and undone modulo 2^32. *)
Theorem C01_trav_split_events_roundtrip : forall nf evs bs rest,
  Forall ev_ok evs -> zlen evs <= nf ->
  enc_events evs = Some bs -> dec_events nf (bs ++ rest) = Some (evs, rest).
Proof. exact split_events_roundtrip. Qed.
Print Assumptions C01_trav_split_events_roundtrip.

(** (3) The whole framing, standard method: method byte, counts, split-event block, traversal buffer.
    Decoder guards and why the encoder's output passes them:
      method byte in {0, 2}                                   premise ch_method h = 0
      G1 num_faces <= 1431655765, G2 num_vertices <= 3 num_faces, G3 V(V-1)/2 >= 3 num_faces / 2,
      G4 num_symbols <= num_faces, G5 num_faces <= num_symbols + num_symbols / 3, G6 num_split_symbols <= num_symbols,
      G7 num_vertices + num_split_symbols fits an int          premise [hdr_plausible] (properties of the corner table and
                                                               the traversal; checked on every harness case incl. the
                                                               boundary shapes: 4 tetrahedra = equality in G5, tori with
                                                               multi-edges, duplicated faces)
      G8 number of events <= num_faces                         premise zlen evs <= ch_nf h
      G9 split delta <= source id                              from [ev_ok]
      G10 traversal_size <= remaining bytes                    proved (no premise)
      rANS block sizes, varint depths                          proved (no premise)
    num_attribute_data: a byte; the encoder itself fails above 128 ([enc_conn] = None), so no premise. *)
Theorem C01_trav_connectivity_header_roundtrip : forall h evs mesh_faces syms start_bits seams trav bs rest,
  hdr_in_range h -> hdr_plausible h -> ch_method h = 0 -> ch_nattr h = zlen seams ->
  Forall ev_ok evs -> zlen evs <= ch_nf h ->
  Forall topo syms -> bits_len_ok start_bits -> Forall bits_len_ok seams ->
  enc_trav_std mesh_faces syms start_bits seams = Some trav ->
  enc_conn h evs trav = Some bs ->
  exists d, dec_conn (bs ++ rest) = VOk (h, evs, TStd d, rest) /\
    drain_std (length syms) (length start_bits) (map (@length bool) seams) d = (rev syms, start_bits, seams).
Proof. exact conn_standard_roundtrip. Qed.
Print Assumptions C01_trav_connectivity_header_roundtrip.

(** (4) Valence traversal, the buffer: Start() recovers start-face bits, seam bits and the six context lists, whatever
    coding scheme EncodeSymbols chose for each list ([methods]).  Premises: at most num_faces (context, symbol) pairs
    (the decoder's guard per context); the buffer is smaller than 2^31 bytes (premise of C08_symbols_roundtrips). *)
Theorem C01_trav_valence_buffer_roundtrip : forall methods pairs start_bits seams bs rest num_vertices nf,
  bits_len_ok start_bits -> Forall bits_len_ok seams ->
  0 <= num_vertices -> zlen pairs <= nf -> zlen bs < 2 ^ 31 ->
  enc_trav_val methods pairs start_bits seams = Some bs ->
  exists d, dec_trav_val_start num_vertices nf (length seams) (bs ++ rest) = VOk (d, rest) /\
    fst (read_n ransbit_next (length start_bits) (vd_start d)) = start_bits /\
    read_seams (map (@length bool) seams) (vd_seams d) = seams /\
    vd_lists d = lists_of pairs /\ vd_counters d = counters_of pairs.
Proof. exact trav_valence_buffer_roundtrip. Qed.
Print Assumptions C01_trav_valence_buffer_roundtrip.

(** (4) Valence traversal, the symbol loop, for EVERY environment [step] (the state machine + valence bookkeeping that
    computes the next context; Model.EbTraversal.val_env_step is the instance written as in the C++).
    [pairs]: what the encoder's EncodeSymbol calls appended, in order; [syms]: its symbols in encoding order.
    Premises on the encoder (tested on every harness case): each pair carries the id of the symbol encoded one call
    earlier and the last symbol is E (it is never written: "The first symbol must be E").
    [ctx_agree] (the 4th premise): the contexts active at the decoder's DecodeSymbol calls are -1 followed by the
    encoder's contexts in reverse order.  Conclusion: the decoder returns the symbols in reverse order and every
    context list is consumed exactly (all counters 0), in the order the encoder appended, from the back. *)
Theorem C01_trav_valence_roundtrip : forall (Env : Type) (step : Env -> Z -> option (Env * Z)) pairs syms env ss cs cf,
  Forall pair_ok pairs ->
  syms = map (fun p => topo_of_id (snd p)) pairs ++ [TOPOLOGY_E] ->
  vd_run step (length syms) env (-1) (-1) (lists_of pairs) (counters_of pairs) = (ss, cs, cf) ->
  cs = -1 :: rev (map fst pairs) ->
  ss = rev syms /\ cf = [0; 0; 0; 0; 0; 0].
Proof. intros Env. exact (@valence_run_roundtrip Env). Qed.
Print Assumptions C01_trav_valence_roundtrip.

(** (5) Hostile side.  The model decoder is a total function (structural recursion only).  On ARBITRARY bytes, if it
    accepts: the counts satisfy every guard; there are at most num_faces events, each with split <= source < 2^32 and
    a one-bit edge; (standard) the rest is a suffix of the input - nothing outside the buffer is read -, there is
    one seam decoder per declared attribute data, and ANY number n of DecodeSymbol calls yields n symbols that are all
    C/S/L/R/E (reading past the end of the data yields C's); (valence) six context lists with counters = their
    lengths, so [vd_decode_symbol] never indexes outside a list (it answers TOPOLOGY_INVALID). *)
Theorem C02_trav_decoder_sound : forall bs h evs t rest, wf_bytes bs -> dec_conn bs = VOk (h, evs, t, rest) ->
  (ch_method h = 0 \/ ch_method h = 2) /\
  0 <= ch_nv h < 2 ^ 32 /\ 0 <= ch_nf h < 2 ^ 32 /\ 0 <= ch_nattr h < 256 /\ 0 <= ch_nsym h < 2 ^ 32 /\ 0 <= ch_nsplit h < 2 ^ 32 /\
  conn_guards (ch_nv h) (ch_nf h) (ch_nsym h) (ch_nsplit h) = true /\
  zlen evs <= ch_nf h /\ Forall ev_dec_ok evs /\
  match t with
  | TStd d => ch_method h = 0 /\ is_suffix rest bs /\ length (sd_seams d) = Z.to_nat (ch_nattr h) /\
              forall n, length (fst (dec_symbols_n n (sd_sym d))) = n /\ Forall topo (fst (dec_symbols_n n (sd_sym d)))
  | TVal d => ch_method h = 2 /\ length (vd_seams d) = Z.to_nat (ch_nattr h) /\
              length (vd_lists d) = num_contexts /\ vd_counters d = map zlen (vd_lists d)
  end.
Proof. exact dec_conn_sound. Qed.
Print Assumptions C02_trav_decoder_sound.

(** The valence symbol loop on arbitrary lists/counters/environment: at most n symbols, one context per symbol, every
    symbol but possibly the last is C/S/L/R/E (the last may be TOPOLOGY_INVALID, on which the state machine stops). *)
Theorem C03_trav_valence_run_sound : forall (Env : Type) (step : Env -> Z -> option (Env * Z)) n env ctx last lists counters,
  let '(ss, cs, _) := vd_run step n env ctx last lists counters in
  length ss = length cs /\ (length ss <= n)%nat /\ Forall topo (removelast ss).
Proof. intros Env. exact (@vd_run_sound Env). Qed.
Print Assumptions C03_trav_valence_run_sound.

(** The fast bit reads of the model are the BitBuffer (C17) semantics. *)
Theorem C01_trav_bit_block_is_dec_block : forall ver ns bs, Forall (fun n => 0 <= n <= 32) ns ->
  dec_block ver false ns bs = Some (None, fst (dec_bit_block ns bs), snd (dec_bit_block ns bs)).
Proof. exact dec_bit_block_spec. Qed.
Print Assumptions C01_trav_bit_block_is_dec_block.

(** ** Non-vacuity: concrete values meet the premises, and the functions compute. *)
Example TRAV_example_standard :
  let syms := [TOPOLOGY_C; TOPOLOGY_R; TOPOLOGY_S; TOPOLOGY_L; TOPOLOGY_E] in
  let start_bits := [true; false] in
  let seams := [[true; false; true]; []] in
  Forall topo syms /\ bits_len_ok start_bits /\ Forall bits_len_ok seams /\
  match enc_trav_std 6 syms start_bits seams with
  | Some bs =>
    match dec_trav_std_start 2 (bs ++ [9; 9]) with
    | Some (d, rest) => rest = [9; 9] /\ drain_std 5 2 [3%nat; 0%nat] d = (rev syms, start_bits, seams)
    | None => False
    end
  | None => False
  end.
Proof.
  cbn zeta. split; [repeat constructor|]. split; [unfold bits_len_ok, zlen; cbn; lia|].
  split; [repeat constructor; unfold bits_len_ok, zlen; cbn; lia|]. vm_compute. split; reflexivity.
Qed.

Example TRAV_example_events :
  let evs : list event := [(5, 2, 1); (9, 9, 0); (7, 0, 1)] in     (* not sorted by source id: still lossless *)
  Forall ev_ok evs /\ enc_events evs = Some [3; 5; 3; 4; 0; 254; 255; 255; 255; 15; 7; 5] /\
  dec_events 3 ([3; 5; 3; 4; 0; 254; 255; 255; 255; 15; 7; 5] ++ [77]) = Some (evs, [77]).
Proof.
  cbn zeta. split; [repeat constructor; cbn; lia|]. split; vm_compute; reflexivity.
Qed.

Example TRAV_example_connectivity :
  let h := {| ch_method := 0; ch_nv := 4; ch_nf := 4; ch_nattr := 1; ch_nsym := 3; ch_nsplit := 0 |} in
  let syms := [TOPOLOGY_C; TOPOLOGY_R; TOPOLOGY_E] in
  hdr_in_range h /\ hdr_plausible h /\
  match enc_trav_std 4 syms [true] [[false; true]] with
  | Some trav =>
    match enc_conn h [] trav with
    | Some bs =>
      match dec_conn (bs ++ [1; 2; 3]) with
      | VOk (h', evs', TStd d, rest) => h' = h /\ evs' = [] /\ rest = [1; 2; 3] /\
                                        drain_std 3 1 [2%nat] d = (rev syms, [true], [[false; true]])
      | _ => False
      end
    | None => False
    end
  | None => False
  end.
Proof.
  cbn zeta. split; [unfold hdr_in_range; cbn; lia|]. split; [vm_compute; reflexivity|].
  vm_compute. repeat split; reflexivity.
Qed.

(** the encoder's own guard: 129 attribute data do not encode *)
Example TRAV_example_too_many_attributes :
  enc_conn {| ch_method := 0; ch_nv := 4; ch_nf := 2; ch_nattr := 129; ch_nsym := 2; ch_nsplit := 0 |} [] [] = None.
Proof. reflexivity. Qed.

Example TRAV_example_valence :
  let pairs := [(3, 3); (0, 0); (3, 1)] in                        (* R in context 3, C in context 0, S in context 3 *)
  let syms := [TOPOLOGY_R; TOPOLOGY_C; TOPOLOGY_S; TOPOLOGY_E] in
  (* an environment that replays the encoder's contexts in reverse *)
  let step := fun (env : list Z) (_ : Z) => match env with c :: r => Some (r, c) | [] => Some ([], 0) end in
  Forall pair_ok pairs /\ syms = map (fun p => topo_of_id (snd p)) pairs ++ [TOPOLOGY_E] /\
  vd_run step 4 [3; 0; 3] (-1) (-1) (lists_of pairs) (counters_of pairs) =
    (rev syms, -1 :: rev (map fst pairs), [0; 0; 0; 0; 0; 0]).
Proof.
  cbn zeta. split; [repeat constructor; cbn; lia|]. split; vm_compute; reflexivity.
Qed.

(** hostile bytes: a declared face count below the symbol count is rejected; reading symbols past the data yields C *)
Example TRAV_example_hostile :
  dec_conn [0; 3; 1; 0; 2; 0; 0; 0] = VReject /\
  fst (dec_symbols_n 5 {| sb_D := 5; sb_L := 3; sb_off := 0 |}) = [TOPOLOGY_R; 0; 0; 0; 0].
Proof. split; vm_compute; reflexivity. Qed.
