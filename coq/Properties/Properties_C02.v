(** C02 — decoding arbitrary bytes is memory-safe, UB-free and returns a Status.            (PARTIAL)

    What a Coq model can carry is the LOGIC of the guards: every modelled decoder is a total function on
    arbitrary byte strings that (a) never runs out of fuel (= terminates by an explicit measure), (b) reads
    its input only through checked accessors (pattern matching on the byte list: there is no out-of-bounds
    read to model) and (c) performs no signed overflow on hostile values.  The modelled decoders agree with
    the implementation on accept/reject and on every decoded value for valid AND corrupted streams
    (correspondence of C17, C08, C11, C01).  NOT covered by any theorem: object lifetime, the allocator,
    actual undefined behaviour of the C++, the decoders that are not modelled (Edgebreaker connectivity,
    traversers, kd-tree, mesh prediction schemes) — that is the ASan/UBSan search of this check. *)
From Draco Require Import Base.Codec Model.Varint Model.BitBuffer Model.Ans Model.Metadata Model.CornerTable Model.Octahedron
  Proofs.BitBuffer_proofs Proofs.C17_final_proofs Proofs.Metadata_proofs Proofs.CornerTable_proofs Proofs.Wrap_proofs Proofs.Octahedron_proofs.
Local Open Scope Z_scope.

(** The metadata decoder (explicit work-list loop and its recursive twin) terminates on every input and never
    returns more bytes than it was given. *)
Theorem C02_metadata_decoder_total : forall bs,
  dec_geometry_stack bs <> OutOfFuel /\ dec_geometry_rec bs <> OutOfFuel /\
  (forall g r, dec_geometry_stack bs = Ok (g, r) -> (length r <= length bs)%nat).
Proof. exact dec_total. Qed.
Print Assumptions C02_metadata_decoder_total.

(** Corner-table construction (used by the Edgebreaker decoder on decoded connectivity) terminates for every
    triangle list: no fuel exhaustion in ComputeOppositeCorners / BreakNonManifoldEdges / ComputeVertexCorners. *)
Theorem C02_corner_table_total : forall faces, exists t, ct_create faces = Some t.
Proof. exact ct_create_total. Qed.
Print Assumptions C02_corner_table_total.

(** Bit reader past the end of the buffer: zeros, no access outside the byte list. *)
Theorem C02_bit_reader_past_end : forall bs off n, wf_bytes bs -> 8 * Z.of_nat (length bs) <= off -> 0 <= n ->
  (le_val bs / 2 ^ off) mod 2 ^ n = 0.
Proof. exact get_bits_past_end. Qed.
Print Assumptions C02_bit_reader_past_end.

(** rABS decoder at the start of its block (buf_offset == 0): reads nothing. *)
Theorem C02_rabs_reader_at_block_start : forall x p0, snd (rabs_read x [] p0) = [].
Proof. exact rabs_read_empty_stack. Qed.
Print Assumptions C02_rabs_reader_at_block_start.

(** The canonicalized octahedral decoding transform performs no signed overflow for ANY int32 correction pair
    (hostile corrections), every prediction of the square, every quantization up to 30 bits. *)
Theorem C02_oct_decoder_no_signed_overflow : forall c pred corr, 1 <= c <= cmax ->
  in_square c pred -> i32 (fst corr) -> i32 (snd corr) ->
  oct_canon_dec_no_ub (obox_of_center c) pred corr = true.
Proof. exact oct_canon_dec_no_overflow_hostile. Qed.
Print Assumptions C02_oct_decoder_no_signed_overflow.

Example C02_example_hostile_metadata : dec_geometry_stack [255; 255; 255; 255; 15; 1] <> OutOfFuel.
Proof. apply C02_metadata_decoder_total. Qed.
