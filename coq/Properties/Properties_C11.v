(** C11 — geometry and attribute metadata survive the round trip.
    This file only restates theorems proved in Proofs/Metadata_proofs.v and prints their assumptions.

    Objects: [gmeta] = (list of (att_unique_id, tree), root tree); a tree is
    [Node entries subs] with byte-string names and values.  [wf_gmeta] is what the C++
    containers guarantee for anything a caller can build (both std::maps of every object in
    ascending key order = strictly sorted, unique names) plus the sizes fitting the encoder's
    uint32_t casts (fewer than 2^32 entries / sub-metadata / attribute metadata / value bytes,
    unique ids < 2^32).  [enc_geometry] = MetadataEncoder::EncodeGeometryMetadata,
    [dec_geometry_stack] = MetadataDecoder::DecodeGeometryMetadata with the explicit work list
    as written, [dec_geometry_rec] = the same reads and checks as a recursion. *)
From Draco Require Import Base.Codec Model.Varint Model.Metadata Proofs.Metadata_proofs.
Local Open Scope Z_scope.

(** Lossless, self-delimiting, independent of trailing bytes (recursive decoder model). *)
Theorem C11_metadata_roundtrips_rec : forall g bs rest, wf_gmeta g -> enc_geometry g = Some bs ->
  dec_geometry_rec (bs ++ rest) = Ok (g, rest).
Proof. exact metadata_roundtrips_rec. Qed.
Print Assumptions C11_metadata_roundtrips_rec.

(** The same for the work-list decoder as written in the C++. *)
Theorem C11_metadata_roundtrips : forall g bs rest, wf_gmeta g -> enc_geometry g = Some bs ->
  dec_geometry_stack (bs ++ rest) = Ok (g, rest).
Proof. exact metadata_roundtrips_stack. Qed.
Print Assumptions C11_metadata_roundtrips.

(** In the [roundtrips] shape shared by all codec theorems. *)
Theorem C11_metadata_roundtrips_codec : roundtrips enc_geometry dec_geometry wf_gmeta.
Proof. exact metadata_roundtrips_codec. Qed.
Print Assumptions C11_metadata_roundtrips_codec.

(** The property's statement: whatever the caller built is returned unchanged, or the encoder
    reports failure; never silently altered, never undecodable. *)
Theorem C11_encode_fail_or_roundtrip : forall g, wf_gmeta g ->
  enc_geometry g = None \/
  exists bs, enc_geometry g = Some bs /\ dec_geometry_stack bs = Ok (g, []).
Proof. exact encode_fail_or_roundtrip. Qed.
Print Assumptions C11_encode_fail_or_roundtrip.

(** ... and the encoder fails exactly when some name exceeds 255 bytes, some value is empty, or
    sub-metadata are nested deeper than the decoder's level limit ([gencodable]). *)
Theorem C11_encoder_fails_iff : forall g, wf_gmeta g -> (enc_geometry g = None <-> ~ gencodable g).
Proof. exact enc_geometry_fails_iff. Qed.
Print Assumptions C11_encoder_fails_iff.

(** The work-list loop and the recursion are the same function of the input, on ALL byte
    strings (valid or not). *)
Theorem C11_stack_equiv : forall bs, dec_geometry_stack bs = dec_geometry_rec bs.
Proof. exact stack_equiv. Qed.
Print Assumptions C11_stack_equiv.

(** Totality on arbitrary bytes: the model's fuel is never exhausted and a decoder never
    returns more bytes than it was given. *)
Theorem C11_dec_total : forall bs,
  dec_geometry_stack bs <> OutOfFuel /\ dec_geometry_rec bs <> OutOfFuel /\
  (forall g r, dec_geometry_stack bs = Ok (g, r) -> (length r <= length bs)%nat).
Proof. exact dec_total. Qed.
Print Assumptions C11_dec_total.

(** Allocation requests on arbitrary bytes.  (i) DecodeEntry's value buffer never exceeds the
    bytes remaining when it is requested.  (ii) One iteration of the work-list loop consumes at
    least two bytes and pushes at most as many frames as bytes remain after it.
    (iii) Over a whole run the pending work list never exceeds (kMaxSubmetadataLevel + 2) * input
    length + 1 frames -- NOT the input length: the real decoder shows this amplification
    (a 64 KiB block makes it hold ~65 million 24-byte frames = 1.5 GB before it fails). *)
Theorem C11_entry_alloc_bounded : forall bs sz rem, entry_alloc bs = Some (sz, rem) -> sz <= rem /\ rem < len bs.
Proof. exact entry_alloc_bounded. Qed.
Print Assumptions C11_entry_alloc_bounded.

Theorem C11_stack_step_bounded : forall root par level stk bs root2 stk2 r,
  stack_step root par level stk bs = Ok (root2, stk2, r) ->
  (length r + 2 <= length bs)%nat /\ (length stk2 <= length stk + length r)%nat /\
  exists pushed, stk2 = pushed ++ stk /\ (length pushed <= length r)%nat.
Proof. intros. eapply stack_step_total. eassumption. Qed.
Print Assumptions C11_stack_step_bounded.

(** (iii) [reach] = the states the while loop passes through (iteration of [stack_step], which
    [stack_loop] performs).  kMaxSubmetadataLevel + 2 = 1002. *)
Theorem C11_stack_peak_bound : forall bs0 root stk bs,
  reach (Node [] [], [(None, 0)], bs0) (root, stk, bs) ->
  Z.of_nat (length stk) <= (kMaxSubmetadataLevel + 2) * Z.of_nat (length bs0) + 1 /\
  (length bs <= length bs0)%nat.
Proof. exact stack_peak_bound. Qed.
Print Assumptions C11_stack_peak_bound.

Theorem C11_stack_loop_reach : forall fuel root stk bs t r,
  stack_loop fuel root stk bs = Ok (t, r) -> reach (root, stk, bs) (t, [], r).
Proof. exact stack_loop_reach. Qed.
Print Assumptions C11_stack_loop_reach.

(** Non-vacuity: a two-level tree with two entries per level and attribute metadata. *)
Definition ex_tree : node :=
  Node [([97], [1; 2]); ([98; 200], [255])]
       [([0], Node [([], [7])] []); ([97], Node [([120], [1]); ([121], [2; 3])] [([], Node [] [])])].
Definition ex_g : gmeta := GMeta [(5, Node [([1], [9])] []); (5, Node [] [])] ex_tree.

Example C11_example_wf : wf_gmeta ex_g.
Proof.
  split; cbn [gm_atts gm_root ex_g].
  all: repeat first [ apply Forall_nil | apply Forall_cons | apply wf_Node
                    | (vm_compute; reflexivity) | (vm_compute; discriminate) | (split; cbn [fst snd]) ].
Qed.

Example C11_example_roundtrip :
  exists bs, enc_geometry ex_g = Some bs /\ dec_geometry_stack (bs ++ [42]) = Ok (ex_g, [42]) /\
             dec_geometry_rec bs = Ok (ex_g, []) /\ length bs = 46%nat.
Proof. eexists. split; [vm_compute; reflexivity|]. vm_compute. repeat split; reflexivity. Qed.

(** the failure cases exist: long name, empty value, nesting beyond the limit *)
Fixpoint chain (n : nat) : node := match n with O => Node [] [] | S k => Node [] [([99], chain k)] end.
Example C11_example_failures :
  enc_node (Node [(repeat 97 256, [1])] []) = None /\ enc_node (Node [([97], [])] []) = None /\
  (exists bs, enc_node (chain 1001) = Some bs /\ dec_node_stack bs = Ok (chain 1001, [])) /\
  enc_node (chain 1002) = None.
Proof.
  split; [vm_compute; reflexivity|]. split; [vm_compute; reflexivity|]. split; [|vm_compute; reflexivity].
  eexists. split; [vm_compute; reflexivity|]. vm_compute. reflexivity.
Qed.
