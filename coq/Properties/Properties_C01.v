(** C01 — encode/decode round trip reproduces the geometry exactly (modulo quantization).

    PROVED here for the two SEQUENTIAL methods (point cloud, mesh) end to end — header, metadata, connectivity
    (raw 8/16/varint/32-bit indices and entropy-coded differences), attribute framing, generic / integer (prediction
    none or delta+wrap, built-in entropy coding or raw 1..4-byte integers) / quantization attribute coders, for every
    data type, component count, speed, option set — with the real symbol coder (C08) and metadata coder (C11) plugged
    in.  The decoded geometry is stated exactly: same point count, same metadata, same faces in the same order, the
    same attributes in the same order with the same descriptors; values bit-identical for generic and integer
    attributes, and for quantized attributes exactly InverseTransform(GeneratePortable(values)) with the parameters the
    encoder computed (how close that is to the input is C04; that it depends on nothing else is C12).
    NOT proved (search + cross-method oracle only): Edgebreaker connectivity/traversal, mesh prediction schemes,
    kd-tree coding, normals (octahedral) attributes.  Excluded by explicit premises, each a recorded finding:
    empty geometry with an integer/quantized attribute (D11, [atts_ok]'s last disjunct), entropy-coded connectivity
    tripping the decoder's size guard (D10, in [mesh_ok]). *)
From Draco Require Import Base.Codec Model.Varint Model.Metadata Model.SeqAttr Model.SeqCodec Model.SeqCodecInst
  Proofs.Wrap_proofs Proofs.SeqAttr_proofs Proofs.SeqCodec_proofs Proofs.SeqCodecInst_proofs Proofs.Metadata_proofs.
Local Open Scope Z_scope.

Theorem C01_seq_point_cloud_roundtrips : forall np md atts bs rest, pc_ok_inst np md atts ->
  i_enc_pc_seq np md atts = Some bs ->
  i_dec_pc_seq (fun _ => false) (bs ++ rest)
    = Some ({| dp_npoints := np; dp_md := md; dp_atts := map expected_att atts |}, rest).
Proof. exact seq_pc_roundtrips_inst. Qed.
Print Assumptions C01_seq_point_cloud_roundtrips.

Theorem C01_seq_mesh_roundtrips : forall np md conn faces atts bs rest, mesh_ok_inst np md conn faces atts rest ->
  i_enc_mesh_seq np md conn faces atts = Some bs ->
  i_dec_mesh_seq (fun _ => false) (bs ++ rest)
    = Some ({| dm_npoints := np; dm_md := md; dm_faces := faces; dm_atts := map expected_att atts |}, rest).
Proof. exact seq_mesh_roundtrips_inst. Qed.
Print Assumptions C01_seq_mesh_roundtrips.

(** what "the same attribute" means: descriptor unchanged; generic and integer attributes bit-identical *)
Theorem C01_unquantized_values_identical : forall a,
  match a_kind a with KQuant _ _ _ => True | _ => da_rows (expected_att a) = a_rows a \/ a_kind a <> KGeneric end /\
  da_desc (expected_att a) = a_desc a.
Proof.
  intros a. split; [|reflexivity]. destruct (a_kind a) eqn:E; try exact I.
  - left. unfold expected_att, expected_rows. cbn [da_rows]. rewrite E. reflexivity.
  - right. congruence.
  - right. congruence.   (* KNormal: quantized normals (lossy, see C07) *)
Qed.
Print Assumptions C01_unquantized_values_identical.

(** the integer attribute coder alone, for every option set: the int32 rows come back exactly, and the encoder
    rejects (instead of emitting an undecodable block) value ranges the wrap transform cannot represent (D7 fix) *)
Theorem C01_integer_block_roundtrip : forall o nc rows bs rest, (1 <= nc)%nat -> rows <> [] ->
  Forall (fun r => length r = nc /\ Forall i32 r) rows ->
  (io_builtin o = true -> sym_guard_inst (Z.of_nat nc) (int_block_syms o nc rows)) ->
  enc_int_block sym_enc o nc rows = Some bs ->
  dec_int_block sym_dec nc (length rows) (bs ++ rest) = Some (rows, rest).
Proof. intros o nc rows bs rest. exact (int_block_roundtrip sym_enc sym_dec sym_guard_inst sym_law_inst o nc rows bs rest). Qed.
Print Assumptions C01_integer_block_roundtrip.

Theorem C01_integer_block_range_rejected : forall o nc rows, rows <> [] -> io_pred o = PDelta ->
  snd (flat_min_max (concat rows)) - fst (flat_min_max (concat rows)) >= 2147483647 ->
  enc_int_block sym_enc o nc rows = None.
Proof. intros o nc rows. exact (int_block_range_rejected sym_enc o nc rows). Qed.
Print Assumptions C01_integer_block_range_rejected.

(** D11, kept visible: an attribute without values is encoded as nothing and the decoder rejects that *)
Theorem C01_empty_integer_attribute_refuted : forall o nc,
  enc_int_block sym_enc o nc [] = Some [] /\ dec_int_block sym_dec nc 0 [] = None.
Proof. intros o nc. split; [reflexivity|]. reflexivity. Qed.
Print Assumptions C01_empty_integer_attribute_refuted.
